#!/venv/bin/python
"""Ad-hoc mutation helper: tools/mut.py <file> <old> <new> -- <check ids...>
Copies /repo/pamqp to a scratch dir, replaces the first occurrence of <old>
in pamqp/<file>, runs the checks with --repo, removes the copy."""
import os, shutil, subprocess, sys, tempfile
args = sys.argv[1:]
sep = args.index('--')
edits, ids = args[:sep], args[sep + 1:]
tmp = tempfile.mkdtemp(prefix='pamqp-mut-')
try:
    shutil.copytree('/repo/pamqp', os.path.join(tmp, 'pamqp'))
    for i in range(0, len(edits), 3):
        f, old, new = edits[i:i + 3]
        p = os.path.join(tmp, 'pamqp', f)
        s = open(p).read()
        if old not in s:
            print('pattern not found in', f); sys.exit(3)
        s = s.replace(old, new, 1)
        open(p, 'w').write(s)
    env = dict(os.environ, VERIF_EVIDENCE_DIR=os.path.join(tmp, 'evidence'))
    r = subprocess.run(['/verif/check'] + ids + ['--repo', tmp], capture_output=True, text=True, env=env)
    out = r.stdout + r.stderr
    keep = [l for l in out.splitlines() if not l.startswith('  C')]
    print('\n'.join(keep[:int(os.environ.get('MUT_LINES', '25'))]))
    print('exit', r.returncode)
finally:
    shutil.rmtree(tmp)
