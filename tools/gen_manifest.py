#!/venv/bin/python
"""Regenerates /verif/MANIFEST.json from the table below (kept valid at all
times; properties without an entry are listed under not_applicable)."""
import json, os
HERE = os.path.dirname(os.path.dirname(os.path.abspath(__file__)))
TRUST = ('Trusted base: CPython ast parser; the library models of sa/models.py '
         '(struct, bytes, str, datetime raise/value models); the hand-transcribed '
         'specification tables in /verif/spec. ')
CLAIMS = {

 'C01': dict(
  text='Abstract interpretation of frame.marshal and frame.unmarshal specialised to each of the 64 method classes with symbolic argument values: the written layout and the read sequence (offsets as linear sums of consumed counts, bit positions, envelope, index) must agree, and each primitive encoder/decoder pair must agree in width, byte order, signedness-on-the-accepted-range and consumed count. Decides the structural part of the round trip for all argument values at once; it does not decide the numerical behaviour of struct/UTF-8 themselves.',
  ref='DESIGN.md 5 C01', note=TRUST + 'Table-valued arguments defer to C03.',
  technique='abstract interpretation (partial evaluation over a symbolic term domain) + struct-format algebra, sibling agreement of writer and reader'),
 'C02': dict(
  text='Abstract interpretation of the content-header encoder and decoder with all 14 property values and the body size symbolic: conditional appends are joined (no enumeration of the 2^13 subsets) into a flag or-set plus optional fields; the decoder side yields flag-guarded reads at guarded-sum offsets; compared in slot order together with the presence predicate, the single flag word, the fixed part and fresh defaults.',
  ref='DESIGN.md 5 C02', note=TRUST + 'Assume-guarantee across the wire: the decoder loop is interpreted under the continuation-bit-clear fact that C02.W proves of the encoder.',
  technique='abstract interpretation with joins (or-sets, optional list elements), demanded-bits argument for the flag word'),
 'C04': dict(
  text='The residual byte layout of frame.marshal for all 64 methods, content header, body, heartbeat and protocol header is compared with a reference layout generated from an independently transcribed specification by the AMQP bit-packing rule; each primitive encoder is compared with the reference encoding of its type or field tag.',
  ref='DESIGN.md 5 C04', note=TRUST + 'longlong is signed in the library; agrees with the reference on all values both represent.',
  technique='abstract interpretation of the encoders vs reference layout generated from transcribed spec tables'),
 'C06': dict(
  text='Path rules over every successful return of frame.unmarshal on a symbolic buffer: consumed/channel/kind are the header fields, the end-octet guard is among the path facts, and every use of the buffer is a view bounded by the consumed count (so trailing bytes cannot influence the result).',
  ref='DESIGN.md 5 C06', note=TRUST,
  technique='abstract interpretation with path knowledge (guards, size-checked-read facts), linear reasoning, bounded-view (taint) rule'),
 'C07': dict(
  text='For every successful return of frame.unmarshal the path facts must imply len(buffer) >= consumed; outcomes inside content decoders must lie behind the same guard; the framing stage may raise only UnmarshalingException. Together: a strict prefix never yields a frame.',
  ref='DESIGN.md 5 C07', note=TRUST,
  technique='guard-dominates-return via path knowledge + linear inequality reasoning; may-raise of the framing stage'),
 'C17': dict(
  text='Exhaustive static comparison of CLASS_MAPPING, the exception class hierarchy and the protocol constants with a transcribed table (finite space, enumerated completely).',
  ref='DESIGN.md 5 C17', note=TRUST,
  technique='AST extraction + constant folding + class-hierarchy closure vs transcribed table'),
 'C19': dict(
  text='For each of the 65 classes the six mapping accessors, resolved through the MRO, are specialised by the abstract interpreter with symbolic attribute values and compared with the ordered slot list; constructors must assign every slot on every normal path.',
  ref='DESIGN.md 5 C19', note=TRUST + 'Slot tables are class-level literals nobody writes (C16).',
  technique='abstract interpretation of accessors specialised to literal class tables'),
 'C20': dict(
  text='frame_parts format/slice/order and its no-raise short-buffer behaviour, the encoder envelope (size = len(payload), length = size + 8), and per frame kind the interval of payload sizes the encoder can emit against the sizes the decoder guards accept.',
  ref='DESIGN.md 5 C20', note=TRUST + 'One known finding (zero-length body refused by the decoder) is listed in known_findings.json.',
  technique='abstract interpretation + struct-format algebra + interval comparison of guards'),
 'C14': dict(
  text='Exhaustive static comparison of every literal of the generated method catalogue '
       '(64 classes x attributes, INDEX_MAPPING, Basic.Properties, effective constructor '
       'defaults, docstring defaults) with an independently transcribed specification '
       'table. The space is finite and enumerated completely, so this decides the property '
       'outright on the current source.',
  ref='DESIGN.md 5 C14',
  note=TRUST + 'The transcribed table is the oracle; defaults are partly pamqp conventions '
       '(documented in DESIGN appendix D).',
  technique='AST extraction + constant folding + abstract interpretation of constructors vs transcribed spec table'),
}
PENDING = 'check not implemented yet (build in progress); see DESIGN.md section 5'
NA = {}

def main():
    props = [json.loads(l) for l in open(os.path.join(HERE, 'properties.jsonl')) if l.strip()]
    checks = []
    na = []
    for p in props:
        pid = p['id']
        c = CLAIMS.get(pid)
        if c is None:
            na.append({'property_id': pid, 'reason': NA.get(pid, PENDING)})
            continue
        checks.append({
            'property_id': pid,
            'quick_cmd': './check %s --tier quick' % pid,
            'thorough_cmd': './check %s --tier thorough' % pid,
            'evidence_file': 'evidence/%s.json' % pid,
            'replay_cmd_template': './check %s --replay {path}' % pid,
            'engine': 'sa',
            'level_claimed': {'category': 'other', 'text': c['text'], 'design_ref': c['ref']},
            'level_note': c['note'],
            'technique': c['technique'],
        })
    m = {
        'version': 1,
        'setup_cmd': '/venv/bin/python -m compileall -q sa && /venv/bin/python -B -m sa.cli --self-check',
        'hooks': {'guard': 'GMR_PAMQP_VERIF',
                  'enable': 'none needed: every check reads the source of /repo/pamqp; no hook code exists in /repo',
                  'baseline_off_cmd': 'cd /repo && /venv/bin/python -m pytest -ra -q -p no:cacheprovider --timeout=900',
                  'source_commits': [], 'add_only': True},
        'engines': [{'name': 'sa', 'path': 'sa/', 'serves_properties': [c['property_id'] for c in checks],
                     'kind_free_text': 'repo-specific static analysis over Python ast: abstract interpreter / partial evaluator with a symbolic term domain, struct-format algebra, interval, may-raise, effect and loop-progress analyses; spec tables in spec/'}],
        'checks': checks,
        'notes': 'Static analysis only: no check imports or executes pamqp. Exit 0 = held, 1 = VIOLATION, 2 = ANALYSIS-ERROR (fail closed). See DESIGN.md.',
        'not_applicable': na,
    }
    json.dump(m, open(os.path.join(HERE, 'MANIFEST.json'), 'w'), indent=1)
    print('claimed', len(checks), 'not claimed', len(na))
main()
