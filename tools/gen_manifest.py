#!/venv/bin/python
"""Regenerates /verif/MANIFEST.json from the table below (kept valid at all
times; properties without an entry are listed under not_applicable)."""
import json, os
HERE = os.path.dirname(os.path.dirname(os.path.abspath(__file__)))
TRUST = ('Trusted base: CPython ast parser; the library models of sa/models.py '
         '(struct, bytes, str, datetime raise/value models); the hand-transcribed '
         'specification tables in /verif/spec. ')
CLAIMS = {
 'C14': dict(
  text='Exhaustive static comparison of every literal of the generated method catalogue '
       '(64 classes x attributes, INDEX_MAPPING, Basic.Properties, effective constructor '
       'defaults, docstring defaults) with an independently transcribed specification '
       'table. The space is finite and enumerated completely, so this decides the property '
       'outright on the current source.',
  ref='DESIGN.md 5 C14',
  note=TRUST + 'The transcribed table is the oracle; defaults are partly pamqp conventions '
       '(documented in DESIGN appendix D).',
  technique='AST extraction + constant folding + abstract interpretation of constructors vs transcribed spec table'),
}
PENDING = 'check not implemented yet (build in progress); see DESIGN.md section 5'
NA = {}

def main():
    props = [json.loads(l) for l in open(os.path.join(HERE, 'properties.jsonl')) if l.strip()]
    checks = []
    na = []
    for p in props:
        pid = p['id']
        c = CLAIMS.get(pid)
        if c is None:
            na.append({'property_id': pid, 'reason': NA.get(pid, PENDING)})
            continue
        checks.append({
            'property_id': pid,
            'quick_cmd': './check %s --tier quick' % pid,
            'thorough_cmd': './check %s --tier thorough' % pid,
            'evidence_file': 'evidence/%s.json' % pid,
            'replay_cmd_template': './check %s --replay {path}' % pid,
            'engine': 'sa',
            'level_claimed': {'category': 'other', 'text': c['text'], 'design_ref': c['ref']},
            'level_note': c['note'],
            'technique': c['technique'],
        })
    m = {
        'version': 1,
        'setup_cmd': '/venv/bin/python -m compileall -q sa && /venv/bin/python -B -m sa.cli --self-check',
        'hooks': {'guard': 'GMR_PAMQP_VERIF',
                  'enable': 'none needed: every check reads the source of /repo/pamqp; no hook code exists in /repo',
                  'baseline_off_cmd': 'cd /repo && /venv/bin/python -m pytest -ra -q -p no:cacheprovider --timeout=900',
                  'source_commits': [], 'add_only': True},
        'engines': [{'name': 'sa', 'path': 'sa/', 'serves_properties': [c['property_id'] for c in checks],
                     'kind_free_text': 'repo-specific static analysis over Python ast: abstract interpreter / partial evaluator with a symbolic term domain, struct-format algebra, interval, may-raise, effect and loop-progress analyses; spec tables in spec/'}],
        'checks': checks,
        'notes': 'Static analysis only: no check imports or executes pamqp. Exit 0 = held, 1 = VIOLATION, 2 = ANALYSIS-ERROR (fail closed). See DESIGN.md.',
        'not_applicable': na,
    }
    json.dump(m, open(os.path.join(HERE, 'MANIFEST.json'), 'w'), indent=1)
    print('claimed', len(checks), 'not claimed', len(na))
main()
