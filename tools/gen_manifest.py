#!/venv/bin/python
"""Regenerates /verif/MANIFEST.json from the table below (kept valid at all
times; properties without an entry are listed under not_applicable)."""
import json, os
HERE = os.path.dirname(os.path.dirname(os.path.abspath(__file__)))
TRUST = ('Trusted base: CPython ast parser; the library models of sa/models.py '
         '(struct, bytes, str, datetime raise/value models); the hand-transcribed '
         'specification tables in /verif/spec. ')
CLAIMS = {

 'C01': dict(
  text='Abstract interpretation of frame.marshal and frame.unmarshal specialised to each of the 64 method classes with symbolic argument values: the written layout and the read sequence (offsets as linear sums of consumed counts, bit positions, envelope, index) must agree, and each primitive encoder/decoder pair must agree in width, byte order, signedness-on-the-accepted-range and consumed count. Decides the structural part of the round trip for all argument values at once; it does not decide the numerical behaviour of struct/UTF-8 themselves.',
  ref='DESIGN.md 5 C01', note=TRUST + 'Table-valued arguments defer to C03.',
  technique='abstract interpretation (partial evaluation over a symbolic term domain) + struct-format algebra, sibling agreement of writer and reader'),
 'C02': dict(
  text='Abstract interpretation of the content-header encoder and decoder with all 14 property values and the body size symbolic: conditional appends are joined (no enumeration of the 2^13 subsets) into a flag or-set plus optional fields; the decoder side yields flag-guarded reads at guarded-sum offsets; compared in slot order together with the presence predicate, the single flag word, the fixed part and fresh defaults.',
  ref='DESIGN.md 5 C02', note=TRUST + 'Assume-guarantee across the wire: the decoder loop is interpreted under the continuation-bit-clear fact that C02.W proves of the encoder.',
  technique='abstract interpretation with joins (or-sets, optional list elements), demanded-bits argument for the flag word'),
 'C04': dict(
  text='The residual byte layout of frame.marshal for all 64 methods, content header, body, heartbeat and protocol header is compared with a reference layout generated from an independently transcribed specification by the AMQP bit-packing rule; each primitive encoder is compared with the reference encoding of its type or field tag.',
  ref='DESIGN.md 5 C04', note=TRUST + 'longlong is signed in the library; agrees with the reference on all values both represent.',
  technique='abstract interpretation of the encoders vs reference layout generated from transcribed spec tables'),
 'C06': dict(
  text='Path rules over every successful return of frame.unmarshal on a symbolic buffer: consumed/channel/kind are the header fields, the end-octet guard is among the path facts, and every use of the buffer is a view bounded by the consumed count (so trailing bytes cannot influence the result).',
  ref='DESIGN.md 5 C06', note=TRUST,
  technique='abstract interpretation with path knowledge (guards, size-checked-read facts), linear reasoning, bounded-view (taint) rule'),
 'C07': dict(
  text='For every successful return of frame.unmarshal the path facts must imply len(buffer) >= consumed; outcomes inside content decoders must lie behind the same guard; the framing stage may raise only UnmarshalingException. Together: a strict prefix never yields a frame.',
  ref='DESIGN.md 5 C07', note=TRUST,
  technique='guard-dominates-return via path knowledge + linear inequality reasoning; may-raise of the framing stage'),
 'C17': dict(
  text='Exhaustive static comparison of CLASS_MAPPING, the exception class hierarchy and the protocol constants with a transcribed table (finite space, enumerated completely).',
  ref='DESIGN.md 5 C17', note=TRUST,
  technique='AST extraction + constant folding + class-hierarchy closure vs transcribed table'),
 'C19': dict(
  text='For each of the 65 classes the six mapping accessors, resolved through the MRO, are specialised by the abstract interpreter with symbolic attribute values and compared with the ordered slot list; constructors must assign every slot on every normal path.',
  ref='DESIGN.md 5 C19', note=TRUST + 'Slot tables are class-level literals nobody writes (C16).',
  technique='abstract interpretation of accessors specialised to literal class tables'),
 'C20': dict(
  text='frame_parts format/slice/order and its no-raise short-buffer behaviour, the encoder envelope (size = len(payload), length = size + 8), and per frame kind the interval of payload sizes the encoder can emit against the sizes the decoder guards accept.',
  ref='DESIGN.md 5 C20', note=TRUST + 'One known finding (zero-length body refused by the decoder) is listed in known_findings.json.',
  technique='abstract interpretation + struct-format algebra + interval comparison of guards'),

 'C03': dict(
  text='Type-dispatch order of the value encoder (no arm shadowed: bool before int), tag<->decoder agreement by Pair for every emitted tag including the Python type returned, the integer ladders as exact integer sets against the decoder formats (sign preserved on all of Z), container framing on both sides, decimal field layout. Structural part only: Decimal/float/calendar arithmetic is trusted library behaviour.',
  ref='DESIGN.md 5 C03', note=TRUST + 'Depth-32 clause: C08 shows recursion well-founded; the interpreter stack limit is a run-time quantity.',
  technique='abstract interpretation of dispatch chain and ladders + interval-set arithmetic + struct-format algebra'),
 'C05': dict(
  text='Tag table (exactly the 19 documented tags with grammar width/signedness/result type), METHODS type table, who-may-call for validate() on the receive path, long-string fallback, reject-path classification of every explicit raise in the content decoders (nothing value-dependent is refused), the timestamp milliseconds rule. Decides that no well-formed form is refused or mis-sized for structural reasons; values assigned by library conversions are not decided.',
  ref='DESIGN.md 5 C05', note=TRUST,
  technique='abstract interpretation of each decoder vs transcribed grammar; call-log who-may-call; control-dependence classification of raise sites'),
 'C08': dict(
  text='Variant argument for every data-dependent loop on the decode side (a cursor advancing >= 1 per continuing iteration and provably below len(buffer) on every continuing path) and size-change argument for every recursive decoder call (strict suffix); exponent bound for the decimal power. Decides termination and the premises of the quadratic bound for all inputs; it is not a measured bound.',
  ref='DESIGN.md 5 C08', note=TRUST + 'Consumed counts of callees come from their residual return terms / inductive (fixpoint) summaries.',
  technique='loop summarisation with havocked variables, min-progress intervals through dispatch tables, linear bound reasoning, size-change for recursion'),
 'C09': dict(
  text='May-raise analysis of frame.unmarshal for the non-method arms and each of the 64 method classes: every primitive failure modelled (struct, UTF-8, dict/index, shifts, fromtimestamp ...), try/except interpreted with the exception hierarchy, recursive decoders by inductive summaries; the escape set must be {UnmarshalingException}.',
  ref='DESIGN.md 5 C09', note=TRUST + 'Assumes bytes input, default decimal context, no warnings-as-errors filter; RecursionError/MemoryError outside the property.',
  technique='interprocedural exception-flow (may-raise) analysis over the abstract interpreter'),
 'C10': dict(
  text='Only the structural necessary conditions of the property are decided: Pair for every encoder/decoder pair, prefix = length of what follows, type guard in front of every emission, bit confinement, no unguarded narrowing of a value-derived operand, empty-table shortcut behind the type guard. Each failing condition has a concrete corrupting value. Behaviour of arbitrary foreign values is NOT decided.',
  ref='DESIGN.md 5 C10', note=TRUST + 'Quantifier "any Python value whatsoever" is out of reach statically; see DESIGN 9.',
  technique='abstract interpretation of primitive encoders (guards, operands, formats) + Pair'),
 'C11': dict(
  text='Every return path of the integer ladder (normal and legacy) is turned into the exact set of integers that take it (interval-set arithmetic over the guard atoms) and compared with the first-fit partition computed from transcribed type ranges; each arm must fit its encoder; refusals are TypeError; who-emits-integer-tags and switch semantics by call-graph / effect rules. Decides the property for all integers.',
  ref='DESIGN.md 5 C11', note=TRUST,
  technique='interval-set analysis of comparison chains; who-may-call; effect analysis of the switch'),
 'C12': dict(
  text='Sorted-iteration rule at every dict iteration site of the encode side; effect analysis of frame.marshal for all classes and every encode function (no store / deletion / mutating call on caller-owned objects); determinism classification of global reads and library calls.',
  ref='DESIGN.md 5 C12', note=TRUST,
  technique='effect / freshness analysis over the abstract interpreter + syntactic iteration-site rule'),
 'C13': dict(
  text='Each validate() is translated from its residual raise conditions into a constraint logic and compared per attribute with the transcribed specification constraints; regex alphabets compared as code-point sets over all of Unicode through re._parser; constructor ordering (validate after all stores) and marshal re-validation by event order and path conditions. Complete for the constraint logic.',
  ref='DESIGN.md 5 C13', note=TRUST + '"never on decode" is decided by C05.V.',
  technique='abstract interpretation of validators + constraint normalisation + regex syntax-tree analysis'),
 'C15': dict(
  text='No time-zone dependent operation is reachable: every call expression of the package is resolved through import aliases and classified; the receiver of .timestamp() is shown aware on all paths (typestate via the abstract interpreter); decoder result built with tz=utc. A positive control file must be flagged on every run.',
  ref='DESIGN.md 5 C15', note=TRUST + 'Classification table of tz-dependent stdlib primitives is part of the trusted base.',
  technique='API-discipline scan with resolved callees + datetime awareness typestate'),
 'C16': dict(
  text='Effect property: inventory of every scope-level mutable object; no function of the package writes shared state (syntactic who-may-write + interpreter effects over all codec entry points); parameter defaults immutable; constructor-stored and decoded objects are created per call (escape/freshness); no caching constructs. Hence no ordering or interleaving can change a result.',
  ref='DESIGN.md 5 C16', note=TRUST + 'Atomicity of a global load/store in CPython is assumed.',
  technique='effect, freshness and escape analysis; who-may-write'),
 'C18': dict(
  text='Body value passes through both directions as the same term / the payload view buffer[7:n-1]; len() is the byte length; branch conditions on the body path mention only header bytes, end octet and len (information flow); heartbeat literal and guard; protocol-header octets field by field.',
  ref='DESIGN.md 5 C18', note=TRUST,
  technique='abstract interpretation + information-flow (bounded view) rule'),
 'C14': dict(
  text='Exhaustive static comparison of every literal of the generated method catalogue '
       '(64 classes x attributes, INDEX_MAPPING, Basic.Properties, effective constructor '
       'defaults, docstring defaults) with an independently transcribed specification '
       'table. The space is finite and enumerated completely, so this decides the property '
       'outright on the current source.',
  ref='DESIGN.md 5 C14',
  note=TRUST + 'The transcribed table is the oracle; defaults are partly pamqp conventions '
       '(documented in DESIGN appendix D).',
  technique='AST extraction + constant folding + abstract interpretation of constructors vs transcribed spec table'),
}
PENDING = 'check not implemented yet (build in progress); see DESIGN.md section 5'
NA = {}

def main():
    props = [json.loads(l) for l in open(os.path.join(HERE, 'properties.jsonl')) if l.strip()]
    checks = []
    na = []
    for p in props:
        pid = p['id']
        c = CLAIMS.get(pid)
        if c is None:
            na.append({'property_id': pid, 'reason': NA.get(pid, PENDING)})
            continue
        checks.append({
            'property_id': pid,
            'quick_cmd': './check %s --tier quick' % pid,
            'thorough_cmd': './check %s --tier thorough' % pid,
            'evidence_file': 'evidence/%s.json' % pid,
            'replay_cmd_template': './check %s --replay {path}' % pid,
            'engine': 'sa',
            'level_claimed': {'category': 'other', 'text': c['text'], 'design_ref': c['ref']},
            'level_note': c['note'],
            'technique': c['technique'],
        })
    m = {
        'version': 1,
        'setup_cmd': '/venv/bin/python -m compileall -q sa && /venv/bin/python -B -m sa.cli --self-check',
        'hooks': {'guard': 'GMR_PAMQP_VERIF',
                  'enable': 'none needed: every check reads the source of /repo/pamqp; no hook code exists in /repo',
                  'baseline_off_cmd': 'cd /repo && /venv/bin/python -m pytest -ra -q -p no:cacheprovider --timeout=900',
                  'source_commits': [], 'add_only': True},
        'engines': [{'name': 'sa', 'path': 'sa/', 'serves_properties': [c['property_id'] for c in checks],
                     'kind_free_text': 'repo-specific static analysis over Python ast: abstract interpreter / partial evaluator with a symbolic term domain, struct-format algebra, interval, may-raise, effect and loop-progress analyses; spec tables in spec/'}],
        'checks': checks,
        'notes': 'Static analysis only: no check imports or executes pamqp. Exit 0 = held, 1 = VIOLATION, 2 = ANALYSIS-ERROR (fail closed). When the package contains assert statements every check also analyses the program as python -O runs it (asserts removed); C07 and C09 also as python -bb runs it (str() of bytes raises); differences are reported tagged with the reading. Each check also covers the clauses added while building (DESIGN.md section 5 "Added while building", Appendix G). See DESIGN.md.',
        'not_applicable': na,
    }
    json.dump(m, open(os.path.join(HERE, 'MANIFEST.json'), 'w'), indent=1)
    print('claimed', len(checks), 'not claimed', len(na))
main()
