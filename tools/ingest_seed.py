#!/venv/bin/python
"""tools/ingest_seed.py <PROP> <k>: confirm a sub-agent's change
($SEED_SRC/<PROP>/<k>/, default /tmp/w2/out) in a scratch worktree of /repo
and store it as /verif/seeded/<PROP>-$SEED_TAG<k>/ (default tag "r2-") with
meta.json describing what was run."""
import json, os, shutil, subprocess, sys, tempfile
prop, k = sys.argv[1], sys.argv[2]
src = '%s/%s/%s' % (os.environ.get('SEED_SRC', '/tmp/w2/out'), prop, k)
patch, demo, notes = (os.path.join(src, n) for n in ('patch.diff', 'demo.py', 'notes.md'))
for p in (patch, demo):
    if not os.path.exists(p):
        print('missing', p); sys.exit(2)
wt = tempfile.mkdtemp(prefix='seedwt-')
os.rmdir(wt)
def run(cmd, **kw):
    return subprocess.run(cmd, capture_output=True, text=True, **kw)
meta = {'property': prop, 'source': 'independent sub-agent given only the property text and a scratch worktree'}
try:
    r = run(['git', '-C', '/repo', 'worktree', 'add', '-q', '--detach', wt, 'HEAD'])
    assert r.returncode == 0, r.stderr
    env = dict(os.environ, PYTHONPATH=wt)
    r = run(['/venv/bin/python', demo], env=env, cwd=wt, timeout=300)
    meta['demo_on_clean_tree'] = 'exit %d' % r.returncode
    r = run(['git', '-C', wt, 'apply', patch])
    meta['patch_applies'] = r.returncode == 0
    if r.returncode != 0:
        print('patch does not apply', r.stderr); sys.exit(3)
    r = run(['/venv/bin/python', '-m', 'pytest', '-q', '-p', 'no:cacheprovider'], env=env, cwd=wt, timeout=900)
    tail = (r.stdout.strip().splitlines() or [''])[-1]
    meta['tests_with_change'] = tail
    r = run(['/venv/bin/python', demo], env=env, cwd=wt, timeout=300)
    meta['demo_with_change'] = 'exit %d: %s' % (r.returncode, (r.stdout + r.stderr).strip().splitlines()[-1][:200] if (r.stdout + r.stderr).strip() else '')
    det = {}
    evd = tempfile.mkdtemp(prefix='seedev-')
    for i in range(1, 21):
        pid = 'C%02d' % i
        c = run(['/verif/check', pid, '--repo', wt], env=dict(os.environ, VERIF_EVIDENCE_DIR=evd), timeout=600)
        first = ''
        lines = c.stdout.splitlines()
        for j, line in enumerate(lines):
            if line.startswith('  construct'):
                first = line.strip()
                for l2 in lines[j:j + 4]:
                    if l2.startswith('  fact'):
                        first += ' | ' + l2.strip()[:200]
                break
            if line.startswith('ANALYSIS-ERROR'):
                first = line[:200]; break
        if c.returncode != 0:
            det[pid] = {'exit': c.returncode, 'report': first}
    shutil.rmtree(evd, ignore_errors=True)
    meta['checks_alarmed'] = det
    meta['detected_by'] = sorted(p for p, d in det.items() if d['exit'] == 1)
    meta['detected_by_own_property'] = prop in meta['detected_by']
finally:
    run(['git', '-C', '/repo', 'worktree', 'remove', '--force', wt])
    shutil.rmtree(wt, ignore_errors=True)
if os.path.exists(notes):
    meta['needs_to_manifest'] = open(notes).read().strip()[:1500]
meta['what_was_run'] = ('scratch worktree of /repo HEAD; demo on clean tree; git apply patch.diff; '
                        'full test-suite with the change; demo with the change; ./check C01..C20 --repo <worktree>')
ok = meta['demo_on_clean_tree'] == 'exit 0' and '846 passed' in meta['tests_with_change'] and not meta['demo_with_change'].startswith('exit 0')
meta['confirmed'] = ok
dst = '/verif/seeded/%s-%s%s' % (prop, os.environ.get('SEED_TAG', 'r2-'), k)
if ok:
    os.makedirs(dst, exist_ok=True)
    shutil.copy(patch, dst); shutil.copy(demo, dst)
    if os.path.exists(notes): shutil.copy(notes, dst)
    json.dump(meta, open(os.path.join(dst, 'meta.json'), 'w'), indent=1)
print(json.dumps({k_: meta[k_] for k_ in ('confirmed', 'demo_on_clean_tree', 'tests_with_change', 'demo_with_change', 'detected_by')}))
for p, d in meta.get('checks_alarmed', {}).items():
    print('  ', p, d['exit'], d['report'][:220])
