#!/venv/bin/python
"""tools/make_refactor_round.py <root>: prepare a batch of refactoring
agents - one scratch worktree of /repo HEAD per source area under
<root>/<area>, <root>/out/<area>/prompt.txt from
tools/prompts/refactor_template.txt, the titles of the earlier refactorings
of that area, and the extra text in the file named by env EXTRA_FILE."""
import os
import subprocess
import sys

HERE = os.path.dirname(os.path.abspath(__file__))
VERIF = os.path.dirname(HERE)
root = sys.argv[1]
AREAS = {
    'frame': 'pamqp/frame.py',
    'base': 'pamqp/base.py',
    'encode': 'pamqp/encode.py',
    'decode': 'pamqp/decode.py',
    'header': 'pamqp/header.py, pamqp/body.py, pamqp/heartbeat.py and '
              'pamqp/common.py',
    'commands': 'pamqp/commands.py, pamqp/constants.py and '
                'pamqp/exceptions.py',
}
tmpl = open(os.path.join(HERE, 'prompts', 'refactor_template.txt')).read()
extra = open(os.environ['EXTRA_FILE']).read() if os.environ.get(
    'EXTRA_FILE') else ''
os.makedirs(os.path.join(root, 'out'), exist_ok=True)
for m, files in AREAS.items():
    wt = os.path.join(root, m)
    out = os.path.join(root, 'out', m)
    os.makedirs(out, exist_ok=True)
    if not os.path.isdir(wt):
        subprocess.run(['git', '-C', '/repo', 'worktree', 'add', '-f',
                        '--detach', wt, 'HEAD'], check=True,
                       capture_output=True)
    prior = []
    sd = os.path.join(VERIF, 'seeded')
    for d in sorted(os.listdir(sd)):
        if d.startswith('eq-%s-' % m):
            try:
                lines = [l.strip() for l in open(os.path.join(
                    sd, d, 'notes.md')) if l.strip()]
                prior.append('  - ' + lines[0].lstrip('# ')[:140])
            except (OSError, IndexError):
                pass
    ex = extra + ('\nEARLIER REFACTORINGS of this area (do not repeat them; '
                  'find other kinds):\n' + '\n'.join(prior) + '\n')
    s = tmpl.replace('@ROOT@', root).replace('@M@', m).replace(
        '@FILES@', files).replace('@EXTRA@', ex)
    open(os.path.join(out, 'prompt.txt'), 'w').write(s)
print('prepared', len(AREAS), 'worktrees under', root)
