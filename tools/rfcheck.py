#!/venv/bin/python
"""tools/rfcheck.py <patch> <check ids...>: run checks on a scratch copy of /repo/pamqp with a patch applied."""
import os, shutil, subprocess, sys, tempfile
patch, ids = sys.argv[1], sys.argv[2:]
tmp = tempfile.mkdtemp(prefix='rfchk-')
try:
    shutil.copytree('/repo/pamqp', os.path.join(tmp, 'pamqp'))
    r = subprocess.run(['patch', '-p1', '-s', '-i', patch], cwd=tmp, capture_output=True, text=True)
    if r.returncode: print('patch failed', r.stdout, r.stderr); sys.exit(3)
    env = dict(os.environ, VERIF_EVIDENCE_DIR=os.path.join(tmp, 'ev'))
    for i in ids:
        c = subprocess.run(['/verif/check', i, '--repo', tmp], capture_output=True, text=True, env=env)
        lines = [l for l in c.stdout.splitlines() if l.startswith(('  construct', '  fact', 'ANALYSIS', i, 'Trace', '  File', 'Attr', 'Type', 'Key'))]
        print('\n'.join(l[:300] for l in lines[:int(os.environ.get('N', '7'))]))
        print('exit', c.returncode)
finally:
    shutil.rmtree(tmp)
