#!/venv/bin/python
"""tools/refresh_seeds.py [name-prefix]: re-run all 20 checks against every
seeded fault (/verif/seeded/Cxx-*) on a scratch copy and rewrite the
detection record of its meta.json (detected_by, checks_alarmed)."""
import concurrent.futures
import json
import os
import shutil
import subprocess
import sys
import tempfile

sys.path.insert(0, os.path.join(os.path.dirname(os.path.abspath(__file__)),
                                '..', 'selftest'))
import run as R  # noqa: E402

ALL = ['C%02d' % i for i in range(1, 21)]
prefix = sys.argv[1] if len(sys.argv) > 1 else ''
root = os.path.join(R.VERIF, 'seeded')
dirs = [d for d in sorted(os.listdir(root)) if not d.startswith('eq-') and
        d.startswith(prefix) and os.path.exists(os.path.join(root, d,
                                                             'patch.diff'))]


def one(d):
    entry = {'id': d, 'patch': os.path.join(root, d, 'patch.diff')}
    tmp, err = R.apply_variant(entry, '/repo')
    if tmp is None:
        return d, None, err
    res = {}
    try:
        env = dict(os.environ, VERIF_EVIDENCE_DIR=os.path.join(tmp, 'ev'))
        for p in ALL:
            c = subprocess.run([os.path.join(R.VERIF, 'check'), p, '--repo',
                                tmp], capture_output=True, text=True,
                               env=env, timeout=900)
            if c.returncode != 0:
                first = ''
                lines = c.stdout.splitlines()
                for j, line in enumerate(lines):
                    if line.startswith('  construct'):
                        first = line.strip() + ' | ' + ' '.join(
                            x.strip() for x in lines[j + 1:j + 4]
                            if x.startswith('  fact'))[:260]
                        break
                    if line.startswith('ANALYSIS-ERROR'):
                        first = line[:300]
                        break
                res[p] = {'exit': c.returncode, 'report': first}
    finally:
        shutil.rmtree(tmp, ignore_errors=True)
    return d, res, None


with concurrent.futures.ThreadPoolExecutor(16) as ex:
    for d, res, err in ex.map(one, dirs):
        if res is None:
            print(d, 'ERROR', err)
            continue
        mp = os.path.join(root, d, 'meta.json')
        m = json.load(open(mp))
        old = m.get('detected_by')
        m['checks_alarmed'] = res
        m['detected_by'] = sorted(p for p, r in res.items()
                                  if r['exit'] == 1)
        m['undecided_by'] = sorted(p for p, r in res.items()
                                   if r['exit'] == 2)
        json.dump(m, open(mp, 'w'), indent=1)
        own = m['property'] in m['detected_by']
        print(d, 'OWN' if own else 'other-only' if m['detected_by'] else
              'MISSED', m['detected_by'],
              ('undecided: %s' % m['undecided_by']) if m['undecided_by']
              else '', '' if old == m['detected_by'] else '(was %s)' % old)
