#!/venv/bin/python
"""tools/make_round.py <root> <n-per-agent>: prepare a seeding round - one
scratch worktree of /repo HEAD per property under <root>/<Cxx>, an output
directory <root>/out/<Cxx> with property.txt and prompt.txt (the template of
tools/prompts/seed_template.txt plus the titles of all earlier changes of
that property and the theme read from the file named by env THEME_FILE)."""
import json
import os
import subprocess
import sys

HERE = os.path.dirname(os.path.abspath(__file__))
VERIF = os.path.dirname(HERE)
root, n = sys.argv[1], int(sys.argv[2])
tmpl = open(os.path.join(HERE, 'prompts', 'seed_template.txt')).read()
theme = open(os.environ['THEME_FILE']).read() if os.environ.get(
    'THEME_FILE') else ''
words = {2: ('TWO', 'two', '1, 2'), 3: ('THREE', 'three', '1, 2, 3')}[n]
props = [json.loads(l) for l in open(os.path.join(VERIF, 'properties.jsonl'))]
os.makedirs(os.path.join(root, 'out'), exist_ok=True)
for p in props:
    pid = p['id']
    wt = os.path.join(root, pid)
    out = os.path.join(root, 'out', pid)
    os.makedirs(out, exist_ok=True)
    if not os.path.isdir(wt):
        subprocess.run(['git', '-C', '/repo', 'worktree', 'add', '-f',
                        '--detach', wt, 'HEAD'], check=True,
                       capture_output=True)
    text = json.dumps({k: p[k] for k in ('id', 'title', 'statement',
                                         'quantifier', 'why_tests_cant',
                                         'anchors')}, indent=1)
    open(os.path.join(out, 'property.txt'), 'w').write(text)
    prior = []
    sd = os.path.join(VERIF, 'seeded')
    for d in sorted(os.listdir(sd)):
        if d.startswith(pid + '-'):
            try:
                t = open(os.path.join(sd, d, 'notes.md')).readline()
                prior.append('  - ' + t.strip().lstrip('# ')[:150])
            except OSError:
                pass
    s = tmpl.replace('/tmp/wt/out/@ID@', out).replace('/tmp/wt/@ID@', wt)
    s = s.replace('@ID@', pid).replace('@PROPERTY@', text)
    s = s.replace('THREE', words[0]).replace('the three changes', 'the %s '
                                             'changes' % words[1])
    s = s.replace('k = 1, 2, 3', 'k = ' + words[2]).replace(
        'find three', 'find ' + words[1])
    s += ('\n\nEARLIER CHANGES already written against this property (do '
          'NOT repeat these or close variants of them - find different '
          'mechanisms, different functions, different modules):\n' +
          '\n'.join(prior) + '\n')
    if theme:
        s += '\n' + theme + '\n'
    open(os.path.join(out, 'prompt.txt'), 'w').write(s)
print('prepared', len(props), 'worktrees under', root)
