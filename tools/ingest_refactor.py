#!/venv/bin/python
"""tools/ingest_refactor.py <module> <k>: confirm a behaviour-preserving refactoring produced by a sub-agent
(/tmp/rf/out/<module>/<k>/patch.diff): applies in a scratch worktree, 846 tests pass; then run all 20 checks
against it.  Kept as /verif/seeded/eq-<module>-<k>/ (patch.diff, notes.md, meta.json)."""
import json, os, shutil, subprocess, sys, tempfile
mod, k = sys.argv[1], sys.argv[2]
src = '%s/%s/%s' % (os.environ.get('RF_SRC', '/tmp/rf/out'), mod, k)
patch = os.path.join(src, 'patch.diff'); notes = os.path.join(src, 'notes.md')
wt = tempfile.mkdtemp(prefix='rfwt-'); os.rmdir(wt)
def run(cmd, **kw): return subprocess.run(cmd, capture_output=True, text=True, **kw)
meta = {'kind': 'behaviour-preserving refactoring', 'source': 'independent sub-agent (differentially tested against the original by its author)'}
try:
    assert run(['git', '-C', '/repo', 'worktree', 'add', '-q', '--detach', wt, 'HEAD']).returncode == 0
    r = run(['git', '-C', wt, 'apply', patch])
    if r.returncode: print('patch does not apply', r.stderr); sys.exit(3)
    r = run(['/venv/bin/python', '-m', 'pytest', '-q', '-p', 'no:cacheprovider'], env=dict(os.environ, PYTHONPATH=wt), cwd=wt, timeout=900)
    meta['tests_with_change'] = (r.stdout.strip().splitlines() or [''])[-1]
    res = {}
    evd = tempfile.mkdtemp(prefix='rfev-')
    for i in range(1, 21):
        pid = 'C%02d' % i
        c = run(['/verif/check', pid, '--repo', wt], env=dict(os.environ, VERIF_EVIDENCE_DIR=evd), timeout=900)
        if c.returncode != 0:
            first = ''
            lines = c.stdout.splitlines()
            for j, line in enumerate(lines):
                if line.startswith('  construct'):
                    first = line.strip() + ' | ' + ' '.join(l.strip() for l in lines[j+1:j+4] if l.startswith('  fact'))[:260]; break
                if line.startswith('ANALYSIS-ERROR'):
                    first = line[:300]; break
            res[pid] = {'exit': c.returncode, 'report': first}
    shutil.rmtree(evd, ignore_errors=True)
    meta['checks_alarmed'] = res
finally:
    run(['git', '-C', '/repo', 'worktree', 'remove', '--force', wt]); shutil.rmtree(wt, ignore_errors=True)
ok = '846 passed' in meta.get('tests_with_change', '')
meta['confirmed'] = ok
if os.path.exists(notes): meta['what'] = open(notes).read().strip()[:1200]
if ok:
    dst = '/verif/seeded/eq-%s-%s%s' % (mod, os.environ.get('RF_TAG', ''), k)
    os.makedirs(dst, exist_ok=True); shutil.copy(patch, dst)
    if os.path.exists(notes): shutil.copy(notes, dst)
    json.dump(meta, open(os.path.join(dst, 'meta.json'), 'w'), indent=1)
print(mod, k, meta['tests_with_change'], 'ALARMS:' if res else 'silent', ' '.join('%s(%d)' % (p, d['exit']) for p, d in res.items()))
for p, d in res.items(): print('    ', p, d['report'][:300])
