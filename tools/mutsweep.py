#!/venv/bin/python
"""tools/mutsweep.py [--modules a,b] [--jobs N] [--out FILE] [--limit N]

Systematic first-order mutation sweep used to look for blind spots of the
checkers (not part of any check).  For every mutant of the chosen modules of
/repo/pamqp:

  1. the mutant is written to a scratch copy (pamqp/ + tests/) under a fresh
     temporary directory outside /repo and /verif;
  2. the repository's test-suite is run against the copy; a mutant the tests
     kill is of no interest (the brief is about changes the tests let pass);
  3. all twenty checks are run on the copy (--repo); the exit codes are
     recorded.

Survivors of both (tests pass, every check exits 0) are written to --out for
manual triage: each is either behaviour-preserving for all 20 properties or
a miss.  The scratch copy is removed as soon as the mutant is done.
"""
import argparse
import ast
import concurrent.futures
import copy
import json
import os
import shutil
import subprocess
import sys
import tempfile

VERIF = os.path.dirname(os.path.dirname(os.path.abspath(__file__)))
ALL = ['C%02d' % i for i in range(1, 21)]
CMP = {ast.Lt: ast.LtE, ast.LtE: ast.Lt, ast.Gt: ast.GtE, ast.GtE: ast.Gt,
       ast.Eq: ast.NotEq, ast.NotEq: ast.Eq, ast.Is: ast.IsNot,
       ast.IsNot: ast.Is, ast.In: ast.NotIn, ast.NotIn: ast.In}
BIN = {ast.Add: ast.Sub, ast.Sub: ast.Add, ast.LShift: ast.RShift,
       ast.RShift: ast.LShift, ast.BitOr: ast.BitAnd, ast.BitAnd: ast.BitOr,
       ast.Mult: ast.FloorDiv, ast.FloorDiv: ast.Mult, ast.Mod: ast.FloorDiv}
FMT_SWAP = {'B': 'b', 'b': 'B', 'H': 'h', 'h': 'H', 'I': 'i', 'i': 'I',
            'L': 'l', 'l': 'L', 'Q': 'q', 'q': 'Q', 'f': 'd', 'd': 'f',
            '>': '<'}


def looks_like_format(s):
    import struct
    if not s or len(s) > 8:
        return False
    try:
        struct.calcsize(s)
    except struct.error:
        return False
    return any(ch.isalpha() for ch in s)


def mutants_of(tree):
    """Yield (description, mutated tree)."""
    nodes = list(ast.walk(tree))
    for idx, n in enumerate(nodes):
        line = getattr(n, 'lineno', 0)

        def variant(fn, what):
            t2 = copy.deepcopy(tree)
            n2 = list(ast.walk(t2))[idx]
            fn(n2)
            return ('%d: %s' % (line, what), t2)
        if isinstance(n, ast.Compare):
            for i, op in enumerate(n.ops):
                new = CMP.get(type(op))
                if new is not None:
                    yield variant(
                        lambda m, i=i, new=new: m.ops.__setitem__(i, new()),
                        'cmp %s -> %s in `%s`' % (type(op).__name__,
                                                  new.__name__,
                                                  ast.unparse(n)[:60]))
        elif isinstance(n, ast.BinOp) and type(n.op) in BIN:
            new = BIN[type(n.op)]
            if isinstance(n.op, ast.Mod) and isinstance(
                    n.left, ast.Constant) and isinstance(n.left.value, str):
                continue
            yield variant(lambda m, new=new: setattr(m, 'op', new()),
                          'binop %s -> %s in `%s`' % (
                              type(n.op).__name__, new.__name__,
                              ast.unparse(n)[:60]))
        elif isinstance(n, ast.AugAssign) and type(n.op) in BIN:
            new = BIN[type(n.op)]
            yield variant(lambda m, new=new: setattr(m, 'op', new()),
                          'augop %s -> %s in `%s`' % (
                              type(n.op).__name__, new.__name__,
                              ast.unparse(n)[:60]))
        elif isinstance(n, ast.BoolOp):
            new = ast.Or if isinstance(n.op, ast.And) else ast.And
            yield variant(lambda m, new=new: setattr(m, 'op', new()),
                          'boolop -> %s in `%s`' % (new.__name__,
                                                    ast.unparse(n)[:60]))
        elif isinstance(n, ast.UnaryOp) and isinstance(n.op, ast.Not):
            def drop(m):
                m.op = ast.UAdd()
                m.operand = ast.Call(ast.Name('bool', ast.Load()),
                                     [m.operand], [])
            yield variant(drop, 'drop not in `%s`' % ast.unparse(n)[:60])
        elif isinstance(n, ast.Constant):
            v = n.value
            if isinstance(v, bool):
                yield variant(lambda m: setattr(m, 'value', not m.value),
                              'bool %r -> %r' % (v, not v))
            elif isinstance(v, int):
                for d in (1, -1):
                    yield variant(
                        lambda m, d=d: setattr(m, 'value', m.value + d),
                        'int %r -> %r' % (v, v + d))
            elif isinstance(v, str) and looks_like_format(v):
                for i, ch in enumerate(v):
                    if ch in FMT_SWAP:
                        nv = v[:i] + FMT_SWAP[ch] + v[i + 1:]
                        yield variant(
                            lambda m, nv=nv: setattr(m, 'value', nv),
                            'format %r -> %r' % (v, nv))
            elif isinstance(v, bytes) and len(v) == 1:
                nv = bytes([(v[0] + 1) % 256])
                yield variant(lambda m, nv=nv: setattr(m, 'value', nv),
                              'bytes %r -> %r' % (v, nv))
        elif isinstance(n, ast.Raise) and n.exc is not None:
            def to_pass(m):
                m.__class__ = ast.Pass
                for f in ('exc', 'cause'):
                    if hasattr(m, f):
                        delattr(m, f)
            yield variant(to_pass, 'raise removed: `%s`' %
                          ast.unparse(n)[:60])
        elif isinstance(n, ast.If):
            yield variant(
                lambda m: setattr(m, 'test', ast.Constant(False)),
                'if False: `%s`' % ast.unparse(n.test)[:60])
        elif isinstance(n, ast.Return) and n.value is not None and \
                isinstance(n.value, ast.Tuple) and len(n.value.elts) == 2:
            def swap(m):
                m.value.elts = [m.value.elts[0], ast.Constant(None)]
            # (consumed, None) instead of (consumed, value)
            yield variant(swap, 'return value dropped: `%s`' %
                          ast.unparse(n)[:60])
        elif isinstance(n, ast.Slice):
            if n.lower is not None and n.upper is not None:
                yield variant(lambda m: setattr(m, 'upper', None),
                              'slice upper bound dropped')
        elif isinstance(n, ast.Continue):
            yield variant(lambda m: setattr(m, '__class__', ast.Pass),
                          'continue removed')
        elif isinstance(n, ast.Break):
            yield variant(lambda m: setattr(m, '__class__', ast.Pass),
                          'break removed')


def run_one(job):
    mod, desc, source = job
    tmp = tempfile.mkdtemp(prefix='pamqp-mutsweep-')
    res = {'module': mod, 'mutant': desc}
    try:
        shutil.copytree('/repo/pamqp', os.path.join(tmp, 'pamqp'))
        shutil.copytree('/repo/tests', os.path.join(tmp, 'tests'))
        open(os.path.join(tmp, 'pamqp', mod + '.py'), 'w').write(source)
        env = dict(os.environ, PYTHONPATH=tmp, PYTHONDONTWRITEBYTECODE='1')
        try:
            t = subprocess.run(['/venv/bin/python', '-m', 'pytest', '-q', '-x',
                                '-p', 'no:cacheprovider', 'tests'],
                               cwd=tmp, env=env, capture_output=True,
                               text=True, timeout=120)
            res['tests'] = 'pass' if t.returncode == 0 else 'killed'
        except subprocess.TimeoutExpired:
            res['tests'] = 'killed'
        if res['tests'] != 'pass':
            return res
        env2 = dict(os.environ, VERIF_EVIDENCE_DIR=os.path.join(tmp, 'ev'))
        exits = {}
        for p in ALL:
            try:
                c = subprocess.run([os.path.join(VERIF, 'check'), p,
                                    '--repo', tmp], capture_output=True,
                                   text=True, env=env2, timeout=600)
                exits[p] = c.returncode
            except subprocess.TimeoutExpired:
                exits[p] = 2
        res['alarms'] = sorted(p for p, e in exits.items() if e == 1)
        res['undecided'] = sorted(p for p, e in exits.items() if e == 2)
    finally:
        shutil.rmtree(tmp, ignore_errors=True)
    return res


def main():
    ap = argparse.ArgumentParser()
    ap.add_argument('--modules', default='base,body,common,decode,encode,'
                    'frame,header,heartbeat,exceptions,constants')
    ap.add_argument('--jobs', type=int, default=12)
    ap.add_argument('--out', default='/tmp/mutsweep.json')
    ap.add_argument('--limit', type=int, default=0)
    ap.add_argument('--sample', type=int, default=0,
                    help='random sample of N mutants (seed 1)')
    a = ap.parse_args()
    jobs = []
    for mod in a.modules.split(','):
        src = open('/repo/pamqp/%s.py' % mod).read()
        tree = ast.parse(src)
        seen = set()
        for desc, t2 in mutants_of(tree):
            try:
                s2 = ast.unparse(t2)
                compile(s2, mod, 'exec')
            except Exception:
                continue
            if s2 in seen:
                continue
            seen.add(s2)
            jobs.append((mod, desc, s2))
    if a.limit:
        jobs = jobs[:a.limit]
    if a.sample and a.sample < len(jobs):
        import random
        jobs = random.Random(1).sample(jobs, a.sample)
    print('%d mutants' % len(jobs), flush=True)
    results = []
    with concurrent.futures.ThreadPoolExecutor(a.jobs) as ex:
        for i, r in enumerate(ex.map(run_one, jobs)):
            results.append(r)
            if (i + 1) % 50 == 0:
                print(i + 1, flush=True)
                json.dump(results, open(a.out, 'w'), indent=1)
    json.dump(results, open(a.out, 'w'), indent=1)
    killed = sum(r['tests'] == 'killed' for r in results)
    live = [r for r in results if r['tests'] == 'pass']
    caught = [r for r in live if r.get('alarms')]
    und = [r for r in live if not r.get('alarms') and r.get('undecided')]
    surv = [r for r in live if not r.get('alarms') and
            not r.get('undecided')]
    print('mutants %d, killed by tests %d, pass tests %d: reported by a '
          'check %d, undecided only %d, silent %d' % (
              len(results), killed, len(live), len(caught), len(und),
              len(surv)))
    for r in surv:
        print('  SILENT %s %s' % (r['module'], r['mutant']))
    for r in und:
        print('  UNDECIDED %s %s %s' % (r['module'], r['mutant'],
                                        r['undecided']))


if __name__ == '__main__':
    main()
