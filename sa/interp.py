"""Abstract interpreter / partial evaluator over the repo's syntax trees
(DESIGN.md 3.5).

It interprets function bodies over abstract values: compile-time constants
are computed, run-time values are symbolic terms (``terms.Sym``), mutable
objects live in a persistent abstract store.  A branch whose condition is
decided by constants or by the facts of the current path is taken statically;
a branch on a run-time condition is analysed on **both** arms and the arms are
joined (``cond`` terms, optional list elements).  Loops over compile-time
sequences are unrolled, loops whose trip count depends on data are summarised
by one abstract iteration over havocked variables.  Calls to repo functions
are inlined (or summarised when the policy says so), recursion is cut at the
cycle.  Library primitives have transfer functions in ``models.py``.

Nothing of the analysed program is ever executed: the interpreter walks AST
nodes.  Paths are not enumerated and no solver is used.
"""
import ast
import itertools

from . import terms as T
from .model import (AnalysisError, ClassInfo, FuncInfo, ModuleInfo, Program,
                    Binding)
from .terms import Sym, Ref, Knowledge


class Unsupported(AnalysisError):
    """A construct the interpreter has no transfer function for."""


# ---------------------------------------------------------------------------
# values


class Ext:
    """Reference to something outside the package (stdlib object)."""
    __slots__ = ('path',)

    def __init__(self, path):
        self.path = path

    def __eq__(self, other):
        return isinstance(other, Ext) and other.path == self.path

    def __hash__(self):
        return hash(('ext', self.path))

    def __repr__(self):
        return '<ext %s>' % self.path

    @property
    def qualname(self):
        return self.path


class StructV:
    """A struct.Struct instance with a literal format (immutable)."""
    __slots__ = ('fmt',)

    def __init__(self, fmt):
        self.fmt = fmt

    def __eq__(self, other):
        return isinstance(other, StructV) and other.fmt == self.fmt

    def __hash__(self):
        return hash(('structv', self.fmt))

    def __repr__(self):
        return 'Struct(%r)' % (self.fmt,)


class RegexV:
    __slots__ = ('pattern', 'flags')

    def __init__(self, pattern, flags):
        self.pattern = pattern
        self.flags = flags

    def __eq__(self, other):
        return isinstance(other, RegexV) and (other.pattern, other.flags) == \
            (self.pattern, self.flags)

    def __hash__(self):
        return hash(('regexv', self.pattern, self.flags))

    def __repr__(self):
        return 'Regex(%r)' % (self.pattern,)


class Bound:
    """Bound method: function + receiver (instance Ref, ClassInfo, or a
    symbolic receiver for library methods)."""
    __slots__ = ('func', 'recv')

    def __init__(self, func, recv):
        self.func = func
        self.recv = recv

    def __eq__(self, other):
        return isinstance(other, Bound) and other.func == self.func and \
            other.recv == self.recv

    def __hash__(self):
        return hash(('bound', self.func, self.recv))

    def __repr__(self):
        return '<bound %r of %r>' % (self.func, self.recv)


class LibMethod:
    """Method of a library value (const, Sym, StructV ...)."""
    __slots__ = ('recv', 'name')

    def __init__(self, recv, name):
        self.recv = recv
        self.name = name

    def __eq__(self, other):
        return isinstance(other, LibMethod) and other.name == self.name and \
            T._same(other.recv, self.recv) if not isinstance(
                self.recv, (StructV, RegexV, Ext, Ref)) else \
            isinstance(other, LibMethod) and other.name == self.name and \
            other.recv == self.recv

    def __hash__(self):
        return hash(('libm', self.name))

    def __repr__(self):
        return '<method %s of %r>' % (self.name, self.recv)


class FuncV:
    """A callable built by the standard library from other values:
    functools.partial(f, *a, **k), operator.attrgetter / itemgetter /
    methodcaller objects, operator functions."""
    __slots__ = ('kind', 'data')

    def __init__(self, kind, data):
        self.kind = kind
        self.data = data

    def __eq__(self, other):
        return isinstance(other, FuncV) and other.kind == self.kind and \
            repr(other.data) == repr(self.data)

    def __hash__(self):
        return hash(('funcv', self.kind))

    def __repr__(self):
        return '<%s %r>' % (self.kind, self.data)


class Closure:
    __slots__ = ('func', 'env')

    def __init__(self, func, env):
        self.func = func
        self.env = env

    @property
    def qualname(self):
        return self.func.qualname


ABSENT = Sym('absent')


# heap objects (immutable; replaced on write) --------------------------------

class ListObj:
    kind = 'list'
    __slots__ = ('items', 'more', 'shared', 'origin', 'source', 'gen')

    def __init__(self, items=(), more=False, shared=False, origin=None,
                 source=None, gen=False):
        self.items = tuple(items)
        self.more = more  # unknown further elements (summarised loop)
        self.shared = shared
        self.origin = origin
        self.source = source  # term this list was built from (list(x))
        # a generator object (generator expression / generator function
        # result): reading its elements exhausts it
        self.gen = gen

    def same(self, o):
        return isinstance(o, ListObj) and self.more == o.more and \
            self.source is o.source and \
            len(self.items) == len(o.items) and \
            all(same_value(a, b) for a, b in zip(self.items, o.items))


class DictObj:
    kind = 'dict'
    __slots__ = ('items', 'more', 'shared', 'origin')

    def __init__(self, items=(), more=False, shared=False, origin=None):
        self.items = tuple(items)  # ((key, value), ...)
        self.more = more
        self.shared = shared
        self.origin = origin

    def get(self, k):
        for kk, v in self.items:
            if same_value(kk, k):
                return v
        return ABSENT

    def set(self, k, v):
        out = []
        done = False
        for kk, vv in self.items:
            if same_value(kk, k):
                out.append((kk, v))
                done = True
            else:
                out.append((kk, vv))
        if not done:
            out.append((k, v))
        return DictObj(out, self.more, self.shared, self.origin)

    def same(self, o):
        return isinstance(o, DictObj) and self.more == o.more and \
            len(self.items) == len(o.items) and \
            all(same_value(a[0], b[0]) and same_value(a[1], b[1])
                for a, b in zip(self.items, o.items))


class InstObj:
    kind = 'inst'
    __slots__ = ('cls', 'attrs', 'shared', 'origin', 'open')

    def __init__(self, cls, attrs=(), shared=False, origin=None,
                 open_=False):
        self.cls = cls
        self.attrs = dict(attrs)
        self.shared = shared
        self.origin = origin
        # an "open" instance stands for an arbitrary caller-owned object:
        # attributes the analysis did not give it may or may not exist
        self.open = open_

    def set(self, name, v):
        a = dict(self.attrs)
        a[name] = v
        return InstObj(self.cls, a, self.shared, self.origin, self.open)

    def same(self, o):
        return isinstance(o, InstObj) and o.cls is self.cls and \
            self.attrs.keys() == o.attrs.keys() and \
            all(same_value(v, o.attrs[k]) for k, v in self.attrs.items())


def same_value(a, b):
    if isinstance(a, Sym) or isinstance(b, Sym):
        return a is b
    if isinstance(a, tuple) and isinstance(b, tuple):
        return len(a) == len(b) and all(same_value(x, y)
                                        for x, y in zip(a, b))
    if type(a) is not type(b):
        return False
    return a == b


# ---------------------------------------------------------------------------
# state and outcomes


class State:
    __slots__ = ('env', 'store', 'kn')

    def __init__(self, env, store, kn):
        self.env = env
        self.store = store
        self.kn = kn

    def fork(self):
        return State(dict(self.env), dict(self.store), self.kn.copy())

    def with_env(self, env):
        return State(env, self.store, self.kn)


class ExcInfo:
    __slots__ = ('type', 'site', 'chain', 'why', 'primitive', 'in_handler')

    def __init__(self, type_, site, chain, why, primitive=False):
        self.in_handler = False
        self.type = type_  # ClassInfo or Ext
        self.site = site  # 'pamqp/x.py:LINE'
        self.chain = chain  # tuple of function shorts, outermost first
        self.why = why
        self.primitive = primitive

    @property
    def type_name(self):
        t = self.type
        if isinstance(t, ClassInfo):
            return t.short
        if isinstance(t, Ext):
            p = t.path
            return p[len('builtins.'):] if p.startswith('builtins.') else p
        return str(t)

    def __repr__(self):
        return '<exc %s at %s via %s>' % (self.type_name, self.site,
                                          '<-'.join(reversed(self.chain)))


# analyse the program as python -O runs it (assert statements removed)
ASSERTS_REMOVED = False
# analyse the program as python -bb runs it (str() of bytes raises)
BYTES_WARNINGS = False

_OWNED_ROOTS = ('param', 'field', 'attr', 'elem', 'index', 'loopvar',
                'loopattr', 'tableget', 'global', 'obj', 'havoc', 'unknown',
                'method', 'dyncall', 'call', 'kwargs', 'instdict')


def _may_be_callers(v):
    """Can the value be an object the caller (or shared state) also holds?
    The result of a constructor or of a call is a new object; what is read
    from a parameter, an attribute, a container or a global is not.  An
    accumulation `x += y` keeps the object x had."""
    while isinstance(v, Sym) and v.op in ('typed', 'concat') and v.args:
        v = v.args[0]
    if isinstance(v, Sym) and v.op == 'cond':
        return _may_be_callers(v.args[1]) or _may_be_callers(v.args[2])
    if isinstance(v, Sym):
        return v.op in _OWNED_ROOTS
    return not T.is_const(v)


class Outcome:
    __slots__ = ('kind', 'state', 'value', 'exc')

    def __init__(self, kind, state, value=None, exc=None):
        self.kind = kind  # normal return raise break continue
        self.state = state
        self.value = value
        self.exc = exc


class Effect:
    __slots__ = ('kind', 'target', 'detail', 'site', 'chain', 'seq')
    _seq = [0]

    def __init__(self, kind, target, detail, site, chain):
        Effect._seq[0] += 1
        self.seq = Effect._seq[0]
        self.kind = kind
        self.target = target
        self.detail = detail
        self.site = site
        self.chain = chain

    def __repr__(self):
        return '<effect %s %s %s at %s>' % (self.kind, self.target,
                                            self.detail, self.site)


class Policy:
    """What to summarise instead of inlining, and hooks for rules."""

    def summarise(self, interp, fi, args, kwargs, state):
        """Return None to inline, or (value, [(exc_type, why)])."""
        return None

    def decide_hook(self, interp, atom, state):
        """Rule-supplied assumption: return True/False to decide an otherwise
        dynamic condition, None to leave it dynamic."""
        return None

    def choose_key(self, interp, table_ref, obj, keyterm, state):
        """Specialise a dispatch-table lookup with a run-time key to one
        constant key (rules analyse one table entry at a time)."""
        return None

    max_unroll = 64
    max_depth = 40


# ---------------------------------------------------------------------------
# builtin exception hierarchy (for except matching)

_EXC_PARENT = {
    'BaseException': None, 'Exception': 'BaseException',
    'ArithmeticError': 'Exception', 'OverflowError': 'ArithmeticError',
    'ZeroDivisionError': 'ArithmeticError',
    'AssertionError': 'Exception', 'AttributeError': 'Exception',
    'LookupError': 'Exception', 'IndexError': 'LookupError',
    'KeyError': 'LookupError', 'MemoryError': 'Exception',
    'NameError': 'Exception', 'OSError': 'Exception',
    'RuntimeError': 'Exception', 'NotImplementedError': 'RuntimeError',
    'RecursionError': 'RuntimeError', 'StopIteration': 'Exception',
    'TypeError': 'Exception', 'ValueError': 'Exception',
    'UnicodeError': 'ValueError', 'UnicodeDecodeError': 'UnicodeError',
    'UnicodeEncodeError': 'UnicodeError', 'Warning': 'Exception',
    'DeprecationWarning': 'Warning', 'UserWarning': 'Warning',
    'struct.error': 'Exception', 'decimal.InvalidOperation':
    'ArithmeticError', 'decimal.DecimalException': 'ArithmeticError',
    'IOError': 'Exception', 'EnvironmentError': 'Exception',
    'KeyboardInterrupt': 'BaseException', 'SystemExit': 'BaseException',
    'GeneratorExit': 'BaseException', 'BufferError': 'Exception',
    'BytesWarning': 'Warning',
    'EOFError': 'Exception', 'ImportError': 'Exception',
}
_EXC_ALIAS = {'IOError': 'OSError', 'EnvironmentError': 'OSError'}


def exc_name(t):
    if isinstance(t, Ext):
        p = t.path
        if p.startswith('builtins.'):
            p = p[len('builtins.'):]
        return _EXC_ALIAS.get(p, p)
    return None


def ext_exc_chain(name):
    out = []
    while name is not None:
        out.append(name)
        name = _EXC_PARENT.get(name, 'Exception' if name not in
                               ('BaseException',) else None)
        if name in out:
            break
    return out


def is_exception_type(t):
    if isinstance(t, Ext):
        return exc_name(t) in _EXC_PARENT
    return isinstance(t, ClassInfo)


class Interp:
    def __init__(self, prog: Program, policy: Policy = None):
        self.prog = prog
        self.policy = policy or Policy()
        self.next_id = itertools.count(1)
        self.static_store = {}
        self.static_cache = {}
        self.static_names = {}
        self.evaluating = set()
        self.stack = []  # [(FuncInfo, site)]
        self.pending = []  # raise outcomes produced while evaluating exprs
        self.effects = []
        self.calls = []  # (callee short, chain)
        self.notes = []
        self.loops = []  # loop summaries (for C08)
        # loops unrolled over a compile-time sequence / with statically
        # decided exits: (function qualname, line) -> largest trip count
        self.static_loops = {}
        self.class_writes = []  # (class qualname, attribute, value)
        # seq -> (first argument, path atoms at the call) for the call log
        self.call_info = {}
        self.handled = []  # (ExcInfo, handler function) caught raises
        self.comps = []  # data-dependent comprehensions
        self.fresh = itertools.count(1)
        if not hasattr(prog, '_dynamic_globals'):
            prog._dynamic_globals = self._find_dynamic_globals()
        self.dynamic_globals = prog._dynamic_globals
        self.rec_assume = {}  # qualname -> summary (None = bottom)
        self.rec_inherited = frozenset()  # assumed although not on the stack
        self.rec_hits = set()
        self.rec_calls = []
        self.loop_stack = []
        self.cur_module = None
        self.cur_func = None
        from . import models
        self.models = models

    # -- helpers -----------------------------------------------------------
    def _find_dynamic_globals(self):
        """Module-level names that some function rebinds through a ``global``
        declaration: reading them yields a run-time value."""
        out = {}
        for fi in self.prog.functions.values():
            declared = set()
            for n in ast.walk(fi.node):
                if isinstance(n, ast.Global):
                    declared.update(n.names)
            if not declared:
                continue
            for n in ast.walk(fi.node):
                tgt = None
                if isinstance(n, (ast.Assign,)):
                    tgts = n.targets
                elif isinstance(n, (ast.AugAssign, ast.AnnAssign)):
                    tgts = [n.target]
                elif isinstance(n, ast.Delete):
                    tgts = n.targets
                else:
                    continue
                for tgt in tgts:
                    for nm in ast.walk(tgt):
                        if isinstance(nm, ast.Name) and nm.id in declared:
                            out.setdefault((fi.module.name, nm.id),
                                           []).append(fi)
        return out

    def site(self, node):
        mi = self.cur_module
        return '%s:%d' % (mi.relpath if mi else '?', getattr(node, 'lineno',
                                                             0))

    def chain(self):
        return tuple(f.short if isinstance(f, FuncInfo) else str(f)
                     for f, _ in self.stack)

    def alloc(self, state, obj):
        i = next(self.next_id)
        state.store[i] = obj
        return Ref(i, obj.kind)

    def obj(self, state, ref):
        o = state.store.get(ref.id)
        if o is None:
            o = self.static_store.get(ref.id)
        if o is None:
            raise AnalysisError('dangling abstract reference %r' % ref)
        return o

    def note(self, msg):
        if msg not in self.notes:
            self.notes.append(msg)

    def effect(self, kind, target, detail, node):
        self.effects.append(Effect(kind, target, detail, self.site(node),
                                   self.chain()))

    def raise_pending(self, state, exc_type, node, why, cond=None,
                      primitive=True):
        """Record that the expression being evaluated may raise exc_type
        (when ``cond`` holds; None = unknown condition)."""
        st = state.fork()
        if cond is not None:
            if not st.kn.assume(cond):
                return
        exc = ExcInfo(exc_type, self.site(node), self.chain(), why,
                      primitive)
        self.pending.append(Outcome('raise', st, exc=exc))

    # -- static (module / class level) evaluation -------------------------
    def static_state(self):
        return State({}, {}, Knowledge())

    def global_value(self, mi: ModuleInfo, name, node=None):
        key = (mi.name, name)
        if key in self.dynamic_globals:
            return Sym('global', mi.name + '.' + name)
        if key in self.static_cache:
            return self.static_cache[key]
        bl = mi.bindings.get(name)
        if not bl:
            return self.builtin(name, node)
        if key in self.evaluating:
            raise AnalysisError('cyclic module-level definition of %s.%s' %
                                key)
        self.evaluating.add(key)
        try:
            v = self.binding_value(bl, mi, mi)
        finally:
            self.evaluating.discard(key)
        self.static_cache[key] = v
        if isinstance(v, Ref):
            self.static_names.setdefault(v.id, mi.name[len('pamqp.'):] + '.'
                                         + name)
            if v.id in self.static_store and isinstance(
                    self.static_store[v.id], (ListObj, DictObj)):
                self._apply_module_initialisers(mi, name, bl[-1].node, v)
        return v

    def _apply_module_initialisers(self, mi, name, bind_node, ref):
        """Import-time statements that fill a module-level container after
        its binding: NAME[k] = v, NAME.update(...), NAME.append(...) at
        module level, and decorators of module-level definitions whose
        function stores into NAME.  Executed once, in source order, on the
        shared (static) store; they are initialisation, not call effects."""
        start = getattr(bind_node, 'lineno', 0)

        def mentions(node):
            return any(isinstance(n, ast.Name) and n.id == name
                       for n in ast.walk(node))

        todo = []
        for st in mi.tree.body:
            if getattr(st, 'lineno', 0) <= start:
                continue
            if isinstance(st, (ast.ClassDef, ast.FunctionDef)):
                for d in st.decorator_list:
                    dn = d.func if isinstance(d, ast.Call) else d
                    try:
                        tgt = self.prog.resolve_static(mi, dn, mi)
                    except Exception:
                        tgt = None
                    if isinstance(tgt, FuncInfo) and not isinstance(
                            d, ast.Call) and mentions(tgt.node):
                        todo.append(('deco', tgt, st))
                    elif isinstance(tgt, FuncInfo) and isinstance(
                            d, ast.Call) and mentions(tgt.node):
                        # @factory(args): the function it returns does the
                        # registering
                        todo.append(('decofactory', (tgt, d), st))
            elif isinstance(st, (ast.Assign, ast.AugAssign, ast.Expr,
                                 ast.Delete)) and mentions(st):
                tg = st.targets if isinstance(st, (ast.Assign, ast.Delete)) \
                    else [getattr(st, 'target', None)]
                if isinstance(st, ast.Assign) and any(
                        isinstance(t_, ast.Name) and t_.id == name
                        for t_ in tg):
                    break  # rebound: a different object from here on
                writes = any(isinstance(t_, ast.Subscript) and
                             isinstance(t_.value, ast.Name) and
                             t_.value.id == name for t_ in tg if t_) or (
                    isinstance(st, ast.Expr) and
                    isinstance(st.value, ast.Call) and
                    isinstance(st.value.func, ast.Attribute) and
                    isinstance(st.value.func.value, ast.Name) and
                    st.value.func.value.id == name)
                if not writes and isinstance(st, ast.Expr) and isinstance(
                        st.value, ast.Call) and any(
                            isinstance(n_, ast.Name) and n_.id == name
                            for a_ in list(st.value.args) + [
                                k_.value for k_ in st.value.keywords]
                            for n_ in ast.walk(a_)):
                    writes = True  # handed to a function at import time
                if writes:
                    todo.append(('stmt', st, None))
            elif isinstance(st, (ast.For, ast.While, ast.If, ast.With,
                                 ast.Try)) and mentions(st):
                # a compound statement at module level that touches the
                # container: run it (or stop undecided if it cannot be run)
                todo.append(('stmt', st, None))
        if not todo:
            return
        saved = (self.cur_module, self.cur_func, self.stack, self.pending)
        e0, c0, n0 = len(self.effects), len(self.calls), len(self.notes)
        self.cur_module, self.cur_func = mi, None
        self.stack = [('<module %s>' % mi.name, None)]
        self.pending = []
        try:
            for kind, a, b in todo:
                st_ = State({}, self.static_store, Knowledge())
                fr = Frame(self, None, mi, None, st_.env)
                if kind == 'stmt':
                    outs = self.exec_block([a], st_, fr)
                elif kind == 'decofactory':
                    fac, dcall = a
                    scope = self.prog.classes.get(
                        mi.name + '.' + b.name) if isinstance(
                            b, ast.ClassDef) else self.prog.functions.get(
                                mi.name + '.' + b.name)
                    if scope is None or any(
                            isinstance(x, ast.Starred) for x in dcall.args):
                        raise Unsupported('decorated definition %s' % b.name)
                    dargs = [self.eval(x, st_, fr) for x in dcall.args]
                    dkw = {k.arg: self.eval(k.value, st_, fr)
                           for k in dcall.keywords if k.arg}
                    inner = self.call_function(fac, dargs, dkw, st_, dcall)
                    self.call_value(inner, [scope], {}, st_, dcall)
                    outs = []
                else:
                    scope = self.prog.classes.get(
                        mi.name + '.' + b.name) if isinstance(
                            b, ast.ClassDef) else self.prog.functions.get(
                                mi.name + '.' + b.name)
                    if scope is None:
                        raise Unsupported('decorated definition %s' % b.name)
                    outs = self.call_outcomes(a, [scope], {}, st_, b)
                if any(o.kind == 'raise' for o in outs) or self.pending:
                    raise Unsupported(
                        'module-level initialisation of %s.%s may raise' %
                        (mi.name, name))
                finals = [o for o in outs if o.kind == 'normal']
                if kind == 'stmt' and len(finals) == 1 and \
                        finals[0].state.store is not self.static_store:
                    # a compound statement forks and joins states: what it
                    # left in the heap is the heap from here on
                    self.static_store.update(finals[0].state.store)
                elif kind == 'stmt' and len(finals) > 1:
                    raise Unsupported(
                        'module-level initialisation of %s.%s ends in %d '
                        'states' % (mi.name, name, len(finals)))
        finally:
            self.cur_module, self.cur_func, self.stack, self.pending = saved
            del self.effects[e0:]
            del self.calls[c0:]
            del self.notes[n0:]
        for i, o in list(self.static_store.items()):
            if not o.shared:
                o.shared = True

    def binding_value(self, bl, scope, mi):
        b = bl[-1]
        if b.kind in ('import', 'importfrom', 'func', 'class'):
            tgt = self.prog.binding_target(b)
            return self.wrap_static(tgt)
        if b.kind == 'augassign':
            raise Unsupported('augmented assignment to %s at scope level in '
                              '%s' % (b.name, scope.qualname))
        if len([x for x in bl if x.kind == 'assign']) > 1:
            self.note('name %s bound %d times in %s: last binding used' %
                      (b.name, len(bl), scope.qualname))
        value = b.value
        if isinstance(value, tuple) and value and value[0] == 'forlast':
            st_ = value[1]
            seq = self.models.static_sequence(
                self, self.eval_static(st_.iter, scope, mi),
                State({}, self.static_store, Knowledge()))
            if not seq:
                raise Unsupported('loop variable %s of a scope-level loop '
                                  'over a run-time or empty iterable' %
                                  b.name)
            last = seq[-1]

            def pick(tgt, v):
                if isinstance(tgt, ast.Name):
                    return v if tgt.id == b.name else ABSENT
                if isinstance(tgt, (ast.Tuple, ast.List)):
                    vs = self.models.static_sequence(
                        self, v, State({}, self.static_store, Knowledge()))
                    if vs is None or len(vs) != len(tgt.elts):
                        raise Unsupported('loop target of a scope-level '
                                          'loop: ' + b.name)
                    for t_, v_ in zip(tgt.elts, vs):
                        r_ = pick(t_, v_)
                        if r_ is not ABSENT:
                            return r_
                return ABSENT
            got = pick(st_.target, last)
            if got is ABSENT:
                raise Unsupported('loop variable %s not found in its target'
                                  % b.name)
            return got
        if isinstance(value, tuple) and value and value[0] == 'unpack':
            whole = self.eval_static(value[1], scope, mi)
            tgt = b.node.targets[0]
            names = [e.id for e in tgt.elts if isinstance(e, ast.Name)]
            if isinstance(whole, Ref) and whole.id in self.static_store:
                ob = self.static_store[whole.id]
                if isinstance(ob, ListObj) and not ob.more and not any(
                        isinstance(x, Sym) and x.op == 'opt'
                        for x in ob.items):
                    whole = tuple(ob.items)
            if isinstance(whole, tuple) and len(whole) == len(names):
                return whole[names.index(b.name)]
            raise Unsupported('tuple unpacking at scope level: ' + b.name)
        if value is None:
            raise Unsupported('binding without value: ' + b.name)
        return self.eval_static(value, scope, mi)

    def eval_static(self, expr, scope, mi):
        saved = (self.cur_module, self.cur_func, self.stack, self.pending)
        self.cur_module, self.cur_func = mi, None
        self.stack = [('<module %s>' % scope.qualname, None)]
        self.pending = []
        try:
            st = State({}, self.static_store, Knowledge())
            frame = Frame(self, None, mi, scope if isinstance(
                scope, ClassInfo) else None, st.env)
            v = self.eval(expr, st, frame)
            # objects created at scope level are shared by every call
            for i, o in list(self.static_store.items()):
                if not o.shared:
                    o.shared = True
                    if o.origin is None:
                        o.origin = '%s (%s)' % (scope.qualname,
                                                self.site(expr))
            return v
        finally:
            self.cur_module, self.cur_func, self.stack, self.pending = saved

    def wrap_static(self, tgt):
        if isinstance(tgt, (ModuleInfo, ClassInfo, FuncInfo)):
            return tgt
        if isinstance(tgt, tuple) and tgt[0] == 'ext':
            return self.models.ext_value(self, tgt[1])
        if isinstance(tgt, Binding):
            scope = tgt.scope
            if isinstance(scope, ModuleInfo):
                return self.global_value(scope, tgt.name)
            return self.class_attr_own(scope, tgt.name)
        if tgt is None:
            raise AnalysisError('unresolvable name')
        return tgt

    def builtin(self, name, node=None):
        return self.models.ext_value(self, 'builtins.' + name)

    def class_attr_own(self, ci: ClassInfo, name):
        key = (ci.qualname, name)
        if key in self.static_cache:
            return self.static_cache[key]
        bl = ci.bindings.get(name)
        if not bl:
            return ABSENT
        if key in self.evaluating:
            raise AnalysisError('cyclic class-level definition %s.%s' % key)
        self.evaluating.add(key)
        try:
            v = self.binding_value(bl, ci, ci.module)
        finally:
            self.evaluating.discard(key)
        if name == '__annotations__':
            v = self._implicit_annotations(ci, bl, v)
        self.static_cache[key] = v
        return v

    def _implicit_annotations(self, ci, bl, v):
        """Python stores the annotation of every annotated assignment of a
        class body in the namespace's __annotations__ - also when the body
        binds that name itself: annotated names from that statement on
        (the statement included) are added to the dict it bound."""
        if not (isinstance(v, Ref) and v.id in self.static_store):
            return v
        ob = self.static_store[v.id]
        if not isinstance(ob, DictObj) or ob.more:
            return v
        start = bl[-1].node.lineno
        items = list(ob.items)
        for st in ci.node.body:
            if isinstance(st, ast.AnnAssign) and \
                    isinstance(st.target, ast.Name) and \
                    st.lineno >= start and st.simple:
                if not any(k == st.target.id for k, _ in items):
                    items.append((st.target.id,
                                  Sym('annotation',
                                      ast.unparse(st.annotation))))
        ob.items = tuple(items) if isinstance(ob.items, tuple) else items
        return v

    def class_attr(self, ci: ClassInfo, name):
        """Attribute lookup through the MRO; returns ABSENT if not found in
        repo classes (and no external base could supply it).  A class
        attribute that an __init_subclass__ hook of a base rebinds when the
        class is created has the value the hook gives it."""
        if not (name.startswith('__') and name.endswith('__')):
            hw = self._hook_writes(ci)
            if name in hw:
                return hw[name]
        for c in self.prog.mro(ci):
            if isinstance(c, ClassInfo):
                if name in c.bindings:
                    return self.class_attr_own(c, name)
            else:
                pass
        return ABSENT

    def _hook_writes(self, ci):
        """{attribute: value} stored on ``ci`` by the __init_subclass__
        hooks of its bases (run abstractly, in MRO order)."""
        cache = self.__dict__.setdefault('_hook_cache', {})
        if ci.qualname in cache:
            return cache[ci.qualname]
        # the hooks run while the modules are imported, once per subclass in
        # definition order; what they leave in shared containers depends on
        # that order, so the first request runs them all in that order
        owner = None
        for c in self.prog.mro(ci)[1:]:
            if isinstance(c, ClassInfo) and '__init_subclass__' in \
                    c.bindings:
                owner = c
                break
        if owner is not None and not self.__dict__.get('_hooks_all_' +
                                                       owner.qualname):
            self.__dict__['_hooks_all_' + owner.qualname] = True
            subs = [c for c in self.prog.classes.values()
                    if c is not owner and self.prog.is_subclass(c, owner)]
            subs.sort(key=lambda c: (c.module.name != owner.module.name,
                                     c.module.name, c.node.lineno))
            for c in subs:
                if c.qualname not in cache:
                    self._hook_writes(c)
            if ci.qualname in cache:
                return cache[ci.qualname]
        cache[ci.qualname] = {}  # re-entrancy: literal values inside a hook
        hooks = []
        for c in self.prog.mro(ci)[1:]:
            if isinstance(c, ClassInfo) and '__init_subclass__' in \
                    c.bindings:
                h = self.prog.find_method(c, '__init_subclass__')
                if h is not None:
                    hooks.append(h)
                break  # the nearest hook chains to the others via super()
        if not hooks:
            return cache[ci.qualname]
        saved = (self.cur_module, self.cur_func, self.stack, self.pending)
        e0, c0, n0 = len(self.effects), len(self.calls), len(self.notes)
        w0 = len(self.class_writes)
        self.stack = [('<class %s>' % ci.qualname, None)]
        self.pending = []
        try:
            for h in hooks:
                st = State({}, self.static_store, Knowledge())
                self.cur_module, self.cur_func = h.module, None
                outs = self.call_outcomes(h, [ci], {}, st, ci.node)
                if any(o.kind == 'raise' for o in outs) or self.pending:
                    raise Unsupported('__init_subclass__ of %s may raise '
                                      'for %s' % (h.owner.short, ci.short))
            res = {}
            for q, nm, v in self.class_writes[w0:]:
                if q == ci.qualname:
                    res[nm] = v
            cache[ci.qualname] = res
        finally:
            self.cur_module, self.cur_func, self.stack, self.pending = saved
            del self.effects[e0:]
            del self.calls[c0:]
            del self.notes[n0:]
            del self.class_writes[w0:]
        return cache[ci.qualname]

    # -- calling -------------------------------------------------------------
    def run_function(self, fi: FuncInfo, args, kwargs=None, state=None):
        """Entry point for rules: interpret fi on args; returns
        (outcomes, state_after_join_or_None)."""
        if state is None:
            state = State({}, {}, Knowledge())
        self.pending = []
        self.stack = []
        outs = self.call_outcomes(fi, list(args), dict(kwargs or {}), state,
                                  fi.node, closure_env=None)
        return outs

    def bind_args(self, fi, args, kwargs, state, node, closure_env):
        fnode = fi.node
        a = fnode.args
        params = [p.arg for p in a.posonlyargs + a.args]
        env = dict(closure_env or {})
        defaults = a.defaults
        ndef = len(defaults)
        nparams = len(params)
        if len(args) > nparams and a.vararg is None:
            self.raise_pending(state, Ext('builtins.TypeError'), node,
                               'too many positional arguments for %s' %
                               fi.short)
            args = args[:nparams]
        for i, p in enumerate(params):
            if i < len(args):
                env[p] = args[i]
            elif p in kwargs:
                v_ = kwargs.pop(p)
                di = i - (nparams - ndef)
                if isinstance(v_, Sym) and v_.op == 'cond' and (
                        v_.args[1] is ABSENT or v_.args[2] is ABSENT) \
                        and di >= 0:
                    dflt_ = self.eval_default(fi, defaults[di])
                    v_ = self.join_value(
                        v_.args[0],
                        dflt_ if v_.args[1] is ABSENT else v_.args[1],
                        dflt_ if v_.args[2] is ABSENT else v_.args[2])
                env[p] = v_
            else:
                di = i - (nparams - ndef)
                if di >= 0:
                    env[p] = self.eval_default(fi, defaults[di])
                else:
                    self.raise_pending(state, Ext('builtins.TypeError'),
                                       node, 'missing argument %s for %s' %
                                       (p, fi.short))
                    env[p] = Sym('missingarg', p)
        if a.vararg is not None:
            env[a.vararg.arg] = tuple(args[nparams:])
        for p, d in zip(a.kwonlyargs, a.kw_defaults):
            if p.arg in kwargs:
                env[p.arg] = kwargs.pop(p.arg)
            elif d is not None:
                env[p.arg] = self.eval_default(fi, d)
            else:
                env[p.arg] = Sym('missingarg', p.arg)
        if a.kwarg is not None:
            env[a.kwarg.arg] = Sym('kwargs', tuple(sorted(
                (k, v) for k, v in kwargs.items())))
        elif kwargs:
            self.raise_pending(state, Ext('builtins.TypeError'), node,
                               'unexpected keyword %s for %s' %
                               (sorted(kwargs), fi.short))
        return env

    def eval_default(self, fi, expr):
        key = ('default', id(expr))
        if key not in self.static_cache:
            scope = fi.owner if fi.owner is not None else fi.module
            self.static_cache[key] = self.eval_static(expr, scope, fi.module)
        return self.static_cache[key]

    def call_outcomes(self, fi, args, kwargs, state, node, closure_env=None):
        """Interpret the body of fi; returns list of return/raise outcomes
        (normal fall-through converted to return None)."""
        if len(self.stack) > self.policy.max_depth:
            raise AnalysisError('inlining depth exceeded at ' + fi.short)
        args, kwargs = self._norm_call(fi, args, kwargs)
        env = self.bind_args(fi, args, kwargs, state, node, closure_env)
        saved = (self.cur_module, self.cur_func)
        self.stack.append((fi, self.site(node) if self.cur_module else None))
        Effect._seq[0] += 1
        self.calls.append((fi.short, self.chain(), Effect._seq[0],
                           len(state.kn.atoms)))
        self.call_info[Effect._seq[0]] = (args[0] if args else None,
                                          tuple(state.kn.atoms))
        self.cur_module, self.cur_func = fi.module, fi
        try:
            frame = Frame(self, fi, fi.module, fi.owner, env)
            st = state.with_env(env)
            if isinstance(fi.node, ast.Lambda):
                v = self.eval(fi.node.body, st, frame)
                outs = self.flush_pending()
                outs.append(Outcome('return', st, value=v))
            else:
                body = _desugared_body(fi.node)
                if body is not fi.node.body:
                    frame.locals |= _assigned_names(body)
                outs = self.exec_block(body, st, frame)
            res = []
            for o in outs:
                if o.kind == 'normal':
                    res.append(Outcome('return', o.state, value=None))
                elif o.kind in ('return', 'raise'):
                    res.append(o)
                else:
                    raise Unsupported('%s outside loop in %s' %
                                      (o.kind, fi.short))
            if fi.is_generator:
                res = self._generator_results(res, frame)
            return res
        finally:
            self.stack.pop()
            self.cur_module, self.cur_func = saved

    def _generator_results(self, outs, frame):
        res = []
        for o in outs:
            if o.kind == 'return':
                ys = o.state.env.get('$yields', ())
                more = o.state.env.get('$yields_more', False)
                ref = self.alloc(o.state, ListObj(ys, more=more))
                res.append(Outcome('return', o.state, value=ref))
            else:
                res.append(o)
        return res

    @staticmethod
    def _norm_call(fi, args, kwargs):
        """Keyword arguments that name the next positional parameters are
        the same call as passing them positionally."""
        if not kwargs or not hasattr(fi.node, 'args') or \
                not hasattr(fi.node.args, 'args'):
            return args, kwargs
        a = fi.node.args
        names = [p.arg for p in a.posonlyargs + a.args]
        args2, kw = list(args), dict(kwargs)
        while len(args2) < len(names) and names[len(args2)] in kw:
            args2.append(kw.pop(names[len(args2)]))
        return args2, kw

    def call_function(self, fi, args, kwargs, state, node, closure_env=None):
        """Call from inside an expression: inline (or summarise), push raise
        outcomes to pending, join the returns.  Returns the value; ``state``
        is updated in place."""
        args, kwargs = self._norm_call(fi, args, kwargs)
        summ = self.policy.summarise(self, fi, args, kwargs, state)
        if summ is not None:
            value, raises = summ
            Effect._seq[0] += 1
            self.calls.append((fi.short + ' [summarised]', self.chain(),
                               Effect._seq[0], len(state.kn.atoms)))
            self.call_info[Effect._seq[0]] = (args[0] if args else None,
                                              tuple(state.kn.atoms))
            for et, why in raises:
                n0 = len(self.pending)
                self.raise_pending(state, et, node, why)
                for po in self.pending[n0:]:
                    po.exc.chain = po.exc.chain + (fi.short,)
            return value
        if any(f is fi for f, _ in self.stack) or \
                fi.qualname in self.rec_inherited:
            # (rec_inherited: this interpreter computes a summary nested in
            # the summary computation of fi -- mutual recursion through
            # more than one cycle; fi is taken at the outer iterate)
            return self.recursive_call(fi, args, kwargs, state, node)
        caller_env = state.env
        depth = len(state.kn.atoms)
        outs = self.call_outcomes(fi, args, kwargs, state, node,
                                  closure_env)
        rets = []
        for o in outs:
            if o.kind == 'raise':
                o.state.env = dict(caller_env)
                self.pending.append(o)
            else:
                rets.append(o)
        if not rets:
            # the call never returns normally
            state.kn.assume(False)
            state.env = caller_env
            raise _NoReturn()
        j = self.join_outcomes(rets, depth)
        state.store = j.state.store
        state.kn = j.state.kn
        state.env = caller_env
        return j.value

    def recursive_call(self, fi, args, kwargs, state, node):
        """A call that re-enters a function already being inlined: use the
        function's inductive summary (fixpoint computed by codec.py)."""
        Effect._seq[0] += 1
        self.calls.append((fi.short + ' [recursive]', self.chain() +
                           (fi.short,), Effect._seq[0],
                           len(state.kn.atoms)))
        self.call_info[Effect._seq[0]] = (args[0] if args else None,
                                          tuple(state.kn.atoms))
        self.rec_hits.add(fi.qualname)
        self.rec_calls.append((fi, list(args), self.chain(), self.site(node),
                               state.kn.copy()))
        if fi.qualname in self.rec_assume:
            summ = self.rec_assume[fi.qualname]
        else:
            from . import codec
            summ = codec.rec_summary(self.prog, fi, self.policy,
                                     outer=self.rec_assume)
        if summ is None:
            # bottom: no terminating recursive activation known yet
            state.kn.assume(False)
            raise _NoReturn()
        value, raises = summ.instantiate(self, fi, args, kwargs, state)
        for et, why in raises:
            self.raise_pending(state, et, node, why)
        return value

    def join_outcomes(self, outs, depth):
        if len(outs) == 1:
            return outs[0]
        if any(len(o.state.kn.atoms) <= depth for o in outs):
            return self._fold_join(outs)
        a0 = outs[0].state.kn.atoms[depth]
        na0 = T.not_(a0)
        gt = [o for o in outs if o.state.kn.atoms[depth] == a0]
        gf = [o for o in outs if isinstance(na0, Sym) and
              o.state.kn.atoms[depth] == na0]
        if len(gt) + len(gf) != len(outs):
            return self._fold_join(outs)
        if not gf:
            return self.join_outcomes(gt, depth + 1)
        jt = self.join_outcomes(gt, depth + 1)
        jf = self.join_outcomes(gf, depth + 1)
        st = self.join_states(a0, jt.state, jf.state, depth)
        v = self.join_value(a0, jt.value, jf.value)
        return Outcome(jt.kind, st, value=v)

    def _fold_join(self, outs):
        cur = outs[0]
        for o in outs[1:]:
            g = Sym('nondet', next(self.fresh))
            depth = _common_prefix(cur.state.kn.atoms, o.state.kn.atoms)
            st = self.join_states(g, cur.state, o.state, depth)
            cur = Outcome(cur.kind, st, value=self.join_value(g, cur.value,
                                                              o.value))
        return cur

    # -- joins -----------------------------------------------------------------
    def join_value(self, g, a, b):
        if same_value(a, b):
            return a
        if isinstance(a, tuple) and isinstance(b, tuple) and \
                len(a) == len(b):
            return tuple(self.join_value(g, x, y) for x, y in zip(a, b))
        if _is_termlike(a) and _is_termlike(b):
            return T.cond(g, a, b)
        return Sym('cond', g, _as_term(a), _as_term(b))

    def join_states(self, g, s1, s2, depth):
        env = {}
        for k in set(s1.env) | set(s2.env):
            if k in s1.env and k in s2.env:
                env[k] = self.join_value(g, s1.env[k], s2.env[k])
            else:
                v = s1.env.get(k, s2.env.get(k))
                env[k] = v if k.startswith('$') else \
                    Sym('cond', g, _as_term(s1.env.get(k, ABSENT)),
                        _as_term(s2.env.get(k, ABSENT)))
        store = {}
        for i in set(s1.store) | set(s2.store):
            o1, o2 = s1.store.get(i), s2.store.get(i)
            if o1 is None or o2 is None or o1 is o2:
                store[i] = o1 if o1 is not None else o2
            elif o1.same(o2):
                store[i] = o1
            else:
                store[i] = self.join_objects(g, o1, o2)
        kn = Knowledge()
        d = min(depth, _common_prefix(s1.kn.atoms, s2.kn.atoms))
        kn.atoms = list(s1.kn.atoms[:d])
        kn.known = s1.kn.known & s2.kn.known
        for t, iv in s1.kn.bounds.items():
            iv2 = s2.kn.bounds.get(t)
            if iv2 is not None:
                kn.bounds[t] = T._iv_union(iv, iv2)
        kn.ineqs = [f for f in s1.kn.ineqs if f in s2.kn.ineqs]
        kn.ors = [a for a in s1.kn.ors if a in s2.kn.ors]
        for t, ts in s1.kn.types.items():
            ts2 = s2.kn.types.get(t)
            if ts2 is not None:
                kn.types[t] = ts | ts2
        for a in kn.atoms:
            if isinstance(a, Sym) and a.op == 'or' and a not in kn.ors:
                kn.ors.append(a)
        # facts that hold on one arm only survive as implications
        kn.implied = [x for x in s1.kn.implied if x in s2.kn.implied]
        if isinstance(g, Sym):
            ng = T.not_(g)
            for arm_kn, guard in ((s1.kn, g), (s2.kn, ng)):
                if not isinstance(guard, Sym):
                    continue
                for a in arm_kn.atoms[d:]:
                    if a is not guard and len(kn.implied) < 200:
                        kn.implied.append((guard, a))
                for gg, ff in arm_kn.implied:
                    if (gg, ff) not in kn.implied and \
                            len(kn.implied) < 200:
                        kn.implied.append((T.and_(guard, gg), ff))
        return State(env, store, kn)

    def join_objects(self, g, o1, o2):
        if isinstance(o1, ListObj) and isinstance(o2, ListObj):
            n = 0
            while n < len(o1.items) and n < len(o2.items) and \
                    same_value(o1.items[n], o2.items[n]):
                n += 1
            r1, r2 = o1.items[n:], o2.items[n:]
            items = list(o1.items[:n])
            if r1 or r2:
                t1 = tuple(_as_term(x) for x in r1)
                t2 = tuple(_as_term(x) for x in r2)
                gg = g
                # opt(g, (opt(h, A, ())), ()) = opt(g and h, A, ())
                if len(t1) == 1 and not t2 and isinstance(t1[0], Sym) and \
                        t1[0].op == 'opt' and t1[0].args[2] == ():
                    gg, t1 = T.and_(g, t1[0].args[0]), t1[0].args[1]
                elif len(t2) == 1 and not t1 and isinstance(t2[0], Sym) \
                        and t2[0].op == 'opt' and t2[0].args[2] == ():
                    gg, t1, t2 = T.and_(T.not_(g), t2[0].args[0]), \
                        t2[0].args[1], ()
                elif not t1 and t2:
                    gg, t1, t2 = T.not_(g), t2, ()
                items.append(Sym('opt', gg, t1, t2))
            return ListObj(items, o1.more or o2.more, o1.shared, o1.origin)
        if isinstance(o1, DictObj) and isinstance(o2, DictObj):
            keys = []
            for k, _ in o1.items + o2.items:
                if not any(same_value(k, kk) for kk in keys):
                    keys.append(k)
            items = []
            for k in keys:
                items.append((k, self.join_value(g, o1.get(k), o2.get(k))))
            return DictObj(items, o1.more or o2.more, o1.shared, o1.origin)
        if isinstance(o1, InstObj) and isinstance(o2, InstObj) and \
                o1.cls is o2.cls:
            attrs = {}
            for k in list(o1.attrs) + [k for k in o2.attrs
                                       if k not in o1.attrs]:
                attrs[k] = self.join_value(g, o1.attrs.get(k, ABSENT),
                                           o2.attrs.get(k, ABSENT))
            return InstObj(o1.cls, attrs, o1.shared, o1.origin, o1.open)
        raise Unsupported('join of incompatible heap objects')

    # -- statements ---------------------------------------------------------
    def flush_pending(self):
        p, self.pending = self.pending, []
        return p

    def exec_block(self, stmts, state, frame):
        outs = []
        cur = state
        for st in stmts:
            if cur is None:
                break
            res = self.exec_stmt(st, cur, frame)
            cur = None
            for o in res:
                if o.kind == 'normal':
                    if cur is not None:
                        raise AnalysisError('two normal outcomes')
                    cur = o.state
                else:
                    outs.append(o)
        if cur is not None:
            outs.append(Outcome('normal', cur))
        return outs

    def exec_stmt(self, st, state, frame):
        m = getattr(self, 'st_' + type(st).__name__, None)
        if m is None:
            raise Unsupported('statement %s at %s' % (type(st).__name__,
                                                      self.site(st)))
        try:
            outs = m(st, state, frame)
        except _NoReturn:
            outs = []
        return self.flush_pending() + outs

    def st_Expr(self, st, state, frame):
        if isinstance(st.value, ast.Yield) and \
                getattr(frame, 'cm', None) is not None:
            return self._cm_yield(st.value, state, frame)
        if isinstance(st.value, (ast.Yield, ast.YieldFrom)):
            self.do_yield(st.value, state, frame)
        else:
            self.eval(st.value, state, frame)
        return [Outcome('normal', state)]

    def do_yield(self, node, state, frame):
        if isinstance(node, ast.YieldFrom):
            src = self.eval(node.value, state, frame)
            seq = None
            if isinstance(src, Ref):
                o = self.obj(state, src)
                if o.kind == 'list' and not o.more:
                    seq = list(o.items)
                    self.models._exhaust(self, src, o, state)
            if seq is None:
                seq = self.models.static_sequence(self, src, state)
            if seq is None:
                raise Unsupported('yield from a run-time iterable at ' +
                                  self.site(node))
            state.env['$yields'] = state.env.get('$yields', ()) + tuple(seq)
            return
        v = self.eval(node.value, state, frame) if node.value else None
        state.env['$yields'] = state.env.get('$yields', ()) + (v,)

    def st_Pass(self, st, state, frame):
        return [Outcome('normal', state)]

    def st_Global(self, st, state, frame):
        frame.globals.update(st.names)
        return [Outcome('normal', state)]

    def st_Nonlocal(self, st, state, frame):
        raise Unsupported('nonlocal at ' + self.site(st))

    def st_Import(self, st, state, frame):
        for a in st.names:
            name = a.asname or a.name.split('.')[0]
            tgt = a.name if a.asname else a.name.split('.')[0]
            state.env[name] = self.wrap_static(self.prog._module_ref(tgt))
        return [Outcome('normal', state)]

    def st_ImportFrom(self, st, state, frame):
        for a in st.names:
            full = (st.module or '') + '.' + a.name
            if full in self.prog.modules:
                v = self.prog.modules[full]
            elif st.module in self.prog.modules:
                v = self.wrap_static(self.prog.member(
                    self.prog.modules[st.module], a.name))
            else:
                v = self.models.ext_value(self, full)
            state.env[a.asname or a.name] = v
        return [Outcome('normal', state)]

    def st_FunctionDef(self, st, state, frame):
        fi = self.prog.lambda_info(st, frame.module, frame.owner)
        state.env[st.name] = Closure(fi, state.env)
        return [Outcome('normal', state)]

    def st_Assign(self, st, state, frame):
        v = self.eval(st.value, state, frame)
        for t in st.targets:
            self.assign(t, v, state, frame)
        return [Outcome('normal', state)]

    def st_AnnAssign(self, st, state, frame):
        if st.value is not None:
            v = self.eval(st.value, state, frame)
            self.assign(st.target, v, state, frame)
        return [Outcome('normal', state)]

    def st_AugAssign(self, st, state, frame):
        load = _as_load(st.target)
        cur = self.eval(load, state, frame)
        rhs = self.eval(st.value, state, frame)
        if isinstance(cur, Ref) and isinstance(st.op, ast.Add) and \
                cur.kind == 'list':
            # list += iterable mutates in place
            self.models.list_extend(self, cur, rhs, state, st)
            return [Outcome('normal', state)]
        if isinstance(cur, Sym) and isinstance(
                st.op, (ast.Add, ast.Mult, ast.BitOr, ast.BitAnd,
                        ast.BitXor, ast.Sub)):
            t_ = state.kn.type_of(cur)
            if (t_ is None or t_ & {'bytearray', 'list', 'dict', 'set'}) \
                    and not T.is_const(cur) and _may_be_callers(cur):
                # `x op= y` on a value that may be a mutable object works
                # in place: the caller's object changes
                self.effect('inplace-op', cur, type(st.op).__name__, st)
        v = self.binop(st.op, cur, rhs, state, st)
        self.assign(st.target, v, state, frame)
        return [Outcome('normal', state)]

    def st_Delete(self, st, state, frame):
        for t in st.targets:
            if isinstance(t, ast.Name):
                state.env.pop(t.id, None)
                if t.id in frame.globals:
                    self.effect('global-write', frame.module.name + '.' +
                                t.id, 'del', st)
            elif isinstance(t, ast.Subscript):
                base = self.eval(t.value, state, frame)
                k = self.eval_slice(t.slice, state, frame)
                self.models.del_item(self, base, k, state, st)
            elif isinstance(t, ast.Attribute):
                base = self.eval(t.value, state, frame)
                pr = None
                if isinstance(base, Ref):
                    ob = self.obj(state, base)
                    if isinstance(ob, InstObj):
                        pr = self.prog.find_property(ob.cls, t.attr)
                if pr is not None:
                    if pr[2] is None:
                        self.raise_pending(
                            state, Ext('builtins.AttributeError'), st,
                            'property %s has no deleter' % t.attr,
                            cond=True)
                        raise _NoReturn()
                    self.call_function(pr[2], [base], {}, state, st)
                    continue
                self.set_attr(base, t.attr, ABSENT, state, st)
            else:
                raise Unsupported('del target at ' + self.site(st))
        return [Outcome('normal', state)]

    def st_Return(self, st, state, frame):
        if isinstance(st.value, ast.Call):
            r = self._tail_call(st.value, state, frame)
            if r is not None:
                return r
        v = self.eval(st.value, state, frame) if st.value is not None \
            else None
        return [Outcome('return', state, value=v)]

    def _tail_call(self, call, state, frame):
        """`return f(...)` with f a function of the package that is inlined:
        every return path of f becomes a return path of the caller (no join
        of the results into one conditional value), so delegating to a
        helper keeps the path structure the rules look at."""
        if any(isinstance(a, ast.Starred) for a in call.args) or any(
                k.arg is None for k in call.keywords):
            return None
        callee = self.eval(call.func, state, frame)
        fi, recv, cenv = None, None, None
        if isinstance(callee, FuncInfo):
            fi = callee
        elif isinstance(callee, Bound) and isinstance(callee.func, FuncInfo):
            fi, recv = callee.func, callee.recv
        elif isinstance(callee, Closure):
            fi, cenv = callee.func, callee.env
        args = [self.eval(a, state, frame) for a in call.args]
        kwargs = {k.arg: self.eval(k.value, state, frame)
                  for k in call.keywords}
        if fi is None or fi.is_generator or fi.kind == 'decorated' or \
                isinstance(fi.node, ast.Lambda):
            v = self.call_value(callee, args, kwargs, state, call)
            return [Outcome('return', state, value=v)]
        if recv is not None:
            args = [recv] + args
        args, kwargs = self._norm_call(fi, args, kwargs)
        if self.policy.summarise(self, fi, args, kwargs, state) is not None \
                or any(f is fi for f, _ in self.stack):
            v = self.call_function(fi, args, kwargs, state, call,
                                   closure_env=cenv)
            return [Outcome('return', state, value=v)]
        caller_env = state.env
        outs = self.call_outcomes(fi, args, kwargs, state, call,
                                  closure_env=cenv)
        res = []
        for o in outs:
            o.state.env = dict(caller_env)
            res.append(o)
        state.env = caller_env
        return res

    def st_Raise(self, st, state, frame):
        if st.exc is None:
            et = frame.handling[-1] if frame.handling else \
                Ext('builtins.RuntimeError')
            exc = ExcInfo(et.type, et.site, et.chain, et.why + ' (re-raised)',
                          et.primitive) if isinstance(et, ExcInfo) else \
                ExcInfo(et, self.site(st), self.chain(), 're-raise')
            return [Outcome('raise', state, exc=exc)]
        etype = self.exception_type_of(st.exc, state, frame)
        if st.cause is not None:
            self.eval(st.cause, state, frame)
        exc = ExcInfo(etype, self.site(st), self.chain(),
                      'explicit raise', primitive=False)
        exc.in_handler = bool(frame.handling)
        return [Outcome('raise', state, exc=exc)]

    def exception_type_of(self, node, state, frame):
        if isinstance(node, ast.Call):
            callee = self.eval(node.func, state, frame)
            if is_exception_type(callee):
                for a in node.args:
                    self.eval(a, state, frame)
                for k in node.keywords:
                    self.eval(k.value, state, frame)
                return callee
            # a factory: evaluate the call, the result must be an exception
            # object
            v = self.eval(node, state, frame)
            if isinstance(v, Sym) and v.op == 'excinst':
                return v.args[0]
            raise Unsupported('raise of a non-class call result at ' +
                              self.site(node))
        v = self.eval(node, state, frame)
        if is_exception_type(v):
            return v
        if isinstance(v, Sym) and v.op == 'caught':
            return v.args[0]
        if isinstance(v, Sym) and v.op == 'excinst':
            # an exception object built earlier; when it comes from module
            # or class scope every raise hands out the same mutable object
            if isinstance(node, ast.Name) and node.id not in state.env or \
                    isinstance(node, ast.Attribute):
                self.effect('raise-shared-exception', ast.unparse(node),
                            T.show(v)[:80], node)
            return v.args[0]
        raise Unsupported('raise of non-exception value at ' +
                          self.site(node))

    def st_Assert(self, st, state, frame):
        if ASSERTS_REMOVED:
            # python -O: the statement is not compiled at all
            return [Outcome('normal', state)]
        c = T.truthy(self.eval(st.test, state, frame))
        c = T.simplify(c, state.kn)
        d = state.kn.decide(c)
        outs = []
        if d is not True:
            s2 = state.fork()
            if s2.kn.assume(T.not_(c)):
                outs.append(Outcome('raise', s2, exc=ExcInfo(
                    Ext('builtins.AssertionError'), self.site(st),
                    self.chain(), 'assert', False)))
        if d is not False:
            state.kn.assume(c)
            outs.append(Outcome('normal', state))
        return outs

    def st_If(self, st, state, frame):
        c = self.eval_cond(st.test, state, frame)
        d = self.decide(c, state)
        if d is True:
            return self.exec_block(st.body, state, frame)
        if d is False:
            return self.exec_block(st.orelse, state, frame)
        pre = self.flush_pending()
        depth = len(state.kn.atoms)
        s1, s2 = state.fork(), state.fork()
        ok1 = s1.kn.assume(c)
        ok2 = s2.kn.assume(T.not_(c))
        o1 = self.exec_block(st.body, s1, frame) if ok1 else []
        o2 = self.exec_block(st.orelse, s2, frame) if ok2 else []
        return pre + self.merge_branches(c, o1, o2, depth)

    def merge_branches(self, c, o1, o2, depth):
        outs = []
        n1 = [o for o in o1 if o.kind == 'normal']
        n2 = [o for o in o2 if o.kind == 'normal']
        outs.extend(o for o in o1 if o.kind != 'normal')
        outs.extend(o for o in o2 if o.kind != 'normal')
        if n1 and n2:
            outs.append(Outcome('normal', self.join_states(
                c, n1[0].state, n2[0].state, depth)))
        elif n1:
            outs.append(n1[0])
        elif n2:
            outs.append(n2[0])
        return outs

    def decide(self, c, state):
        if not isinstance(c, Sym):
            return bool(c)
        c2 = T.simplify(c, state.kn)
        if not isinstance(c2, Sym):
            return bool(c2)
        d = state.kn.decide(c2)
        if d is None:
            d = self.policy.decide_hook(self, c2, state)
            if d is not None:
                state.kn.assume(c2 if d else T.not_(c2))
        return d

    def eval_cond(self, node, state, frame):
        v = self.eval(node, state, frame)
        return self.truth(v, state, node)

    def truth(self, v, state, node):
        """Truthiness of any abstract value as a boolean term/constant."""
        if isinstance(v, Ref):
            o = self.obj(state, v)
            if isinstance(o, ListObj):
                if o.items and not all(isinstance(x, Sym) and x.op == 'opt'
                                       for x in o.items):
                    return True
                if not o.items and not o.more:
                    return False
                return Sym('truthy', v)
            if isinstance(o, DictObj):
                if o.items:
                    return True
                if not o.more:
                    return False
                return Sym('truthy', v)
            if isinstance(o, InstObj):
                for name in ('__bool__', '__len__'):
                    m = self.prog.find_method(o.cls, name)
                    if m is not None:
                        r = self.call_function(m, [v], {}, state, node)
                        return T.truthy(r)
                return True
        if isinstance(v, (FuncInfo, ClassInfo, ModuleInfo, Ext, StructV,
                          RegexV, Bound, LibMethod, Closure)):
            return True
        if isinstance(v, tuple):
            return len(v) > 0
        if isinstance(v, Sym) and v.op == 'cond' and (
                isinstance(v.args[1], Ref) or isinstance(v.args[2], Ref)):
            return T.cond(v.args[0], self.truth(v.args[1], state, node),
                          self.truth(v.args[2], state, node))
        return T.truthy(v)

    def st_While(self, st, state, frame):
        return self.run_loop(self._loop_with_leading_exit(st), state, frame,
                             None)

    def _loop_with_leading_exit(self, st):
        """`while True: if C: break; rest`  is  `while not C: rest`: the
        same loop with its exit test spelled in the body."""
        cache = self.__dict__.setdefault('_leading_exit', {})
        if id(st) in cache:
            return cache[id(st)]
        out = st
        t = st.test
        always = isinstance(t, ast.Constant) and t.value is True or \
            isinstance(t, ast.Constant) and t.value == 1
        if always and not st.orelse and len(st.body) > 1 and \
                isinstance(st.body[0], ast.If) and \
                not st.body[0].orelse and len(st.body[0].body) == 1 and \
                isinstance(st.body[0].body[0], ast.Break):
            neg = ast.UnaryOp(op=ast.Not(), operand=st.body[0].test)
            out = ast.While(test=neg, body=st.body[1:], orelse=[])
            ast.copy_location(neg, st.body[0].test)
            ast.copy_location(out, st)
            ast.fix_missing_locations(out)
        cache[id(st)] = out
        return out

    def st_For(self, st, state, frame):
        it = self.eval(st.iter, state, frame)
        it_ = self.models._iterate_instance(self, it, state, st.iter,
                                            presize=False)
        if it_ is not None:
            it = it_  # an instance of a package class: its __iter__ runs
        seq = self.models.static_sequence(self, it, state)
        if seq is None and isinstance(it, Ref):
            o_ = self.obj(state, it)
            if o_.kind == 'list' and not o_.more:
                items_ = list(o_.items)
                self.models._exhaust(self, it, o_, state)
                return self._for_guarded(st, state, frame, items_)
        if seq is None:
            return self.run_loop(st, state, frame, it)
        outs = []
        cur = state
        breaks = []
        depth = len(state.kn.atoms)
        self._note_static_loop(st, len(seq))
        for elem in seq:
            self.assign(st.target, elem, cur, frame)
            res = self.exec_block(st.body, cur, frame)
            cur, br = self._loop_step(res, outs, depth)
            breaks.extend(br)
            if cur is None:
                break
        return self._loop_finish(st, cur, breaks, outs, frame, depth)

    def _for_guarded(self, st, state, frame, items):
        """for over a compile-time list some of whose elements are present
        only under a guard (opt): the body runs under the guard, the
        iteration is skipped otherwise."""
        flat_ = []
        for x in items:
            if isinstance(x, Sym) and x.op == 'opt':
                g, a, b = x.args
                flat_.extend((g, e) for e in a)
                flat_.extend((T.not_(g), e) for e in b)
            else:
                flat_.append((None, x))
        outs = []
        cur = state
        breaks = []
        depth = len(state.kn.atoms)
        self._note_static_loop(st, len(flat_))
        for g, elem in flat_:
            if g is None:
                self.assign(st.target, elem, cur, frame)
                res = self.exec_block(st.body, cur, frame)
            else:
                d = self.decide(g, cur)
                if d is False:
                    continue
                s_t = cur if d is True else cur.fork()
                res = []
                if d is None:
                    # absent element: the iteration does not happen
                    if cur.kn.assume(T.not_(g)):
                        res.append(Outcome('normal', cur))
                if s_t.kn.assume(g):
                    self.assign(st.target, elem, s_t, frame)
                    res = self.exec_block(st.body, s_t, frame) + res
            cur, br = self._loop_step(res, outs, depth)
            breaks.extend(br)
            if cur is None:
                break
        return self._loop_finish(st, cur, breaks, outs, frame, depth)

    def instance_written_names(self, cls=None):
        """Attribute names some function of the package may store on an
        instance of ``cls`` (x.name = ..., setattr(x, 'name', ...),
        object.__setattr__(x, 'name', ...)): stores through ``self`` count
        only in methods of a class related to cls, stores through any other
        receiver always."""
        cache = getattr(self.prog, '_inst_written', None)
        if cache is None:
            cache = self.prog._inst_written = {}
        key = cls.qualname if cls is not None else None
        if key in cache:
            return cache[key]
        names = set()
        for fi in self.prog.functions.values():
            a = getattr(fi.node, 'args', None)
            ps = (a.posonlyargs + a.args) if a is not None else []
            first = ps[0].arg if ps and fi.owner is not None and \
                fi.kind != 'staticmethod' else None
            related = cls is None or fi.owner is None or \
                self.prog.is_subclass(cls, fi.owner) or \
                self.prog.is_subclass(fi.owner, cls)

            def counts(recv):
                if isinstance(recv, ast.Name) and recv.id == first:
                    return related
                return True
            for n in ast.walk(fi.node):
                if isinstance(n, ast.Attribute) and isinstance(
                        n.ctx, (ast.Store, ast.Del)):
                    if counts(n.value):
                        names.add(n.attr)
                elif isinstance(n, ast.Call):
                    f = n.func
                    fn = f.id if isinstance(f, ast.Name) else (
                        f.attr if isinstance(f, ast.Attribute) else '')
                    if fn in ('setattr', '__setattr__', 'delattr',
                              '__delattr__') and n.args:
                        recv = n.args[0]
                        if not counts(recv):
                            continue
                        for x in n.args[:3]:
                            if isinstance(x, ast.Constant) and \
                                    isinstance(x.value, str):
                                names.add(x.value)
        cache[key] = names
        return names

    def _namedtuple_fields(self, ci):
        """(field names, {name: default expr}) of a typing.NamedTuple
        class, else None."""
        if not any(isinstance(b, tuple) and len(b) > 1 and
                   b[1] == 'typing.NamedTuple' for b in ci.bases):
            return None
        names, defaults = [], {}
        for st in ci.node.body:
            if isinstance(st, ast.AnnAssign) and isinstance(st.target,
                                                            ast.Name):
                names.append(st.target.id)
                if st.value is not None:
                    defaults[st.target.id] = st.value
        return names, defaults

    def _dataclass_fields(self, ci):
        """(field names, {name: default expr}) of a class decorated with
        dataclasses.dataclass (its generated __init__ takes the annotated
        names in order), else None."""
        for d in ci.node.decorator_list:
            path = self.models.decorator_path(self.prog, ci.module, d)
            if path == 'dataclasses.dataclass':
                names, defaults = [], {}
                for c in reversed([c for c in self.prog.mro(ci)
                                   if isinstance(c, ClassInfo)]):
                    for st in c.node.body:
                        if isinstance(st, ast.AnnAssign) and isinstance(
                                st.target, ast.Name):
                            if st.target.id not in names:
                                names.append(st.target.id)
                            if st.value is not None:
                                defaults[st.target.id] = st.value
                return names, defaults
        return None

    def _note_static_loop(self, st, n):
        k = (self.cur_func.qualname if self.cur_func is not None else '?',
             st.lineno)
        self.static_loops[k] = max(self.static_loops.get(k, 0), n)

    def _loop_step(self, res, outs, depth):
        """Split the outcomes of one iteration.  Returns (next_state or None,
        break outcomes)."""
        cont = [o for o in res if o.kind in ('normal', 'continue')]
        br = [o for o in res if o.kind == 'break']
        outs.extend(o for o in res if o.kind in ('return', 'raise'))
        if not cont:
            return None, br
        if len(cont) == 1:
            return cont[0].state, br
        j = self.join_outcomes(cont, depth)
        return j.state, br

    def _loop_finish(self, st, cur, breaks, outs, frame, depth):
        """After the loop: else-clause on normal exhaustion, join with the
        break states."""
        finals = []
        if cur is not None:
            if st.orelse:
                res = self.exec_block(st.orelse, cur, frame)
                for o in res:
                    if o.kind == 'normal':
                        finals.append(o)
                    else:
                        outs.append(o)
            else:
                finals.append(Outcome('normal', cur))
        finals.extend(Outcome('normal', b.state) for b in breaks)
        if finals:
            j = finals[0] if len(finals) == 1 else \
                self.join_outcomes(finals, depth)
            outs.append(Outcome('normal', j.state))
        return outs

    def run_loop(self, st, state, frame, iterable):
        """while loops and for loops over non-constant iterables: unroll
        while the control decisions stay static, otherwise summarise."""
        outs = []
        depth = len(state.kn.atoms)
        if isinstance(st, ast.While):
            cur = state
            breaks = []
            n = 0
            snapshot = state.fork()
            pend0 = list(self.pending)
            eff0, calls0, loops0 = len(self.effects), len(self.calls), \
                len(self.loops)
            static_ok = True
            tmp_outs = []
            while True:
                c = self.eval_cond(st.test, cur, frame)
                d = self.decide(c, cur)
                if d is None:
                    static_ok = False
                    break
                if d is False:
                    break
                res = self.exec_block(st.body, cur, frame)
                if any(o.kind == 'break' for o in res) and \
                        any(o.kind in ('normal', 'continue') for o in res):
                    static_ok = False
                    break
                cur, br = self._loop_step(res, tmp_outs, depth)
                breaks.extend(br)
                n += 1
                if cur is None:
                    break
                if br:
                    break
                if n >= self.policy.max_unroll:
                    static_ok = False
                    break
            if static_ok:
                self._note_static_loop(st, n)
                outs.extend(tmp_outs)
                if breaks and cur is not None and not breaks[-1:] == []:
                    pass
                if breaks and cur is not None:
                    # a break and a continuing state cannot both be static
                    pass
                return self._loop_finish(
                    st, cur if not breaks else None, breaks, outs, frame,
                    depth) if not breaks else self._loop_finish_break(
                        breaks, outs, depth)
            # roll back and summarise
            self.pending = pend0
            del self.effects[eff0:]
            del self.calls[calls0:]
            del self.loops[loops0:]
            state.env, state.store, state.kn = snapshot.env, \
                snapshot.store, snapshot.kn
        return self.summarise_loop(st, state, frame, iterable, outs, depth)

    def _loop_finish_break(self, breaks, outs, depth):
        finals = [Outcome('normal', b.state) for b in breaks]
        j = finals[0] if len(finals) == 1 else self.join_outcomes(finals,
                                                                  depth)
        outs.append(Outcome('normal', j.state))
        return outs

    def summarise_loop(self, st, state, frame, iterable, outs, depth):
        """One abstract iteration over havocked variables."""
        loop_id = next(self.fresh)
        assigned = _assigned_names(st.body)
        if isinstance(st, ast.For):
            assigned |= _target_names(st.target)
        pre = {k: state.env.get(k, ABSENT) for k in assigned}
        # pass 1: discover which heap objects the body mutates and how the
        # integer variables move, on a scratch copy
        probe = state.fork()
        hv = {}
        for k in assigned:
            hv[k] = Sym('loopvar', loop_id, k)
            probe.env[k] = hv[k]
            t = T.typeof(pre[k]) if pre[k] is not ABSENT else None
            if t is not None and t <= {'int', 'bool'}:
                probe.env[k] = hv[k] = Sym('typed', Sym('loopvar', loop_id,
                                                        k), ('int',), None)
        pend0 = list(self.pending)
        eff0, calls0, loops0 = len(self.effects), len(self.calls), \
            len(self.loops)
        notes0 = len(self.notes)
        rec0, hand0 = len(self.rec_calls), len(self.handled)
        store_before = dict(probe.store)
        pinfo = self._loop_body_once(st, probe, frame, iterable, loop_id)
        mutated = set()
        changed_attrs = {}
        for o_ in pinfo['all']:
            for i, o in o_.state.store.items():
                if i in store_before and store_before[i] is not o:
                    mutated.add(i)
                    ob0 = store_before[i]
                    if isinstance(o, InstObj) and isinstance(ob0, InstObj):
                        for a_ in set(o.attrs) | set(ob0.attrs):
                            if not same_value(o.attrs.get(a_, ABSENT),
                                              ob0.attrs.get(a_, ABSENT)):
                                changed_attrs.setdefault(i, set()).add(a_)
        mutated = sorted(mutated)
        self.pending = pend0
        del self.effects[eff0:]
        del self.calls[calls0:]
        del self.loops[loops0:]
        del self.notes[notes0:]
        del self.rec_calls[rec0:]
        del self.handled[hand0:]
        # a generator that yields inside the loop: after any number of
        # iterations it has produced elements the analysis does not list
        ylen0 = len(state.env.get('$yields', ()))
        if any(len(o_.state.env.get('$yields', ())) > ylen0
               for o_ in pinfo['all']):
            state.env['$yields_more'] = True
        # monotone integer variables: the probe pass showed increments >= 0
        mono = pinfo['nonneg_incs']
        # pass 2: havoc with inferred facts, run once for real
        hstate = state
        for k in assigned:
            v = Sym('loopvar', loop_id, k)
            p = pre[k]
            t = T.typeof(p) if p is not ABSENT else None
            if t is not None and t <= {'int', 'bool'}:
                iv = None
                if mono.get(k):
                    lo = T.interval(p, state.kn)[0]
                    if lo is not None:
                        iv = (lo, None)
                v = Sym('typed', v, ('int',), iv)
            hstate.env[k] = v
        for i in mutated:
            o = hstate.store[i]
            if isinstance(o, ListObj):
                hstate.store[i] = ListObj(o.items, True, o.shared, o.origin)
            elif isinstance(o, DictObj):
                hstate.store[i] = DictObj(o.items, True, o.shared, o.origin)
            elif isinstance(o, InstObj):
                # only the attributes the body assigns are unknown at the
                # loop head; an integer one keeps its type (a cursor held in
                # an object is still a cursor)
                na = dict(o.attrs)
                for a in changed_attrs.get(i, set(o.attrs)):
                    p_ = o.attrs.get(a, ABSENT)
                    v_ = Sym('loopattr', loop_id, i, a)
                    t_ = T.typeof(p_) if p_ is not ABSENT else None
                    if t_ is not None and t_ <= {'int', 'bool'}:
                        iv_ = None
                        if pinfo.get('attr_nonneg', {}).get((i, a)):
                            lo_ = T.interval(p_, state.kn)[0]
                            if lo_ is not None:
                                iv_ = (lo_, None)
                        v_ = Sym('typed', v_, ('int',), iv_)
                    na[a] = v_
                hstate.store[i] = InstObj(o.cls, na, o.shared, o.origin,
                                          o.open)
        # variables that move in lock step: each changes by a constant on
        # every path back to the loop head, so after any number of
        # iterations  d_j * (v_i - start_i) == d_i * (v_j - start_j)
        strided = [(k, d) for k, d in sorted(pinfo.get('strides',
                                                       {}).items())
                   if pre.get(k, ABSENT) is not ABSENT and
                   T.typeof(pre[k]) is not None and
                   T.typeof(pre[k]) <= {'int'}]
        lead = next(((k, d) for k, d in strided if d != 0), None)
        for k, d in strided:
            if d == 0:
                hstate.kn.assume(T.compare('eq', hstate.env[k], pre[k]))
            elif lead is not None and k != lead[0]:
                k0, d0 = lead
                hstate.kn.assume(T.compare(
                    'eq', T.mul(d, T.sub(hstate.env[k0], pre[k0])),
                    T.mul(d0, T.sub(hstate.env[k], pre[k]))))
        entry = hstate.fork()
        self.loop_stack.append((loop_id, self.cur_func, len(self.stack)))
        try:
            info = self._loop_body_once(st, hstate.fork(), frame, iterable,
                                        loop_id, outs, entry, pre)
        finally:
            self.loop_stack.pop()
        # exit state
        finals = []
        if isinstance(st, ast.While):
            ex = hstate.fork()
            c = self.eval_cond(st.test, ex, frame)
            dd = self.decide(c, ex)
            if dd is not True:
                if ex.kn.assume(T.not_(c)):
                    finals.append(Outcome('normal', ex))
        else:
            finals.append(Outcome('normal', hstate.fork()))
        if st.orelse and finals:
            res = self.exec_block(st.orelse, finals[0].state, frame)
            finals = [o for o in res if o.kind == 'normal']
            outs.extend(o for o in res if o.kind != 'normal')
        finals.extend(Outcome('normal', b.state) for b in info['breaks'])
        # also the zero-iteration exit is covered by the havoc state for
        # everything except facts; keep only common facts
        if finals:
            j = finals[0] if len(finals) == 1 else self._fold_join(finals)
            outs.append(Outcome('normal', j.state))
        return outs

    def _loop_body_once(self, st, s, frame, iterable, loop_id, outs=None,
                        entry=None, pre=None):
        info = {'breaks': [], 'nonneg_incs': {}, 'id': loop_id, 'all': []}
        feasible = True
        test_term = None
        if isinstance(st, ast.While):
            c = self.eval_cond(st.test, s, frame)
            test_term = c
            d = self.decide(c, s)
            if d is False:
                feasible = False
            elif d is None:
                feasible = s.kn.assume(c)
        else:
            itv = _as_term(iterable)
            if isinstance(itv, Ref):
                ob_ = self.obj(s, itv)
                if isinstance(ob_, ListObj) and ob_.source is not None \
                        and not ob_.items:
                    itv = ob_.source
            elem = Sym('elem', loop_id, itv)
            self.assign(st.target, elem, s, frame)
        if not feasible:
            return info
        start_env = dict(s.env)
        start = s.fork()
        res = self.exec_block(st.body, s, frame)
        conts = [o for o in res if o.kind in ('normal', 'continue')]
        info['breaks'] = [o for o in res if o.kind == 'break']
        info['all'] = res
        if outs is not None:
            outs.extend(o for o in res if o.kind in ('return', 'raise'))
            self.loops.append({
                'id': loop_id, 'node': st, 'func': self.cur_func,
                'chain': self.chain(), 'site': self.site(st),
                'test': test_term, 'start': start, 'start_env': start_env,
                'conts': conts, 'breaks': info['breaks'],
                'raises': [o for o in res if o.kind == 'raise'],
                'returns': [o for o in res if o.kind == 'return'],
                'entry': entry,
                'pre': dict(pre or {}),
                'start_attrs': {
                    (i_, a_): v_ for i_, ob_ in start.store.items()
                    if isinstance(ob_, InstObj)
                    for a_, v_ in ob_.attrs.items()
                    if isinstance(v_, Sym) and v_.op == 'typed' and
                    isinstance(v_.args[0], Sym) and
                    v_.args[0].op == 'loopattr' and
                    v_.args[0].args[0] == loop_id},
                'enclosing': list(self.loop_stack[:-1]),
                'depth': len(self.stack),
            })
        for k, v0 in start_env.items():
            if isinstance(v0, Sym) and v0.op == 'typed':
                okk = True
                for o in conts:
                    v1 = o.state.env.get(k)
                    dlt = T.sub(v1, v0) if v1 is not None else None
                    lo = T.interval(dlt, o.state.kn)[0] \
                        if dlt is not None else None
                    if lo is None or lo < 0:
                        okk = False
                info['nonneg_incs'][k] = okk
                # the same constant step on every path back to the head
                steps = set()
                for o in conts:
                    v1 = o.state.env.get(k)
                    dlt = T.sub(v1, v0) if v1 is not None else None
                    steps.add(dlt if isinstance(dlt, int) and
                              not isinstance(dlt, bool) else None)
                if len(steps) == 1 and None not in steps:
                    info.setdefault('strides', {})[k] = steps.pop()
        # the same for integer attributes of objects (probe pass: the
        # attribute still holds its pre-loop value at the loop head)
        attr_nonneg = {}
        for i_, ob0 in start.store.items():
            if not isinstance(ob0, InstObj):
                continue
            for a_, v0 in ob0.attrs.items():
                t0 = T.typeof(v0) if v0 is not ABSENT else None
                if t0 is None or not t0 <= {'int', 'bool'}:
                    continue
                okk = True
                for o in conts:
                    ob1 = o.state.store.get(i_)
                    v1 = ob1.attrs.get(a_) if isinstance(ob1, InstObj) \
                        else None
                    if v1 is None or v1 is ABSENT:
                        okk = False
                        continue
                    dlt = T.sub(v1, v0)
                    lo = T.interval(dlt, o.state.kn)[0]
                    if lo is None or lo < 0:
                        okk = False
                attr_nonneg[(i_, a_)] = okk
        info['attr_nonneg'] = attr_nonneg
        return info

    def st_Break(self, st, state, frame):
        return [Outcome('break', state)]

    def st_Continue(self, st, state, frame):
        return [Outcome('continue', state)]

    def st_Match(self, st, state, frame):
        """match / case over value, singleton, or-, capture, wildcard and
        argument-less class patterns: desugared into an if / elif chain on a
        temporary that holds the subject."""
        tmp = '$match%d' % next(self.fresh)
        state.env[tmp] = self.eval(st.subject, state, frame)
        frame.locals.add(tmp)

        def subj():
            return ast.Name(id=tmp, ctx=ast.Load())

        def test_of(pat, binds, sub=None):
            sub = subj() if sub is None else sub
            if isinstance(pat, ast.MatchValue):
                return ast.Compare(left=sub, ops=[ast.Eq()],
                                   comparators=[pat.value])
            if isinstance(pat, ast.MatchSingleton):
                return ast.Compare(left=sub, ops=[ast.Is()],
                                   comparators=[ast.Constant(pat.value)])
            if isinstance(pat, ast.MatchOr):
                subs = []
                for p_ in pat.patterns:
                    b2 = []
                    subs.append(test_of(p_, b2, sub))
                    if b2:
                        raise Unsupported('capture inside an or-pattern at '
                                          + self.site(st))
                return ast.BoolOp(op=ast.Or(), values=subs)
            if isinstance(pat, ast.MatchAs):
                inner = ast.Constant(True) if pat.pattern is None else \
                    test_of(pat.pattern, binds, sub)
                if pat.name is not None:
                    binds.append((pat.name, sub))
                return inner
            if isinstance(pat, ast.MatchClass) and not pat.patterns and \
                    not pat.kwd_patterns:
                return ast.Call(func=ast.Name(id='isinstance',
                                              ctx=ast.Load()),
                                args=[sub, pat.cls], keywords=[])
            if isinstance(pat, ast.MatchSequence) and not any(
                    isinstance(p_, ast.MatchStar) for p_ in pat.patterns):
                # the subject must be a tuple / list of exactly that length
                sv = state.env.get(tmp) if sub is not None and \
                    isinstance(sub, ast.Name) and sub.id == tmp else None
                if not isinstance(sv, tuple):
                    raise Unsupported('sequence pattern on a subject that '
                                      'is not a literal tuple at ' +
                                      self.site(st))
                if len(sv) != len(pat.patterns):
                    return ast.Constant(False)
                tests = [test_of(p_, binds, ast.Subscript(
                    value=sub, slice=ast.Constant(i_), ctx=ast.Load()))
                    for i_, p_ in enumerate(pat.patterns)]
                return ast.BoolOp(op=ast.And(), values=tests) if tests \
                    else ast.Constant(True)
            raise Unsupported('match pattern %s at %s' % (
                type(pat).__name__, self.site(st)))

        chain = None
        for case in reversed(st.cases):
            binds = []
            test = test_of(case.pattern, binds)
            assigns = [ast.Assign(targets=[ast.Name(id=b, ctx=ast.Store())],
                                  value=src) for b, src in binds]
            rest = [chain] if chain is not None else []
            if case.guard is not None and binds:
                # the captures are bound before the guard is evaluated (and
                # stay bound when it fails)
                inner = ast.If(test=case.guard, body=list(case.body),
                               orelse=rest)
                node = ast.If(test=test, body=assigns + [inner], orelse=rest)
            else:
                if case.guard is not None:
                    test = ast.BoolOp(op=ast.And(),
                                      values=[test, case.guard])
                node = ast.If(test=test, body=assigns + list(case.body),
                              orelse=rest)
            ast.copy_location(node, case.pattern)
            chain = node
        if chain is None:
            return [Outcome('normal', state)]
        for n in ast.walk(chain):
            if not hasattr(n, 'lineno'):
                ast.copy_location(n, st)
        ast.fix_missing_locations(chain)
        return self.st_If(chain, state, frame)

    def st_With(self, st, state, frame):
        if len(st.items) == 1 and isinstance(st.items[0].context_expr,
                                             ast.Call):
            call = st.items[0].context_expr
            try:
                tgt = self.prog.resolve_static(frame.module, call.func,
                                               frame.module)
            except Exception:
                tgt = None
            if isinstance(tgt, tuple) and tgt and tgt[0] == 'ext' and \
                    tgt[1] == 'contextlib.suppress' and \
                    st.items[0].optional_vars is None and \
                    not call.keywords:
                # with suppress(E1, E2): body  ==  try: body
                #                                  except (E1, E2): pass
                handler = ast.ExceptHandler(
                    type=ast.Tuple(elts=list(call.args), ctx=ast.Load()),
                    name=None, body=[ast.Pass()])
                t_ = ast.Try(body=list(st.body), handlers=[handler],
                             orelse=[], finalbody=[])
                for n_ in (handler, handler.type, handler.body[0], t_):
                    ast.copy_location(n_, st)
                return self.st_Try(t_, state, frame)
            r = self._with_contextmanager(st, state, frame)
            if r is not None:
                return r
        if len(st.items) > 1:
            # with a, b: body  ==  with a: with b: body
            inner = ast.With(items=st.items[1:], body=st.body)
            outer = ast.With(items=st.items[:1], body=[inner])
            ast.copy_location(inner, st)
            ast.copy_location(outer, st)
            return self.st_With(outer, state, frame)
        item = st.items[0]
        v = self.eval(item.context_expr, state, frame)
        if isinstance(v, Ref):
            ob = self.obj(state, v)
            if isinstance(ob, InstObj) and self.prog.find_method(
                    ob.cls, '__exit__') is not None:
                return self._with_object(st, v, ob.cls, state, frame)
        if item.optional_vars is not None:
            self.assign(item.optional_vars, Sym('enter', _as_term(v)),
                        state, frame)
        return self.exec_block(st.body, state, frame)

    def _with_object(self, st, ref, cls, state, frame):
        """`with obj:` where obj is an instance of a class of the package:
        __enter__ runs, the body runs, and __exit__ sees how the body ended
        - an exception it raises replaces the one in flight, a true result
        swallows it."""
        item = st.items[0]
        enter = self.prog.find_method(cls, '__enter__')
        exit_ = self.prog.find_method(cls, '__exit__')
        entered = ref
        if enter is not None:
            entered = self.call_function(enter, [ref], {}, state, st)
        pre = self.flush_pending()
        if item.optional_vars is not None:
            self.assign(item.optional_vars, entered, state, frame)
        body_outs = self.exec_block(st.body, state, frame)
        results = list(pre)
        depth = len(state.kn.atoms)
        normals = []
        for o in body_outs:
            s = o.state
            if o.kind == 'raise':
                exc_v = Sym('caught', o.exc.type, next(self.fresh))
                argv = [ref, o.exc.type, exc_v, Sym('traceback')]
            else:
                argv = [ref, None, None, None]
            caller_env = s.env
            frame.handling.append(o.exc) if o.kind == 'raise' else None
            try:
                xouts = self.call_outcomes(exit_, argv, {}, s, st)
            finally:
                if o.kind == 'raise':
                    frame.handling.pop()
            for xo in xouts:
                xo.state.env = dict(caller_env)
                if xo.kind == 'raise':
                    if o.kind == 'raise':
                        # raised while another exception is being handled
                        # (the __exit__ of a block that failed)
                        xo.exc.in_handler = True
                    results.append(xo)
                    continue
                if o.kind != 'raise':
                    keep = Outcome(o.kind, xo.state, o.value, o.exc)
                    (normals if o.kind == 'normal' else results).append(keep)
                    continue
                sw = self.truth(xo.value, xo.state, st) \
                    if xo.value is not None else False
                d = sw if isinstance(sw, bool) else self.decide(sw, xo.state)
                if d is True:
                    normals.append(Outcome('normal', xo.state))
                elif d is False:
                    results.append(Outcome('raise', xo.state, exc=o.exc))
                else:
                    s1, s2 = xo.state.fork(), xo.state.fork()
                    if s1.kn.assume(sw):
                        normals.append(Outcome('normal', s1))
                    if s2.kn.assume(T.not_(sw)):
                        results.append(Outcome('raise', s2, exc=o.exc))
        results.extend(self.flush_pending())
        if normals:
            j = normals[0] if len(normals) == 1 else \
                self.join_outcomes(normals, depth)
            results.append(Outcome('normal', j.state))
        return results

    def _with_contextmanager(self, st, state, frame):
        """`with f(...):` where f is a generator function decorated with
        contextlib.contextmanager: the generator body is interpreted with
        the with-body run at its single yield, so the generator's
        try/except/finally around the yield see the body's outcomes."""
        item = st.items[0]
        call = item.context_expr
        try:
            tgt = self.prog.resolve_static(frame.module, call.func,
                                           frame.module)
        except Exception:
            return None
        fi = tgt if isinstance(tgt, FuncInfo) else None
        if fi is None or not fi.is_generator or \
                not getattr(fi.node, 'decorator_list', None):
            return None
        from . import models as _m
        if len(fi.node.decorator_list) != 1 or _m.decorator_path(
                self.prog, fi.module, fi.node.decorator_list[0]) != \
                'contextlib.contextmanager':
            return None
        yields = [n for n in _walk_own_nodes(fi.node)
                  if isinstance(n, (ast.Yield, ast.YieldFrom))]
        if len(yields) != 1 or isinstance(yields[0], ast.YieldFrom):
            raise Unsupported('context manager %s with %d yields' %
                              (fi.short, len(yields)))
        args = [self.eval(a, state, frame) for a in call.args]
        if any(isinstance(a, ast.Starred) for a in call.args) or any(
                k.arg is None for k in call.keywords):
            raise Unsupported('star arguments to a context manager at ' +
                              self.site(call))
        kwargs = {k.arg: self.eval(k.value, state, frame)
                  for k in call.keywords}
        caller_env = state.env
        env = self.bind_args(fi, args, kwargs, state, call, None)
        env['$cm_caller_env'] = caller_env
        gframe = Frame(self, fi, fi.module, fi.owner, env)
        gframe.cm = {'body': st.body, 'frame': frame,
                     'vars': item.optional_vars,
                     'tail': _yield_is_tail(fi.node.body),
                     'saved': (frame.module, self.cur_func)}
        saved = (self.cur_module, self.cur_func)
        self.stack.append((fi, self.site(call)))
        Effect._seq[0] += 1
        self.calls.append((fi.short, self.chain(), Effect._seq[0],
                           len(state.kn.atoms)))
        self.cur_module, self.cur_func = fi.module, fi
        try:
            outs = self.exec_block(fi.node.body, state.with_env(env),
                                   gframe)
        finally:
            self.stack.pop()
            self.cur_module, self.cur_func = saved
        res = []
        for o in outs:
            cenv = o.state.env.get('$cm_caller_env', caller_env)
            pend = o.state.env.get('$cm_exit')
            o.state.env = cenv
            if o.kind == 'raise':
                res.append(o)
            elif pend is not None:
                res.append(Outcome(pend[0], o.state, value=pend[1]))
            elif o.kind in ('normal', 'return'):
                res.append(Outcome('normal', o.state))
            else:
                raise Unsupported('%s out of a context manager generator' %
                                  o.kind)
        return res

    def _cm_yield(self, node, state, frame):
        """The yield of an inlined context manager: run the with-body in
        the caller's frame."""
        cm = frame.cm
        v = self.eval(node.value, state, frame) if node.value else None
        genv = state.env
        cst = state.with_env(genv.get('$cm_caller_env', {}))
        if cm['vars'] is not None:
            self.assign(cm['vars'], v, cst, cm['frame'])
        saved = (self.cur_module, self.cur_func)
        self.cur_module, self.cur_func = cm['saved']
        self.stack.append((cm['frame'].func, None)) \
            if cm['frame'].func is not None else None
        try:
            outs = self.flush_pending() + self.exec_block(
                cm['body'], cst, cm['frame'])
        finally:
            if cm['frame'].func is not None:
                self.stack.pop()
            self.cur_module, self.cur_func = saved
        res = []
        for o in outs:
            nenv = dict(genv)
            nenv['$cm_caller_env'] = o.state.env
            o.state.env = nenv
            if o.kind in ('normal', 'raise'):
                res.append(o)
            else:
                # return / break / continue leave the with statement after
                # the generator has been resumed without an exception
                if not cm['tail']:
                    raise Unsupported(
                        '%s out of a with-body whose context manager has '
                        'code after its yield' % o.kind)
                nenv['$cm_exit'] = (o.kind, o.value)
                res.append(Outcome('normal', o.state))
        return res

    def st_Try(self, st, state, frame):
        depth = len(state.kn.atoms)
        body_outs = self.exec_block(st.body, state, frame)
        results = []
        normals = []
        for o in body_outs:
            if o.kind == 'raise':
                handled = self.dispatch_handlers(st, o, frame, results,
                                                 normals)
                if not handled:
                    results.append(o)
            elif o.kind == 'normal':
                if st.orelse:
                    res = self.exec_block(st.orelse, o.state, frame)
                    for r in res:
                        (normals if r.kind == 'normal' else
                         results).append(r)
                else:
                    normals.append(o)
            else:
                results.append(o)
        if st.finalbody:
            fin_results = []
            for o in results + normals:
                res = self.exec_block(st.finalbody, o.state, frame)
                for r in res:
                    if r.kind == 'normal':
                        fin_results.append(Outcome(o.kind, r.state, o.value,
                                                   o.exc))
                    else:
                        fin_results.append(r)
            results = [o for o in fin_results if o.kind != 'normal']
            normals = [o for o in fin_results if o.kind == 'normal']
        if normals:
            j = normals[0] if len(normals) == 1 else \
                self.join_outcomes(normals, depth)
            results.append(Outcome('normal', j.state))
        return results

    def dispatch_handlers(self, st, o, frame, results, normals):
        for h in st.handlers:
            if h.type is None:
                match = True
            else:
                ht = self.eval(h.type, o.state, frame)
                self.flush_pending()
                hts = ht if isinstance(ht, tuple) else (ht,)
                match = any(self.exc_matches(o.exc.type, x) for x in hts)
            if match:
                s = o.state
                self.handled.append((o.exc, self.cur_func.short if
                                     self.cur_func else '?'))
                if h.name:
                    s.env[h.name] = Sym('caught', o.exc.type,
                                        next(self.fresh))
                frame.handling.append(o.exc)
                try:
                    res = self.exec_block(h.body, s, frame)
                finally:
                    frame.handling.pop()
                for r in res:
                    (normals if r.kind == 'normal' else results).append(r)
                return True
        return False

    def exc_matches(self, raised, handler):
        """Is an exception of class ``raised`` caught by ``except handler``?"""
        if isinstance(raised, ClassInfo):
            if isinstance(handler, ClassInfo):
                return self.prog.is_subclass(raised, handler)
            hn = exc_name(handler)
            for c in self.prog.mro(raised):
                if isinstance(c, tuple):
                    base = Ext(c[1])
                    if hn in ext_exc_chain(exc_name(base)):
                        return True
            return False
        rn = exc_name(raised)
        if isinstance(handler, ClassInfo):
            return False
        hn = exc_name(handler)
        return hn in ext_exc_chain(rn)

    # -- assignment -----------------------------------------------------------
    def assign(self, target, v, state, frame):
        if isinstance(target, ast.Name):
            if target.id in frame.globals:
                self.effect('global-write', frame.module.name + '.' +
                            target.id, T.show(v), target)
                state.env['$global:' + target.id] = v
            else:
                state.env[target.id] = v
        elif isinstance(target, (ast.Tuple, ast.List)):
            n = len(target.elts)
            if any(isinstance(e, ast.Starred) for e in target.elts):
                raise Unsupported('starred assignment at ' +
                                  self.site(target))
            parts = self.models.unpack_iterable(self, v, n, state, target)
            for e, p in zip(target.elts, parts):
                self.assign(e, p, state, frame)
        elif isinstance(target, ast.Attribute):
            base = self.eval(target.value, state, frame)
            self.set_attr(base, target.attr, v, state, target)
        elif isinstance(target, ast.Subscript):
            base = self.eval(target.value, state, frame)
            k = self.eval_slice(target.slice, state, frame)
            self.models.set_item(self, base, k, v, state, target)
        else:
            raise Unsupported('assignment target %s at %s' %
                              (type(target).__name__, self.site(target)))

    def _descriptor(self, cls, name, state, method):
        """The class-level descriptor object for ``name`` (an instance of a
        class of the package that defines ``method``), or None."""
        try:
            cd = self.class_attr(cls, name)
        except (AnalysisError, Unsupported):
            return None
        if isinstance(cd, Ref):
            try:
                dob = self.obj(state, cd)
            except AnalysisError:
                return None
            if isinstance(dob, InstObj):
                m = self.prog.find_method(dob.cls, method)
                if m is not None:
                    return cd, m
        return None

    def raw_set_attr(self, base, name, v, state, node):
        o = self.obj(state, base)
        self.effect('setattr', base, (name, o.shared), node)
        if isinstance(o, InstObj):
            state.store[base.id] = o.set(name, v)

    def set_attr(self, base, name, v, state, node, raw=False):
        if isinstance(base, Ref):
            o = self.obj(state, base)
            if isinstance(o, InstObj) and not raw:
                # data descriptor on the class: its __set__ decides where
                # the value goes
                d = self._descriptor(o.cls, name, state, '__set__')
                if d is not None:
                    self.call_function(d[1], [d[0], base, v], {}, state,
                                       node)
                    return
                pr = self.prog.find_property(o.cls, name)
                if pr is not None:
                    # a property is a data descriptor: its setter decides
                    # what the store does; without one the store fails
                    if pr[1] is None:
                        self.raise_pending(
                            state, Ext('builtins.AttributeError'), node,
                            'property %s.%s has no setter' %
                            (o.cls.short, name), cond=True)
                        raise _NoReturn()
                    self.call_function(pr[1], [base, v], {}, state, node)
                    return
                # a __setattr__ defined in the package intercepts the store
                sa = self.prog.find_method(o.cls, '__setattr__')
                if sa is not None and not any(f is sa for f, _ in
                                              self.stack):
                    self.call_function(sa, [base, name, v], {}, state, node)
                    return
            if isinstance(o, InstObj):
                self.effect('setattr', base, (name, o.shared), node)
                state.store[base.id] = o.set(name, v)
                return
            self.effect('setattr', base, (name, o.shared), node)
            return
        if isinstance(base, Sym) and base.op == 'cond' and \
                isinstance(base.args[1], Ref):
            # attribute store through a conditional reference
            self.effect('setattr', base, (name, False), node)
            for alt in (base.args[1], base.args[2]):
                if isinstance(alt, Ref):
                    o = self.obj(state, alt)
                    if isinstance(o, InstObj):
                        old = o.attrs.get(name, ABSENT)
                        g = base.args[0] if alt is base.args[1] else \
                            T.not_(base.args[0])
                        state.store[alt.id] = o.set(
                            name, self.join_value(g, v, old))
            return
        if isinstance(base, ClassInfo):
            self.effect('class-attr-write', base.short, name, node)
            self.class_writes.append((base.qualname, name, v))
            return
        if isinstance(base, ModuleInfo):
            self.effect('global-write', base.name + '.' + name, T.show(v),
                        node)
            return
        self.effect('setattr-sym', _as_term(base), name, node)

    # -- expressions ----------------------------------------------------------
    def eval(self, node, state, frame):
        m = getattr(self, 'ex_' + type(node).__name__, None)
        if m is None:
            raise Unsupported('expression %s at %s' % (type(node).__name__,
                                                       self.site(node)))
        return m(node, state, frame)

    def ex_Constant(self, node, state, frame):
        if node.value is Ellipsis:
            return Ext('builtins.Ellipsis')
        return node.value

    def ex_Name(self, node, state, frame):
        name = node.id
        if name in frame.globals:
            gk = '$global:' + name
            if gk in state.env:
                return state.env[gk]
            return self.global_value(frame.module, name, node)
        if name in state.env:
            v = state.env[name]
            if isinstance(v, (Sym, tuple)) and state.kn.known:
                v2 = T.simplify(v, state.kn)
                v = v2
            if v is ABSENT:
                self.raise_pending(state, Ext('builtins.NameError'), node,
                                   'unbound local ' + name)
            return v
        if frame.func is not None and name in frame.locals:
            self.raise_pending(state, Ext('builtins.NameError'), node,
                               'local %s read before assignment' % name)
            return Sym('unbound', name)
        if frame.func is None and frame.owner is not None and \
                name in frame.owner.bindings:
            # class body scope
            return self.class_attr_own(frame.owner, name)
        return self.global_value(frame.module, name, node)

    def ex_Tuple(self, node, state, frame):
        out = []
        for e in node.elts:
            if isinstance(e, ast.Starred):
                seq = self.models.static_sequence(
                    self, self.eval(e.value, state, frame), state)
                if seq is None:
                    raise Unsupported('starred element at ' + self.site(e))
                out.extend(seq)
            else:
                out.append(self.eval(e, state, frame))
        return tuple(out)

    def ex_List(self, node, state, frame):
        items = []
        more = False
        for e in node.elts:
            if more:
                raise Unsupported('elements after an open-ended starred '
                                  'list at ' + self.site(e))
            if isinstance(e, ast.Starred):
                v = self.eval(e.value, state, frame)
                if isinstance(v, Ref) and self.obj(state, v).kind == 'list':
                    o = self.obj(state, v)
                    items.extend(o.items)
                    more = more or o.more
                    continue
                seq = self.models.static_sequence(self, v, state)
                if seq is None:
                    raise Unsupported('starred element at ' + self.site(e))
                items.extend(seq)
            else:
                items.append(self.eval(e, state, frame))
        return self.alloc(state, ListObj(items, more=more,
                                         origin=self.site(node)))

    def ex_Set(self, node, state, frame):
        items = self.ex_Tuple(node, state, frame)
        if all(T.is_const(i) for i in items):
            return frozenset(items)
        return Sym('set', *[_as_term(i) for i in items])

    def ex_Dict(self, node, state, frame):
        items = []
        for k, v in zip(node.keys, node.values):
            if k is None:
                dv = self.eval(v, state, frame)
                ob = self.obj(state, dv) if isinstance(dv, Ref) else None
                if not isinstance(ob, DictObj) or ob.more:
                    raise Unsupported('dict unpacking of a run-time '
                                      'mapping at ' + self.site(node))
                for kk, vv in ob.items:
                    hit = [i for i, (a, _b) in enumerate(items)
                           if same_value(a, kk)]
                    if hit:
                        items[hit[0]] = (items[hit[0]][0], vv)
                    else:
                        items.append((kk, vv))
                continue
            items.append((self.eval(k, state, frame),
                          self.eval(v, state, frame)))
        return self.alloc(state, DictObj(items, origin=self.site(node)))

    def ex_JoinedStr(self, node, state, frame):
        parts = []
        for v in node.values:
            if isinstance(v, ast.Constant):
                parts.append(v.value)
            else:
                pv = self.eval(v.value, state, frame)
                spec = v.format_spec
                binary = isinstance(spec, ast.JoinedStr) and spec.values and \
                    isinstance(spec.values[-1], ast.Constant) and \
                    str(spec.values[-1].value)[-1:] in 'xXob' and \
                    v.conversion == -1
                if not binary:
                    self.models.int_to_text(self, pv, state, v, 'f-string')
                if v.conversion in (114, 97):
                    self.models.repr_of_caught(self, pv, v)
                elif v.conversion == -1 or v.conversion == 115:
                    self.models.bytes_to_text(self, pv, state, v)
                parts.append(_as_term(pv))
        if all(isinstance(p, str) for p in parts):
            return ''.join(parts)
        return Sym('format', 'fstring', tuple(parts))

    def ex_FormattedValue(self, node, state, frame):
        return Sym('format', 'fvalue', _as_term(self.eval(node.value, state,
                                                          frame)))

    def ex_Lambda(self, node, state, frame):
        fi = self.prog.lambda_info(node, frame.module, frame.owner)
        if frame.func is None:
            return fi
        return Closure(fi, state.env)

    def ex_IfExp(self, node, state, frame):
        c = self.eval_cond(node.test, state, frame)
        d = self.decide(c, state)
        if d is True:
            return self.eval(node.body, state, frame)
        if d is False:
            return self.eval(node.orelse, state, frame)
        depth = len(state.kn.atoms)
        s1, s2 = state.fork(), state.fork()
        s1.kn.assume(c)
        s2.kn.assume(T.not_(c))
        v1 = self._eval_guarded(node.body, s1, frame)
        v2 = self._eval_guarded(node.orelse, s2, frame)
        j = self.join_states(c, s1, s2, depth)
        state.env, state.store, state.kn = j.env, j.store, j.kn
        return self.join_value(c, v1, v2)

    def _eval_guarded(self, node, s, frame):
        try:
            return self.eval(node, s, frame)
        except _NoReturn:
            return Sym('noreturn')

    def ex_BoolOp(self, node, state, frame):
        is_and = isinstance(node.op, ast.And)
        return self._boolop(node.values, is_and, state, frame, node)

    def _boolop(self, values, is_and, state, frame, node):
        v = self.eval(values[0], state, frame)
        if len(values) == 1:
            return v
        c = self.truth(v, state, node)
        d = self.decide(c, state)
        if d is not None:
            if d == is_and:
                return self._boolop(values[1:], is_and, state, frame, node)
            return v
        # dynamic: the rest is evaluated under the assumption, then joined
        depth = len(state.kn.atoms)
        s1 = state.fork()
        s1.kn.assume(c if is_and else T.not_(c))
        rest = self._boolop_guarded(values[1:], is_and, s1, frame, node)
        s2 = state.fork()
        s2.kn.assume(T.not_(c) if is_and else c)
        g = c if is_and else T.not_(c)
        j = self.join_states(g, s1, s2, depth)
        state.env, state.store, state.kn = j.env, j.store, j.kn
        if T.typeof(v) == {'bool'}:
            v = not is_and
        return self.join_value(g, rest, v)

    def _boolop_guarded(self, values, is_and, s, frame, node):
        try:
            return self._boolop(values, is_and, s, frame, node)
        except _NoReturn:
            return Sym('noreturn')

    def ex_UnaryOp(self, node, state, frame):
        v = self.eval(node.operand, state, frame)
        if isinstance(node.op, ast.Not):
            return T.not_(self.truth(v, state, node))
        if isinstance(node.op, ast.USub):
            if T.is_const(v):
                try:
                    return -v
                except TypeError:
                    pass
            return T.neg(v)
        if isinstance(node.op, ast.UAdd):
            return v
        if isinstance(node.op, ast.Invert):
            if isinstance(v, int):
                return ~v
            return Sym('invert', _as_term(v))
        raise Unsupported('unary op at ' + self.site(node))

    def ex_BinOp(self, node, state, frame):
        a = self.eval(node.left, state, frame)
        b = self.eval(node.right, state, frame)
        return self.binop(node.op, a, b, state, node)

    def binop(self, op, a, b, state, node):
        return self.models.binop(self, op, a, b, state, node)

    def ex_Compare(self, node, state, frame):
        left = self.eval(node.left, state, frame)
        result = True
        for op, rnode in zip(node.ops, node.comparators):
            right = self.eval(rnode, state, frame)
            r = self.models.compare(self, op, left, right, state, node)
            result = T.and_(result, r) if not (result is True) else r
            if result is False:
                break
            left = right
        return result

    # helpers for library models that act like operators
    def compare_values(self, opname, a, b, state, node):
        op = {'eq': ast.Eq, 'ne': ast.NotEq, 'lt': ast.Lt, 'le': ast.LtE,
              'gt': ast.Gt, 'ge': ast.GtE, 'is': ast.Is,
              'isnot': ast.IsNot}[opname]()
        return self.models.compare(self, op, a, b, state, node)

    def subscript_value(self, base, key, state, node):
        return self.models.get_item(self, base, key, state, node)

    def getattr_value(self, base, name, state, node):
        return self.get_attr(base, name, state, node)

    def ex_Attribute(self, node, state, frame):
        if node.attr in ('value', 'name', '_value_', '_name_') and \
                isinstance(node.value, ast.Attribute) and \
                isinstance(node.value.value, (ast.Name, ast.Attribute)):
            # <Enumeration>.<MEMBER>.value / .name
            try:
                owner = self.eval(node.value.value, state.fork(), frame)
            except (AnalysisError, Unsupported, _NoReturn):
                owner = None
            if isinstance(owner, ClassInfo) and \
                    self.prog.enum_kind(owner) and \
                    self.prog.enum_member(owner, node.value.attr):
                if node.attr in ('name', '_name_'):
                    return node.value.attr
                return self.class_attr(owner, node.value.attr)
        base = self.eval(node.value, state, frame)
        return self.get_attr(base, node.attr, state, node)

    def get_attr(self, base, name, state, node, default=ABSENT):
        if isinstance(base, ModuleInfo):
            bl = base.bindings.get(name)
            if bl:
                return self.global_value(base, name, node)
            sub = base.name + '.' + name
            if sub in self.prog.modules:
                return self.prog.modules[sub]
            if default is not ABSENT:
                return default
            self.raise_pending(state, Ext('builtins.AttributeError'), node,
                               'module %s has no attribute %s' %
                               (base.name, name), cond=True)
            raise _NoReturn()
        if isinstance(base, ClassInfo):
            v = self.class_attr(base, name)
            if v is ABSENT:
                if name == '__subclasses__':
                    return LibMethod(base, name)
                if name == '_make' and \
                        self._namedtuple_fields(base) is not None:
                    return LibMethod(base, name)
                if name == '__name__':
                    return base.node.name
                if name == '__class__':
                    return Ext('builtins.type')
                if default is not ABSENT:
                    return default
                self.raise_pending(state, Ext('builtins.AttributeError'),
                                   node, 'class %s has no attribute %s' %
                                   (base.short, name), cond=True)
                raise _NoReturn()
            if isinstance(v, FuncInfo) and v.kind == 'classmethod':
                return Bound(v, base)
            if self.prog.enum_kind(base) == 'plain' and \
                    self.prog.enum_member(base, name):
                # a member of a plain enumeration is an object of its own,
                # not equal to the value it wraps
                return Sym('enummember', base.qualname, name, _as_term(v))
            return v
        if isinstance(base, Sym) and base.op == 'enummember' and \
                name in ('value', '_value_', 'name', '_name_'):
            return base.args[1] if 'name' in name else base.args[2]
        if isinstance(base, Ref):
            o = self.obj(state, base)
            if isinstance(o, InstObj):
                if not (name.startswith('__') and name.endswith('__')):
                    d = self._descriptor(o.cls, name, state, '__get__')
                    if d is not None and (
                            name not in o.attrs or self.prog.find_method(
                                self.obj(state, d[0]).cls, '__set__')):
                        return self.call_function(
                            d[1], [d[0], base, o.cls], {}, state, node)
                if name in o.attrs:
                    v = o.attrs[name]
                    if isinstance(v, (Sym, tuple)) and state.kn.known and \
                            v is not ABSENT:
                        # like a local: read under what the path knows
                        try:
                            v = T.simplify(v, state.kn)
                        except Exception:
                            pass
                    if isinstance(v, Sym) and v.op == 'cond' and \
                            (v.args[1] is ABSENT or v.args[2] is ABSENT):
                        self.raise_pending(
                            state, Ext('builtins.AttributeError'), node,
                            'attribute %s may be unset' % name)
                    if v is not ABSENT:
                        return v
                if name == '__class__':
                    return o.cls
                v = self.class_attr(o.cls, name)
                if v is not ABSENT and o.open and not isinstance(
                        v, (FuncInfo, ClassInfo)) and not (
                        name.startswith('__') and name.endswith('__')) \
                        and name in self.instance_written_names(o.cls):
                    # a class-level default that some function of the
                    # package also stores on instances: a caller-owned
                    # object may carry its own value (left by an earlier
                    # call)
                    shadow = Sym('hasattr', Sym('obj', base.id), name)
                    return self.join_value(shadow, Sym('field', name), v)
                if v is ABSENT and o.open and not (
                        name.startswith('__') and name.endswith('__')):
                    # unknown extra attribute of a caller-owned object
                    has = Sym('hasattr', Sym('obj', base.id), name)
                    fv = Sym('field', name)
                    if default is not ABSENT:
                        return self.join_value(has, fv, default)
                    self.raise_pending(
                        state, Ext('builtins.AttributeError'), node,
                        'attribute %s may be unset' % name,
                        cond=T.not_(has))
                    state.kn.assume(has)
                    return fv
                if v is ABSENT:
                    if name == '__dict__':
                        return Sym('instdict', base)
                    if default is not ABSENT:
                        return default
                    self.raise_pending(
                        state, Ext('builtins.AttributeError'), node,
                        '%s instance has no attribute %s' %
                        (o.cls.short, name), cond=True)
                    raise _NoReturn()
                if isinstance(v, FuncInfo):
                    if v.kind == 'function':
                        return Bound(v, base)
                    if v.kind == 'classmethod':
                        return Bound(v, o.cls)
                    if v.kind == 'staticmethod':
                        return v
                    decos = getattr(v.node, 'decorator_list', [])
                    if len(decos) == 1 and self.models.decorator_path(
                            self.prog, v.module, decos[0]) in (
                                None, 'builtins.property') and \
                            isinstance(decos[0], ast.Name) and \
                            decos[0].id == 'property':
                        # a read-only property: the getter runs on access
                        return self.call_function(v, [base], {}, state,
                                                  node)
                    self.note('decorated method %s analysed through its '
                              'undecorated body' % v.short)
                    return Bound(v, base)
                return v
            return LibMethod(base, name)
        if isinstance(base, Sym) and base.op == 'cond':
            a, b = base.args[1], base.args[2]
            if isinstance(a, Ref) or isinstance(b, Ref):
                va = self.get_attr(a, name, state, node, default) \
                    if a is not ABSENT else ABSENT
                vb = self.get_attr(b, name, state, node, default) \
                    if b is not ABSENT else ABSENT
                return self.join_value(base.args[0], va, vb)
        return self.models.lib_attr(self, base, name, state, node, default)

    def ex_Subscript(self, node, state, frame):
        base = self.eval(node.value, state, frame)
        if isinstance(node.slice, ast.Slice):
            lo = self.eval(node.slice.lower, state, frame) \
                if node.slice.lower is not None else None
            hi = self.eval(node.slice.upper, state, frame) \
                if node.slice.upper is not None else None
            step = self.eval(node.slice.step, state, frame) \
                if node.slice.step is not None else None
            return self.models.get_slice(self, base, lo, hi, step, state,
                                         node)
        k = self.eval(node.slice, state, frame)
        return self.models.get_item(self, base, k, state, node)

    def eval_slice(self, sl, state, frame):
        if isinstance(sl, ast.Slice):
            lo = self.eval(sl.lower, state, frame) if sl.lower else None
            hi = self.eval(sl.upper, state, frame) if sl.upper else None
            return ('slice', lo, hi)
        return self.eval(sl, state, frame)

    def ex_Starred(self, node, state, frame):
        raise Unsupported('starred expression at ' + self.site(node))

    def ex_NamedExpr(self, node, state, frame):
        v = self.eval(node.value, state, frame)
        self.assign(node.target, v, state, frame)
        return v

    def ex_Yield(self, node, state, frame):
        self.do_yield(node, state, frame)
        return None

    def ex_ListComp(self, node, state, frame):
        return self._list_comp(node, state, frame)

    def ex_GeneratorExp(self, node, state, frame):
        v = self._list_comp(node, state, frame)
        if isinstance(v, Ref) and v.id in state.store:
            state.store[v.id].gen = True
        return v

    def _list_comp(self, node, state, frame):
        items, more = self._comprehension(node, node.elt, state, frame)
        if more:
            # data-dependent comprehension: an unknown number of elements of
            # the one abstract shape; recorded like a summarised loop
            self.comps.append({'func': self.cur_func, 'node': node,
                               'site': self.site(node),
                               'elts': list(items),
                               'chain': self.chain()})
            return self.alloc(state, ListObj(
                (), more=True, origin=self.site(node),
                source=Sym('comp', tuple(_as_term(i) for i in items))))
        return self.alloc(state, ListObj(items, more=more,
                                         origin=self.site(node)))

    def ex_SetComp(self, node, state, frame):
        items, more = self._comprehension(node, node.elt, state, frame)
        return Sym('set', *[_as_term(i) for i in items]) if not more else \
            Sym('setcomp', next(self.fresh))

    def ex_DictComp(self, node, state, frame):
        pairs, more = self._comprehension(node, (node.key, node.value),
                                          state, frame)
        return self.alloc(state, DictObj(pairs, more=more,
                                         origin=self.site(node)))

    def _comprehension(self, node, elt, state, frame):
        """Evaluate a comprehension; unrolled over constant iterables, else
        one abstract element (more=True)."""
        saved = dict(state.env)
        results = []
        more = [False]

        def rec(gi):
            if gi == len(node.generators):
                if isinstance(elt, tuple):
                    results.append((self.eval(elt[0], state, frame),
                                    self.eval(elt[1], state, frame)))
                else:
                    v_ = self.eval(elt, state, frame)
                    if guards:
                        v_ = Sym('opt', T.and_(*guards), (_as_term(v_),), ())
                    results.append(v_)
                return
            g = node.generators[gi]
            it = self.eval(g.iter, state, frame)
            it_ = self.models._iterate_instance(self, it, state, g.iter,
                                                presize=False)
            if it_ is not None:
                it = it_  # an instance of a package class: its __iter__
            seq = self.models.static_sequence(self, it, state)
            if seq is None:
                more[0] = True
                seq = [Sym('elem', next(self.fresh), _as_term(it))]
            for e in seq:
                self.assign(g.target, e, state, frame)
                okk = True
                pushed = 0
                for cnd in g.ifs:
                    c = self.eval_cond(cnd, state, frame)
                    d = self.decide(c, state)
                    if d is False:
                        okk = False
                        break
                    if d is None:
                        if guardable and not more[0]:
                            guards.append(c)
                            pushed += 1
                        else:
                            more[0] = True
                if okk:
                    rec(gi + 1)
                del guards[len(guards) - pushed:]
        guards = []
        # a filter that cannot be decided keeps the element under its guard
        # (list / generator comprehensions over a compile-time iterable)
        guardable = not isinstance(elt, tuple) and \
            isinstance(node, (ast.ListComp, ast.GeneratorExp)) and \
            (not isinstance(node, ast.GeneratorExp) or
             _genexp_stable(node, frame))
        rec(0)
        # comprehension variables do not leak
        for k in list(state.env):
            if k not in saved:
                del state.env[k]
        for k, v in saved.items():
            state.env[k] = v
        return results, more[0]

    def ex_Call(self, node, state, frame):
        callee = self.eval(node.func, state, frame)
        args = []
        for a in node.args:
            if isinstance(a, ast.Starred):
                sv = self.eval(a.value, state, frame)
                seq = self.models.static_sequence(self, sv, state)
                if seq is None and isinstance(sv, Sym) and \
                        sv.op == 'slice' and \
                        isinstance(sv.args[1], int) and \
                        isinstance(sv.args[2], int) and \
                        0 <= sv.args[1] <= sv.args[2] <= sv.args[1] + 16:
                    # *value[a:b] with constant bounds: the elements
                    # value[a] ... value[b-1] (a shorter value gives fewer)
                    self.raise_pending(state, Ext('builtins.TypeError'),
                                       node, 'fewer elements than the '
                                       'slice bounds')
                    seq = [T.index(sv.args[0], i)
                           for i in range(sv.args[1], sv.args[2])]
                if seq is None:
                    raise Unsupported('*args with dynamic sequence at ' +
                                      self.site(node))
                args.extend(seq)
            else:
                args.append(self.eval(a, state, frame))
        kwargs = {}
        for k in node.keywords:
            if k.arg is None:
                dv = self.eval(k.value, state, frame)
                ok_ = False
                if isinstance(dv, Sym) and dv.op == 'kwargs':
                    # the **kwargs of the enclosing function, passed on
                    for kk, vv in dv.args[0]:
                        kwargs[kk] = vv
                    ok_ = True
                if isinstance(dv, Ref):
                    ob_ = self.obj(state, dv)
                    if isinstance(ob_, DictObj) and all(
                            isinstance(kk, str) for kk, _ in ob_.items):
                        # keys that are only conditionally present carry a
                        # cond(g, v, ABSENT) value; bind_args substitutes
                        # the parameter default for the ABSENT arm
                        for kk, vv in ob_.items:
                            kwargs[kk] = vv
                        ok_ = True
                if not ok_:
                    raise Unsupported('**kwargs with a non-literal mapping '
                                      'at ' + self.site(node))
                continue
            kwargs[k.arg] = self.eval(k.value, state, frame)
        return self.call_value(callee, args, kwargs, state, node)

    def call_value(self, callee, args, kwargs, state, node):
        if isinstance(callee, FuncInfo):
            if callee.kind == 'decorated':
                for d_ in getattr(callee.node, 'decorator_list', []):
                    if self.models.decorator_path(
                            self.prog, callee.module, d_) in \
                            self.models.DISPATCHING_DECORATORS:
                        raise Unsupported(
                            'call of %s, which is replaced by a '
                            'functools dispatcher (no model) at %s' %
                            (callee.short, self.site(node)))
                self.note('decorated function %s analysed through its '
                          'undecorated body' % callee.short)
            return self.call_function(callee, args, kwargs, state, node)
        if isinstance(callee, Closure):
            return self.call_function(callee.func, args, kwargs, state, node,
                                      closure_env=callee.env)
        if isinstance(callee, Bound):
            return self.call_function(callee.func, [callee.recv] + args,
                                      kwargs, state, node)
        if isinstance(callee, ClassInfo):
            return self.instantiate(callee, args, kwargs, state, node)
        if isinstance(callee, FuncV):
            return self.models.call_funcv(self, callee, args, kwargs, state,
                                          node)
        if isinstance(callee, Ref):
            ob = self.obj(state, callee)
            if isinstance(ob, InstObj):
                # an instance of a class of the package that defines
                # __call__
                m = self.prog.find_method(ob.cls, '__call__')
                if m is not None:
                    return self.call_function(m, [callee] + list(args),
                                              kwargs, state, node)
                self.raise_pending(state, Ext('builtins.TypeError'), node,
                                   '%s object is not callable' %
                                   ob.cls.short, cond=True)
                raise _NoReturn()
        if isinstance(callee, Sym) and callee.op == 'cond':
            # call through a conditional callee: both, joined
            g = callee.args[0]
            depth = len(state.kn.atoms)
            d_ = self.decide(g, state)
            if d_ is True:
                return self.call_value(callee.args[1], args, kwargs, state,
                                       node)
            if d_ is False:
                return self.call_value(callee.args[2], args, kwargs, state,
                                       node)
            s1, s2 = state.fork(), state.fork()
            ok1 = s1.kn.assume(g)
            ok2 = s2.kn.assume(T.not_(g))
            if ok1 and not ok2:
                return self.call_value(callee.args[1], args, kwargs, state,
                                       node)
            if ok2 and not ok1:
                return self.call_value(callee.args[2], args, kwargs, state,
                                       node)
            v1 = self.call_value(callee.args[1], list(args), dict(kwargs),
                                 s1, node)
            v2 = self.call_value(callee.args[2], list(args), dict(kwargs),
                                 s2, node)
            j = self.join_states(g, s1, s2, depth)
            state.store, state.kn = j.store, j.kn
            return self.join_value(g, v1, v2)
        return self.models.call_lib(self, callee, args, kwargs, state, node)

    def instantiate(self, ci, args, kwargs, state, node):
        if any(isinstance(c, tuple) and exc_name(Ext(c[1])) in _EXC_PARENT
               for c in self.prog.mro(ci)):
            # exception instance: no constructor to run
            return Sym('excinst', ci, tuple(_as_term(a) for a in args))
        nt = self._namedtuple_fields(ci)
        if nt is None and self.prog.find_method(ci, '__init__') is None:
            nt = self._dataclass_fields(ci)
        if nt is not None:
            names, defaults = nt
            attrs = {}
            if len(args) > len(names) or any(k not in names for k in kwargs):
                self.raise_pending(state, Ext('builtins.TypeError'), node,
                                   '%s() takes %d fields' % (ci.short,
                                                             len(names)),
                                   cond=True)
                raise _NoReturn()
            for i, nm in enumerate(names):
                if i < len(args):
                    attrs[nm] = args[i]
                elif nm in kwargs:
                    attrs[nm] = kwargs[nm]
                elif nm in defaults:
                    attrs[nm] = self.eval_static(defaults[nm], ci, ci.module)
                else:
                    self.raise_pending(state, Ext('builtins.TypeError'),
                                       node, '%s() missing field %s' %
                                       (ci.short, nm), cond=True)
                    raise _NoReturn()
            return self.alloc(state, InstObj(ci, attrs,
                                             origin=self.site(node)))
        ref = self.alloc(state, InstObj(ci, {}, origin=self.site(node)))
        init = self.prog.find_method(ci, '__init__')
        if init is not None:
            self.call_function(init, [ref] + args, kwargs, state, node)
        elif args or kwargs:
            self.raise_pending(state, Ext('builtins.TypeError'), node,
                               '%s() takes no arguments' % ci.short,
                               cond=True)
        return ref


class Frame:
    """Static context of one activation."""

    def __init__(self, interp, func, module, owner, env):
        self.func = func
        self.module = module
        self.owner = owner
        self.globals = set()
        self.handling = []
        self.cm = None
        self.locals = _assigned_names(func.node.body) if func is not None \
            and not isinstance(func.node, ast.Lambda) else set()


def _walk_own_nodes(fnode):
    """Nodes of a function body, not descending into nested functions,
    lambdas or classes."""
    todo = list(fnode.body)
    while todo:
        n = todo.pop()
        yield n
        for c in ast.iter_child_nodes(n):
            if isinstance(c, (ast.FunctionDef, ast.AsyncFunctionDef,
                              ast.Lambda, ast.ClassDef)):
                continue
            todo.append(c)


_DESUGARED = {}


def _desugared_body(fnode):
    """Bytes accumulators written as  v = b'...'; ...; v += e  (every other
    store to v an augmented addition) are rewritten into the list form the
    loop summaries understand:  v_parts = [b'...']; v_parts.append(e); a
    read of v becomes b''.join(v_parts).  Same bytes, same TypeError for a
    non-bytes operand."""
    key = id(fnode)
    hit = _DESUGARED.get(key)
    if hit is not None and hit[0] is fnode:
        return hit[1]
    body = fnode.body
    params = set()
    a = fnode.args
    for p_ in a.posonlyargs + a.args + a.kwonlyargs:
        params.add(p_.arg)
    inits, augs, other = {}, {}, set()
    declared = set()
    own = list(_walk_own_nodes(fnode))
    in_loop_inits = set()
    for n in own:
        if isinstance(n, (ast.Global, ast.Nonlocal)):
            declared.update(n.names)
    for st in body:
        if isinstance(st, ast.Assign) and len(st.targets) == 1 and \
                isinstance(st.targets[0], ast.Name) and \
                isinstance(st.value, ast.Constant) and \
                isinstance(st.value.value, bytes):
            nm = st.targets[0].id
            inits[nm] = inits.get(nm, 0) + 1
    for n in own:
        if isinstance(n, ast.AugAssign) and isinstance(n.target, ast.Name):
            if isinstance(n.op, ast.Add):
                augs[n.target.id] = augs.get(n.target.id, 0) + 1
            else:
                other.add(n.target.id)
        elif isinstance(n, ast.Name) and isinstance(n.ctx, (ast.Store,
                                                            ast.Del)):
            pass
    stores = {}
    for n in own:
        if isinstance(n, ast.Name) and isinstance(n.ctx, (ast.Store,
                                                          ast.Del)):
            stores[n.id] = stores.get(n.id, 0) + 1
    names = {nm for nm in inits
             if inits[nm] == 1 and augs.get(nm) and nm not in other and
             nm not in params and nm not in declared and
             stores.get(nm, 0) == 1 + augs[nm]}
    del in_loop_inits
    if not names:
        _DESUGARED[key] = (fnode, body)
        return body
    import copy

    class Tr(ast.NodeTransformer):
        def visit_FunctionDef(self, node):
            return node

        visit_AsyncFunctionDef = visit_Lambda = visit_ClassDef = \
            visit_FunctionDef

        def visit_Assign(self, node):
            if len(node.targets) == 1 and isinstance(
                    node.targets[0], ast.Name) and \
                    node.targets[0].id in names and \
                    isinstance(node.value, ast.Constant):
                new = ast.Assign(
                    targets=[ast.Name(id='$parts_' + node.targets[0].id,
                                      ctx=ast.Store())],
                    value=ast.List(elts=[node.value] if node.value.value
                                   else [], ctx=ast.Load()))
                return ast.copy_location(new, node)
            return self.generic_visit(node)

        def visit_AugAssign(self, node):
            if isinstance(node.target, ast.Name) and \
                    node.target.id in names:
                val = self.visit(node.value)
                call = ast.Expr(value=ast.Call(
                    func=ast.Attribute(
                        value=ast.Name(id='$parts_' + node.target.id,
                                       ctx=ast.Load()),
                        attr='append', ctx=ast.Load()),
                    args=[val], keywords=[]))
                return ast.copy_location(call, node)
            return self.generic_visit(node)

        def visit_Name(self, node):
            if node.id in names and isinstance(node.ctx, ast.Load):
                new = ast.Call(
                    func=ast.Attribute(value=ast.Constant(b''), attr='join',
                                       ctx=ast.Load()),
                    args=[ast.Name(id='$parts_' + node.id, ctx=ast.Load())],
                    keywords=[])
                return ast.copy_location(new, node)
            return node

    new_body = [Tr().visit(copy.deepcopy(st)) for st in body]
    for st in new_body:
        ast.fix_missing_locations(st)
    _DESUGARED[key] = (fnode, new_body)
    return new_body


def _genexp_stable(node, frame):
    """A generator expression is evaluated lazily; treating its filter as
    evaluated where it is written is exact when no free name of it is
    rebound elsewhere in the enclosing function."""
    if frame is None or frame.func is None or \
            isinstance(frame.func.node, ast.Lambda):
        return False
    targets = set()
    for g in node.generators:
        for n in ast.walk(g.target):
            if isinstance(n, ast.Name):
                targets.add(n.id)
    free = {n.id for n in ast.walk(node)
            if isinstance(n, ast.Name) and isinstance(n.ctx, ast.Load)} \
        - targets
    fn = frame.func.node
    a = fn.args
    params = {x.arg for x in a.posonlyargs + a.args + a.kwonlyargs}
    stores = {}
    inside = {id(n) for n in ast.walk(node)}
    for n in ast.walk(fn):
        if isinstance(n, ast.Name) and isinstance(n.ctx, (ast.Store,
                                                          ast.Del)) \
                and id(n) not in inside:
            stores[n.id] = stores.get(n.id, 0) + 1
    for name in free:
        k = stores.get(name, 0) + (1 if name in params else 0)
        if k > 1:
            return False
    return True


def _yield_is_tail(body):
    """The yield statement is the last thing executed on the normal path
    (only try wrappers around it, nothing after)."""
    if not body:
        return False
    last = body[-1]
    if isinstance(last, ast.Expr) and isinstance(last.value, ast.Yield):
        return True
    if isinstance(last, ast.Try) and not last.orelse:
        return _yield_is_tail(last.body)
    if isinstance(last, ast.With):
        return _yield_is_tail(last.body)
    return False


class _NoReturn(Exception):
    """The expression being evaluated cannot complete normally."""


def _common_prefix(a, b):
    n = 0
    while n < len(a) and n < len(b) and a[n] == b[n]:
        n += 1
    return n


def _is_termlike(x):
    return isinstance(x, (Sym, int, str, bytes, float, type(None), bool))


def _as_term(x):
    if isinstance(x, (Sym, int, str, bytes, float, type(None), bool, Ref)):
        return x
    if isinstance(x, tuple):
        return tuple(_as_term(e) for e in x)
    return x


def _as_load(target):
    t = ast.copy_location(type(target)(**{f: getattr(target, f)
                                          for f in target._fields}), target)
    t.ctx = ast.Load()
    return t


def _assigned_names(body):
    out = set()
    for st in body:
        for n in ast.walk(st):
            if isinstance(n, ast.Name) and isinstance(n.ctx, (ast.Store,
                                                              ast.Del)):
                out.add(n.id)
            elif isinstance(n, (ast.FunctionDef, ast.ClassDef)):
                out.add(n.name)
    return out


def _target_names(t):
    return {n.id for n in ast.walk(t) if isinstance(n, ast.Name)}


def _increment_exprs(body):
    """name -> True when every assignment to the name in the loop body is
    ``name += e`` or ``name = name + e``; absent/None otherwise."""
    forms = {}
    for st in body:
        for n in ast.walk(st):
            if isinstance(n, ast.AugAssign) and isinstance(n.target,
                                                           ast.Name):
                okk = isinstance(n.op, ast.Add)
                forms.setdefault(n.target.id, []).append(okk)
            elif isinstance(n, ast.Assign):
                for t in n.targets:
                    for nm in ast.walk(t):
                        if isinstance(nm, ast.Name):
                            okk = isinstance(t, ast.Name) and \
                                isinstance(n.value, ast.BinOp) and \
                                isinstance(n.value.op, ast.Add) and \
                                isinstance(n.value.left, ast.Name) and \
                                n.value.left.id == nm.id
                            forms.setdefault(nm.id, []).append(okk)
            elif isinstance(n, (ast.For, ast.comprehension)):
                for nm in ast.walk(n.target):
                    if isinstance(nm, ast.Name):
                        forms.setdefault(nm.id, []).append(False)
            elif isinstance(n, ast.NamedExpr):
                forms.setdefault(n.target.id, []).append(False)
    return {k: (True if all(v) else None) for k, v in forms.items()}
