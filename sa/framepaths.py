"""Path facts of frame.unmarshal shared by C06, C07, C09, C18, C20: every
return / raise outcome of the abstract interpretation with its path
knowledge, classified by frame kind."""
from . import codec
from . import interp as I
from . import layout as L
from . import terms as T
from .model import AnalysisError, ClassInfo
from .terms import Sym

ENVELOPE = ('big', ((1, False, 'int'), (2, False, 'int'), (4, False,
                                                          'int')))


class Ret:
    def __init__(self, o, it, data):
        self.o = o
        self.kn = o.state.kn
        self.value = o.value
        self.ok_shape = isinstance(o.value, tuple) and len(o.value) == 3
        self.n = self.ch = self.obj = None
        self.cls = None
        self.objv = None
        if self.ok_shape:
            self.n, self.ch, self.objv = o.value
            if isinstance(self.objv, T.Ref):
                ob = it.obj(o.state, self.objv)
                self.obj = ob
                if ob.kind == 'inst':
                    self.cls = ob.cls

    def reachable_terms(self, it):
        """All terms stored in the result object graph."""
        out = []
        seen = set()

        def visit(v):
            if isinstance(v, T.Ref):
                if v.id in seen:
                    return
                seen.add(v.id)
                ob = it.obj(self.o.state, v)
                if ob.kind == 'inst':
                    for x in ob.attrs.values():
                        visit(x)
                elif ob.kind == 'list':
                    for x in ob.items:
                        visit(x)
                elif ob.kind == 'dict':
                    for k, x in ob.items:
                        visit(k)
                        visit(x)
            elif isinstance(v, tuple):
                for x in v:
                    visit(x)
            elif isinstance(v, Sym):
                out.append(v)
                for t in T.subterms(v):
                    for a in t.args:
                        if isinstance(a, T.Ref):
                            visit(a)
        visit(self.value)
        return out


def split_returns(o, it, data):
    """A return whose object component is a conditional over several
    objects (a helper's joined result) is split into one virtual return per
    object, each with the knowledge of its arm (the facts of each arm were
    kept as implications at the join and fire when the guard is assumed)."""
    v = o.value
    if not (isinstance(v, tuple) and len(v) == 3 and isinstance(v[2], Sym)
            and v[2].op in ('cond', 'dyncall')):
        return [Ret(o, it, data)]
    leaves = []

    def walk(t, guards):
        if isinstance(t, Sym) and t.op == 'cond' and len(leaves) < 160:
            walk(t.args[1], guards + [t.args[0]])
            walk(t.args[2], guards + [T.not_(t.args[0])])
        elif isinstance(t, Sym) and t.op == 'dyncall' and len(leaves) < 160:
            # a call through a dispatch table with a run-time key: one
            # result per key
            for k_, alt in t.args[2]:
                walk(alt, guards + [T.compare('eq', t.args[1], k_)])
        else:
            leaves.append((guards, t))
    walk(v[2], [])
    out = []
    for guards, leaf in leaves:
        st = o.state.fork()
        feasible = True
        for g in guards:
            if not st.kn.assume(g):
                feasible = False
                break
        if not feasible:
            continue
        n = T.simplify(v[0], st.kn) if isinstance(v[0], Sym) else v[0]
        ch = T.simplify(v[1], st.kn) if isinstance(v[1], Sym) else v[1]
        from .interp import Outcome
        out.append(Ret(Outcome('return', st, value=(n, ch, leaf)), it,
                       data))
    return out or [Ret(o, it, data)]


class HeaderView:
    """The envelope header as read by the decoder."""

    def __init__(self, hreads):
        self.hreads = hreads
        self.size = 7
        self.fmts = sorted({r.fmt for r in hreads.values()})
        self.args = (self.fmts[0] if len(self.fmts) == 1 else
                     '+'.join(self.fmts),)

    def norm_ok(self):
        """unsigned, big-endian, widths 1/2/4 at offsets 0/1/3"""
        return all(r.signed is False and (r.size == 1 or r.order == 'big')
                   for r in self.hreads.values())

    def describe(self):
        return ', '.join('%s@%s %s%d' % (r.fmt, r.offset,
                                         's' if r.signed else 'u',
                                         8 * r.size)
                         for r in self.hreads.values())


class UnmarshalFacts:
    def __init__(self, ctx, key=None, assume_type=None):
        self.ctx = ctx
        prog = ctx.prog
        self.pol = L.KeyPolicy(prog, 'commands.INDEX_MAPPING', key,
                               assume_type)
        self.data = codec.buf('data_in')
        self.pol.data = self.data
        self.it, self.outs, _ = L.run_unmarshal(ctx, self.pol, self.data)
        self.rets = []
        for o in self.outs:
            if o.kind == 'return':
                self.rets.extend(split_returns(o, self.it, self.data))
        self.raises = [o for o in self.outs if o.kind == 'raise']
        self.header = self.find_header()

    def find_header(self):
        """The reads of the three envelope header fields, located by their
        absolute offsets (type at 0, channel at 1, size at 3) so that one
        combined unpack and three separate reads are treated alike.
        Returns a small object with .size / .args for compatibility, or
        None when no type-field read exists."""
        from . import pairs
        cands = {0: {}, 1: {}, 3: {}}
        want = {0: 1, 1: 2, 3: 4}
        for r in self.rets:
            xs = [a for a in r.kn.atoms if isinstance(a, Sym)]
            if r.ok_shape:
                xs += [x for x in (r.n, r.ch) if isinstance(x, Sym)]
            for rd in pairs.find_reads(tuple(xs), self.data).values():
                off = rd.offset
                if isinstance(off, int) and off in want and \
                        rd.size == want[off] and rd.fkind == 'int':
                    cands[off][rd.term] = cands[off].get(rd.term, 0) + 1
        self.hreads = {}
        for off, idx in ((0, 0), (1, 1), (3, 2)):
            if cands[off]:
                term = max(cands[off], key=lambda t: cands[off][t])
                self.hreads[idx] = pairs.find_reads(term, self.data)[term]
        if len(self.hreads) != 3:
            return None
        return HeaderView(self.hreads)

    def hfield(self, i):
        return self.hreads[i].term

    def kind_of(self, r):
        prog = self.ctx.prog
        if r.cls is None:
            return None
        if r.cls is prog.cls('header.ProtocolHeader'):
            return 'protocol'
        if r.cls is prog.cls('header.ContentHeader'):
            return 'header'
        if r.cls is prog.cls('body.ContentBody'):
            return 'body'
        if r.cls is prog.cls('heartbeat.Heartbeat'):
            return 'heartbeat'
        if prog.is_subclass(r.cls, prog.cls('base.Frame')):
            return 'method'
        return 'other'


def data_uses(terms, data):
    """Classify every occurrence of the buffer in the given terms:
    -> list of (kind, lo, hi, term) with kind in len / slice / index /
    bare."""
    uses = []
    seen = set()
    for root in terms:
        for t in T.subterms(root):
            if t in seen:
                continue
            seen.add(t)
            if t is data:
                continue
            if t.op == 'lin':
                children = [x for x, _ in t.args[1]]
            else:
                children = list(t.args)
            flat = []
            for c in children:
                if isinstance(c, tuple):
                    flat.extend(c)
                else:
                    flat.append(c)
            for pos, c in enumerate(flat):
                if c is not data:
                    continue
                if t.op == 'len':
                    uses.append(('len', None, None, t))
                elif t.op == 'slice' and pos == 0:
                    uses.append(('slice', t.args[1], t.args[2], t))
                elif t.op == 'index' and pos == 0:
                    uses.append(('index', t.args[1], None, t))
                elif t.op == 'ok' and t.args[0] == 'unpack_from':
                    f = T.fmt(t.args[1])
                    uses.append(('slice', t.args[3],
                                 T.add(t.args[3], f.size), t))
                else:
                    uses.append(('bare', None, None, t))
    return uses


def unread_header_octets(f):
    """Octets 0..6 of the buffer that no successful non-protocol-header
    return of frame.unmarshal looks at (neither its result nor its path
    conditions contain a view covering them).  Empty when every octet is
    covered or when the buffer is used in a way that cannot be bounded."""
    unread = None
    for r in f.rets:
        if f.kind_of(r) in (None, 'protocol', 'other'):
            continue
        def magic_test(a):
            # data[i:j] ==/!= b'...' : tells the protocol header apart, it
            # does not take a field value out of those octets
            while isinstance(a, Sym) and a.op == 'not':
                a = a.args[0]
            return isinstance(a, Sym) and a.op in ('eq', 'ne') and \
                isinstance(a.args[0], Sym) and a.args[0].op == 'slice' and \
                isinstance(a.args[1], bytes)
        terms = r.reachable_terms(f.it) + [
            a for a in r.kn.atoms if isinstance(a, Sym) and
            not magic_test(a)]
        covered = set()
        for ukind, lo, hi, _t in data_uses(terms, f.data):
            if ukind == 'len':
                continue
            if ukind == 'index' and isinstance(lo, int):
                covered.add(lo)
            elif ukind == 'slice' and isinstance(lo, int) and lo >= 0:
                top = hi if isinstance(hi, int) and hi >= 0 else 7
                covered.update(range(lo, min(top, 7)))
            elif ukind in ('index', 'slice') and lo is not None and \
                    not isinstance(lo, int) and \
                    (r.kn.lin_interval(lo)[0] or 0) >= 7:
                continue  # a position behind the header
            else:
                return set()  # whole buffer / unbounded position
        miss = set(range(7)) - covered
        unread = miss if unread is None else (unread & miss)
    return unread or set()


def header_or_violation(chk, rule, f, what='frame.unmarshal'):
    """True when the three envelope header reads were found.  Otherwise:
    a header octet that no successful decode looks at is reported as a
    violation (what it carries cannot come back); if every octet is looked
    at but not in a recognised form, the analysis stops undecided."""
    if f.header is not None:
        return True
    miss = unread_header_octets(f)
    if miss:
        names = {0: 'type', 1: 'channel', 2: 'channel', 3: 'size',
                 4: 'size', 5: 'size', 6: 'size'}
        chk.ob(rule, 'envelope header octets read', False,
               'octet(s) %s of the 7-octet frame header (%s) are never '
               'looked at on a successful decode: what the sender wrote '
               'there cannot come back' % (
                   sorted(miss), ', '.join(sorted({names[i] for i in miss}))),
               site='pamqp/frame.py::unmarshal')
        return False
    raise AnalysisError('no envelope header read (u8 type @0, u16 channel '
                        '@1, u32 size @3) found in %s' % what)


def end_octet_guarded(kn, data, last, fe, fe_char):
    """Do the path facts include data[last] == FRAME_END, in either of the
    two spellings (index compare or one-byte slice compare)?"""
    if kn.decide(T.compare('eq', T.index(data, last), fe)) is True:
        return True
    sl = T.slice_(data, last, T.add(last, 1))
    if isinstance(fe_char, bytes) and \
            kn.decide(T.compare('eq', sl, fe_char)) is True:
        return True
    return False


def validation_on_receive(ctx):
    """Who-may-call rule shared by C05.V / C13.N: on the receive path
    validate() may only run inside the default construction of the object,
    never below a class-level unmarshal method (i.e. on decoded values).
    -> (number of validate activations, [offending call chains])"""
    bad = []
    nval = 0
    keys = [k for k, _ in ctx.index_mapping()]
    runs = [UnmarshalFacts(ctx, None)] + [
        UnmarshalFacts(ctx, k, assume_type=1) for k in keys]
    for f in runs:
        for callee, chain, _seq, _d in f.it.calls:
            name = callee.split(' ')[0]
            if not name.endswith('.validate'):
                continue
            nval += 1
            in_init = any(c.endswith('.__init__') for c in chain)
            below_unmarshal = any(c.endswith('.unmarshal') and
                                  c.count('.') >= 2 for c in chain)
            if not in_init or below_unmarshal:
                bad.append('%s via %s' % (name, ' <- '.join(
                    reversed(chain))))
    return nval, sorted(set(bad))
