"""Path facts of frame.unmarshal shared by C06, C07, C09, C18, C20: every
return / raise outcome of the abstract interpretation with its path
knowledge, classified by frame kind."""
from . import codec
from . import interp as I
from . import layout as L
from . import terms as T
from .model import AnalysisError, ClassInfo
from .terms import Sym

ENVELOPE = ('big', ((1, False, 'int'), (2, False, 'int'), (4, False,
                                                          'int')))


class Ret:
    def __init__(self, o, it, data):
        self.o = o
        self.kn = o.state.kn
        self.value = o.value
        self.ok_shape = isinstance(o.value, tuple) and len(o.value) == 3
        self.n = self.ch = self.obj = None
        self.cls = None
        self.objv = None
        if self.ok_shape:
            self.n, self.ch, self.objv = o.value
            if isinstance(self.objv, T.Ref):
                ob = it.obj(o.state, self.objv)
                self.obj = ob
                if ob.kind == 'inst':
                    self.cls = ob.cls

    def reachable_terms(self, it):
        """All terms stored in the result object graph."""
        out = []
        seen = set()

        def visit(v):
            if isinstance(v, T.Ref):
                if v.id in seen:
                    return
                seen.add(v.id)
                ob = it.obj(self.o.state, v)
                if ob.kind == 'inst':
                    for x in ob.attrs.values():
                        visit(x)
                elif ob.kind == 'list':
                    for x in ob.items:
                        visit(x)
                elif ob.kind == 'dict':
                    for k, x in ob.items:
                        visit(k)
                        visit(x)
            elif isinstance(v, tuple):
                for x in v:
                    visit(x)
            elif isinstance(v, Sym):
                out.append(v)
                for t in T.subterms(v):
                    for a in t.args:
                        if isinstance(a, T.Ref):
                            visit(a)
        visit(self.value)
        return out


class UnmarshalFacts:
    def __init__(self, ctx, key=None, assume_type=None):
        self.ctx = ctx
        prog = ctx.prog
        self.pol = L.KeyPolicy(prog, 'commands.INDEX_MAPPING', key,
                               assume_type)
        self.data = codec.buf('data_in')
        self.pol.data = self.data
        self.it, self.outs, _ = L.run_unmarshal(ctx, self.pol, self.data)
        self.rets = [Ret(o, self.it, self.data) for o in self.outs
                     if o.kind == 'return']
        self.raises = [o for o in self.outs if o.kind == 'raise']
        self.header = self.find_header()

    def find_header(self):
        """The unpack term reading the envelope header data[0:k]."""
        cands = {}
        for r in self.rets:
            xs = list(r.kn.atoms)
            if r.ok_shape:
                xs += [x for x in (r.n, r.ch) if isinstance(x, Sym)]
            for t in T.subterms(tuple(xs)):
                if t.op == 'unpack':
                    rr = L.abs_range(t.args[1], self.data)
                    if rr is not None and rr[0] == 0 and \
                            len(T.fmt(t.args[0]).values) == 3:
                        cands[t] = cands.get(t, 0) + 1
        if not cands:
            return None
        return max(cands, key=lambda t: cands[t])

    def hfield(self, i):
        return T.index(self.header, i)

    def kind_of(self, r):
        prog = self.ctx.prog
        if r.cls is None:
            return None
        if r.cls is prog.cls('header.ProtocolHeader'):
            return 'protocol'
        if r.cls is prog.cls('header.ContentHeader'):
            return 'header'
        if r.cls is prog.cls('body.ContentBody'):
            return 'body'
        if r.cls is prog.cls('heartbeat.Heartbeat'):
            return 'heartbeat'
        if prog.is_subclass(r.cls, prog.cls('base.Frame')):
            return 'method'
        return 'other'


def data_uses(terms, data):
    """Classify every occurrence of the buffer in the given terms:
    -> list of (kind, lo, hi, term) with kind in len / slice / index /
    bare."""
    uses = []
    seen = set()
    for root in terms:
        for t in T.subterms(root):
            if t in seen:
                continue
            seen.add(t)
            if t is data:
                continue
            if t.op == 'lin':
                children = [x for x, _ in t.args[1]]
            else:
                children = list(t.args)
            flat = []
            for c in children:
                if isinstance(c, tuple):
                    flat.extend(c)
                else:
                    flat.append(c)
            for pos, c in enumerate(flat):
                if c is not data:
                    continue
                if t.op == 'len':
                    uses.append(('len', None, None, t))
                elif t.op == 'slice' and pos == 0:
                    uses.append(('slice', t.args[1], t.args[2], t))
                elif t.op == 'index' and pos == 0:
                    uses.append(('index', t.args[1], None, t))
                elif t.op == 'ok' and t.args[0] == 'unpack_from':
                    f = T.fmt(t.args[1])
                    uses.append(('slice', t.args[3],
                                 T.add(t.args[3], f.size), t))
                else:
                    uses.append(('bare', None, None, t))
    return uses


def end_octet_guarded(kn, data, last, fe, fe_char):
    """Do the path facts include data[last] == FRAME_END, in either of the
    two spellings (index compare or one-byte slice compare)?"""
    if kn.decide(T.compare('eq', T.index(data, last), fe)) is True:
        return True
    sl = T.slice_(data, last, T.add(last, 1))
    if isinstance(fe_char, bytes) and \
            kn.decide(T.compare('eq', sl, fe_char)) is True:
        return True
    return False
