"""Library models: transfer functions and raise sets for the stdlib
operations the codec uses (DESIGN.md section 4, trusted base item 2).

Every model says what value an operation yields on abstract arguments and
which exceptions it may raise (pushed to the interpreter's pending list with
the condition, when the condition is expressible).
"""
import ast
import re as _re
import struct as _struct

from . import terms as T
from .model import AnalysisError, ClassInfo, FuncInfo, ModuleInfo
from .terms import Sym, Ref

# lazily bound to avoid an import cycle
I = None


def _i():
    global I
    if I is None:
        from . import interp as _interp
        I = _interp
    return I


def E(path):
    return _i().Ext(path)


TYPE_NAMES = {
    'builtins.int': 'int', 'builtins.bool': 'bool', 'builtins.str': 'str',
    'builtins.bytes': 'bytes', 'builtins.bytearray': 'bytearray',
    'builtins.float': 'float', 'builtins.list': 'list',
    'builtins.dict': 'dict', 'builtins.tuple': 'tuple',
    'builtins.NoneType': 'NoneType', 'builtins.set': 'set',
    'builtins.frozenset': 'frozenset',
    'decimal.Decimal': 'Decimal', 'datetime.datetime': 'datetime',
    'time.struct_time': 'struct_time', 'datetime.date': 'date',
    'builtins.object': 'object', 'builtins.memoryview': 'memoryview',
}
# subtype facts among the builtin types that matter (DESIGN C03.D)
SUBTYPES = {'bool': {'bool', 'int', 'object'},
            'datetime': {'datetime', 'date', 'object'},
            'struct_time': {'struct_time', 'tuple', 'object'}}


def supertypes(name):
    return SUBTYPES.get(name, {name, 'object'})


# time-zone dependence classification (C15) -- consulted by rules
TZ_DEPENDENT_CALLS = {
    'time.mktime', 'time.localtime', 'time.ctime', 'time.asctime',
    'time.strftime', 'time.tzset', 'datetime.datetime.now',
    'datetime.datetime.today', 'datetime.date.today',
    'datetime.datetime.utcfromtimestamp', 'datetime.datetime.utcnow',
    'time.time', 'time.gmtime',
}

# nondeterministic primitives (C12.D)
NONDETERMINISTIC = {
    'time.time', 'time.monotonic', 'time.perf_counter', 'time.time_ns',
    'random.random', 'random.randint', 'random.choice', 'random.shuffle',
    'os.urandom', 'os.getpid', 'os.environ', 'os.getenv', 'uuid.uuid4',
    'uuid.uuid1', 'builtins.id', 'builtins.hash', 'datetime.datetime.now',
    'datetime.datetime.utcnow', 'datetime.datetime.today', 'secrets.token_bytes',
}

# ambient process / thread state a codec result must not depend on (C16.E);
# a dotted prefix matches the name and everything below it
AMBIENT_STATE = (NONDETERMINISTIC - {'builtins.id', 'builtins.hash'}) | {
    'decimal.getcontext', 'decimal.setcontext', 'decimal.localcontext',
    'decimal.DefaultContext', 'decimal.BasicContext',
    'decimal.ExtendedContext', 'locale', 'random', 'secrets', 'os.environ',
    'os.getenv', 'os.putenv', 'os.getcwd', 'os.getpid', 'os.urandom',
    'threading.local', 'threading.current_thread', 'threading.get_ident',
    'threading.main_thread', 'threading.active_count', 'contextvars',
    'sys.argv', 'sys.flags', 'sys.getrecursionlimit',
    'sys.setrecursionlimit', 'sys.getdefaultencoding',
    'sys.getfilesystemencoding', 'sys.modules', 'sys.path',
    'time.time', 'time.time_ns', 'time.monotonic', 'time.perf_counter',
    'time.process_time', 'time.localtime', 'time.mktime', 'time.tzset',
    'time.timezone', 'time.altzone', 'time.daylight', 'time.tzname',
    'datetime.datetime.now', 'datetime.datetime.today',
    'datetime.datetime.utcnow', 'datetime.date.today', 'uuid.uuid1',
    'uuid.uuid4', 'uuid.getnode', 'socket.gethostname', 'platform',
    'gc', 'weakref', 'atexit', 'signal', 'functools.lru_cache',
    'warnings.catch_warnings', 'warnings.simplefilter',
    'warnings.filterwarnings', 'warnings.resetwarnings', 'warnings.filters',
    'logging.basicConfig', 'logging.disable', 'sys.setprofile',
    'sys.settrace', 'sys.set_int_max_str_digits',
    'functools.cache', 'functools.cached_property',
}


TRANSPARENT_DECORATORS = {
    'builtins.classmethod', 'builtins.staticmethod', 'builtins.property',
    'contextlib.contextmanager', 'typing.overload', 'typing.final',
    'typing.no_type_check', 'abc.abstractmethod', 'functools.wraps',
}
# decorators that replace the function by a dispatcher the analysis has no
# model for: calling the decorated name is undecidable
DISPATCHING_DECORATORS = {'functools.singledispatch',
                          'functools.singledispatchmethod'}
CACHING_DECORATORS = {
    'functools.lru_cache', 'functools.cache', 'functools.cached_property',
}


INT_STR_LIMIT = 10 ** 4300  # sys.get_int_max_str_digits() default


def bytes_to_text(interp, v, state, node):
    """str() of a bytes value (explicitly or through '{}' / '%s' / an
    f-string field without !r) raises BytesWarning when the interpreter
    runs with -bb.  Only modelled in that reading of the program."""
    if not _i().BYTES_WARNINGS:
        return
    t = {'bytes'} if isinstance(v, (bytes, bytearray)) else (
        (state.kn.type_of(v) or T.typeof(v)) if isinstance(v, Sym)
        else None)
    if t is not None and t <= {'bytes', 'bytearray'}:
        interp.raise_pending(state, E('builtins.BytesWarning'), node,
                             'str() on a bytes instance (python -bb)')


def int_to_text(interp, v, state, node, what):
    """Converting an int to decimal text (str, repr, '{}', '%s', '%d',
    f-string) raises ValueError beyond 4300 digits (CPython >= 3.11).  The
    value must be known to be an int and not known to be small."""
    if isinstance(v, (Ref, tuple)) or not isinstance(v, Sym):
        return
    t = state.kn.type_of(v)
    if t is None or not t <= {'int'}:
        return
    lo, hi = state.kn.lin_interval(v)
    if lo is None or hi is None:
        iv = T.interval(v, state.kn)
        lo = iv[0] if lo is None else lo
        hi = iv[1] if hi is None else hi
    if lo is not None and hi is not None and -INT_STR_LIMIT < lo and \
            hi < INT_STR_LIMIT:
        return
    interp.raise_pending(state, E('builtins.ValueError'), node,
                         '%s of an int of unbounded size exceeds the '
                         'integer string conversion limit' % what)


def _format_fields(template):
    """[(positional index | name, conversion is decimal text?)] of a
    str.format template; None when it cannot be parsed."""
    import string
    out = []
    auto = 0
    try:
        for _lit, field, spec, conv in string.Formatter().parse(template):
            if field is None:
                continue
            key = field.split('.')[0].split('[')[0]
            if key == '':
                key = auto
                auto += 1
            elif key.isdigit():
                key = int(key)
            plain = field == str(key) or field == ''
            binary = bool(spec) and spec[-1:] in 'xXob' and conv is None
            out.append((key, plain and not binary, conv))
    except ValueError:
        return None
    return out


def format_conversions(interp, template, args, kwargs, state, node):
    fields = _format_fields(template)
    if fields is None:
        return
    for key, decimal_text, conv in fields:
        v = None
        if isinstance(key, int) and key >= len(args):
            # more replacement fields than arguments
            interp.raise_pending(state, E('builtins.IndexError'), node,
                                 'str.format: replacement index %d out of '
                                 'range for %d argument(s)' %
                                 (key, len(args)), cond=True)
            raise _i()._NoReturn()
        if isinstance(key, str) and key not in kwargs:
            interp.raise_pending(state, E('builtins.KeyError'), node,
                                 'str.format: no argument named %r' % key,
                                 cond=True)
            raise _i()._NoReturn()
        if isinstance(key, int) and key < len(args):
            v = args[key]
        elif isinstance(key, str):
            v = kwargs.get(key)
        if conv in ('r', 'a'):
            repr_of_caught(interp, v, node)
        elif v is not None:
            bytes_to_text(interp, v, state, node)
        if v is not None and decimal_text:
            int_to_text(interp, v, state, node, 'str.format')


def percent_conversions(interp, template, operand, state, node):
    vals = list(operand) if isinstance(operand, tuple) else [operand]
    specs = _re.findall(r'%(?:\([^)]*\))?[#0\- +]*(?:\*|\d+)?'
                        r'(?:\.(?:\*|\d+))?[hlL]?([a-zA-Z%])', template)
    specs = [c for c in specs if c != '%']
    for c, v in zip(specs, vals):
        if c in 'sdirau':
            int_to_text(interp, v, state, node, "'%%%s' formatting" % c)
        if c in 'ra':
            repr_of_caught(interp, v, node)
        if c == 's':
            bytes_to_text(interp, v, state, node)


def repr_of_caught(interp, v, node):
    """repr() of a caught exception (its message re-quoted and
    re-escaped): recorded as an effect; inside a recursive decoder the text
    grows by a factor with every nesting level."""
    if isinstance(v, Sym) and v.op == 'caught':
        interp.effect('repr-of-caught', v, interp.cur_func.short
                      if interp.cur_func else None, node)


def decorator_path(prog, mi, d):
    import ast as _ast
    node = d.func if isinstance(d, _ast.Call) else d
    try:
        tgt = prog.resolve_static(mi, node, mi)
    except Exception:
        return None
    return tgt[1] if isinstance(tgt, tuple) and tgt and tgt[0] == 'ext' \
        else None


def decorator_kind(prog, mi, d):
    """'transparent' (the call runs the body each time), 'caching' (the
    result may come from an earlier call) or 'unknown'."""
    import ast as _ast
    node = d.func if isinstance(d, _ast.Call) else d
    try:
        tgt = prog.resolve_static(mi, node, mi)
    except Exception:
        tgt = None
    path = tgt[1] if isinstance(tgt, tuple) and tgt and tgt[0] == 'ext' \
        else None
    if path is None and isinstance(node, _ast.Name) and \
            node.id in ('classmethod', 'staticmethod', 'property'):
        path = 'builtins.' + node.id
    if path in TRANSPARENT_DECORATORS:
        return 'transparent'
    if path in CACHING_DECORATORS:
        return 'caching'
    from .model import FuncInfo as _FI
    if isinstance(tgt, _FI) and _returns_its_argument(
            tgt.node, factory=isinstance(d, _ast.Call)):
        # a decorator of the package that hands the function back (it may
        # register it somewhere first): calls run the function itself
        return 'transparent'
    if isinstance(node, _ast.Attribute) and \
            node.attr in ('setter', 'getter', 'deleter'):
        return 'transparent'
    return 'unknown'


def _returns_its_argument(fnode, factory=False):
    """Does the function return its first parameter on every return
    (factory: does it return a nested function that does)?"""
    import ast as _ast
    if not isinstance(fnode, _ast.FunctionDef):
        return False

    def own_returns(fn):
        out = []
        stack = list(fn.body)
        while stack:
            n = stack.pop()
            if isinstance(n, (_ast.FunctionDef, _ast.AsyncFunctionDef,
                              _ast.Lambda, _ast.ClassDef)):
                continue
            if isinstance(n, _ast.Return):
                out.append(n)
            stack.extend(_ast.iter_child_nodes(n))
        return out
    rets = own_returns(fnode)
    if not rets:
        return False
    if not factory:
        params = fnode.args.posonlyargs + fnode.args.args
        if not params:
            return False
        return all(isinstance(r.value, _ast.Name) and
                   r.value.id == params[0].arg for r in rets)
    inner = {n.name: n for n in fnode.body
             if isinstance(n, _ast.FunctionDef)}
    return all(isinstance(r.value, _ast.Name) and r.value.id in inner and
               _returns_its_argument(inner[r.value.id]) for r in rets)


def wrappers(prog, funcs):
    """-> (caching, unknown): 'short: @text' for the decorated ones."""
    import ast as _ast
    caching, unknown = [], []
    for fi in funcs:
        for d in getattr(fi.node, 'decorator_list', []):
            k = decorator_kind(prog, fi.module, d)
            txt = '%s: @%s' % (fi.short, _ast.unparse(d))
            if k == 'caching':
                caching.append(txt)
            elif k == 'unknown':
                unknown.append(txt)
    return caching, unknown


def known_library_name(path):
    """Library functions the analysis has a classification for (what they
    may raise / that they consult ambient state / that their result is an
    opaque value computed from the arguments only)."""
    return path in EXT_RAISES or path in PURE_EXT or \
        path in TZ_DEPENDENT_CALLS or path in NONDETERMINISTIC or \
        ambient(path) or path in OPAQUE_PURE


# pure functions of their arguments whose result the analysis keeps as an
# opaque term (no effect on the arguments, no ambient state)
OPAQUE_PURE = {
    'builtins.int.from_bytes', 'builtins.bytes.fromhex', 'builtins.float',
    'builtins.complex', 'builtins.bytes.hex', 'builtins.ascii',
    'builtins.callable', 'builtins.slice', 'math.floor', 'math.ceil',
    'math.trunc', 'math.log10', 'math.isnan', 'math.isinf', 'math.isfinite',
    'math.copysign', 'math.fabs', 'decimal.Context', 'fractions.Fraction',
    'datetime.date', 'datetime.time', 'datetime.datetime.combine',
    'datetime.datetime.strptime', 'datetime.datetime.fromisoformat',
    'calendar.timegm', 'time.gmtime', 'time.struct_time', 'codecs.decode',
    'codecs.encode', 'binascii.hexlify', 'binascii.unhexlify',
    'unicodedata.normalize', 'copy.copy', 'copy.deepcopy',
    'collections.OrderedDict', 'collections.namedtuple',
    'collections.deque', 'collections.Counter', 'collections.defaultdict',
    'types.MappingProxyType', 'enum.Enum', 'enum.IntEnum',
}


def ambient(path):
    if not isinstance(path, str):
        return False
    parts = path.split('.')
    return any('.'.join(parts[:i]) in AMBIENT_STATE
               for i in range(1, len(parts) + 1))


MUTATING_METHODS = {
    'append', 'extend', 'insert', 'pop', 'remove', 'clear', 'sort',
    'reverse', 'update', 'setdefault', 'popitem', 'add', 'discard',
    '__setitem__', '__delitem__', '__iadd__', 'difference_update',
    'intersection_update', 'symmetric_difference_update',
}


def ext_value(interp, path):
    """Value of a dotted name outside the package."""
    if path == 'builtins.True':
        return True
    if path == 'builtins.False':
        return False
    if path == 'builtins.None':
        return None
    ov = operator_value(path)
    if ov is not None:
        return ov
    return E(path)


# ---------------------------------------------------------------------------
# attribute access on library values


def lib_attr(interp, base, name, state, node, default):
    Ext, StructV, RegexV, LibMethod = _i().Ext, _i().StructV, _i().RegexV, \
        _i().LibMethod
    if isinstance(base, Ext):
        ov = operator_value(base.path + '.' + name)
        if ov is not None:
            return ov
        return Ext(base.path + '.' + name)
    if isinstance(base, StructV):
        if name == 'size':
            return T.fmt(base.fmt).size
        if name == 'format':
            return base.fmt
        return LibMethod(base, name)
    if isinstance(base, RegexV):
        if name == 'pattern':
            return base.pattern
        return LibMethod(base, name)
    if isinstance(base, (str, bytes, int, float, tuple, frozenset)) or \
            base is None:
        if isinstance(base, tuple) and name in ('count', 'index'):
            return LibMethod(base, name)
        if hasattr(base, name):
            return LibMethod(base, name)
        interp.raise_pending(state, Ext('builtins.AttributeError'), node,
                             '%r has no attribute %s' % (base, name),
                             cond=True)
        raise _i()._NoReturn()
    if isinstance(base, Sym):
        if base.op == 'caught' and name == 'args':
            return Sym('attr', base, name)
        return LibMethod(base, name) if _is_method_name(base, name) else \
            Sym('attr', base, name)
    if isinstance(base, (_i().Bound, FuncInfo, _i().Closure)):
        if name in ('__name__', '__doc__', '__qualname__'):
            return Sym('attr', Sym('funcobj', getattr(base, 'qualname',
                                                      '?')), name)
        interp.effect('function-attribute', getattr(base, 'qualname', '?'),
                      name, node)
        return Sym('attr', Sym('funcobj', getattr(base, 'qualname', '?')),
                   name)
    raise _i().Unsupported('attribute %s of %r at %s' %
                           (name, base, interp.site(node)))


_DATA_ATTRS = {'exponent', 'sign', 'digits', 'tzinfo', 'year', 'month', 'day', 'hour', 'minute', 'second',
               'microsecond', 'args', 'real', 'imag', 'numerator',
               'denominator', 'tm_year', 'tm_mon', 'tm_mday', 'tm_hour',
               'tm_min', 'tm_sec', 'tm_isdst', 'tm_zone', 'tm_gmtoff',
               'tm_wday', 'tm_yday', 'value', 'name', 'index', 'flags',
               'frame_id'}


def _is_method_name(base, name):
    if name.startswith('__') and name.endswith('__'):
        return False
    return name not in _DATA_ATTRS


# ---------------------------------------------------------------------------
# calls


# leading parameters of library callables that may also be passed by
# keyword: the call is analysed in its positional spelling
LIB_SIGNATURES = {
    'datetime.datetime.fromtimestamp': ('timestamp',),
    'datetime.datetime.utcfromtimestamp': ('timestamp',),
    'decimal.Decimal': ('value', 'context'),
    'calendar.timegm': ('tuple',),
    'struct.pack': ('format',), 'struct.unpack': ('format', 'buffer'),
    'struct.unpack_from': ('format', 'buffer', 'offset'),
    'struct.Struct': ('format',), 're.compile': ('pattern', 'flags'),
    'builtins.int.from_bytes': ('bytes', 'byteorder'),
    'builtins.sorted': ('iterable',), 'builtins.sum': ('iterable', 'start'),
    'builtins.bytes': ('source', 'encoding', 'errors'),
    'builtins.str': ('object', 'encoding', 'errors'),
    'builtins.int': ('x', 'base'), 'builtins.round': ('number', 'ndigits'),
    'warnings.warn': ('message', 'category'),
    'functools.reduce': ('function', 'iterable', 'initial'),
}
METHOD_SIGNATURES = {
    'decode': ('encoding', 'errors'), 'encode': ('encoding', 'errors'),
    'unpack': ('buffer',), 'unpack_from': ('buffer', 'offset'),
    'to_bytes': ('length', 'byteorder'),
    'fullmatch': ('string',), 'match': ('string',), 'search': ('string',),
    'split': ('sep', 'maxsplit'), 'rsplit': ('sep', 'maxsplit'),
    'scaleb': ('other',), 'quantize': ('exp',), 'astimezone': ('tz',),
    'startswith': ('prefix',), 'endswith': ('suffix',),
}


def _positional(names, args, kwargs):
    if not kwargs or not names:
        return args, kwargs
    args2, kw = list(args), dict(kwargs)
    while len(args2) < len(names) and names[len(args2)] in kw:
        args2.append(kw.pop(names[len(args2)]))
    return args2, kw


def call_lib(interp, callee, args, kwargs, state, node):
    Ext, StructV, RegexV, LibMethod = _i().Ext, _i().StructV, _i().RegexV, \
        _i().LibMethod
    if isinstance(callee, Ext):
        args, kwargs = _positional(LIB_SIGNATURES.get(callee.path), args,
                                   kwargs)
        fn = _EXT_CALLS.get(callee.path)
        if fn is not None:
            return fn(interp, args, kwargs, state, node)
        return generic_ext_call(interp, callee, args, kwargs, state, node)
    if isinstance(callee, LibMethod):
        return call_method(interp, callee.recv, callee.name, args, kwargs,
                           state, node)
    if isinstance(callee, Sym):
        if callee.op == 'tableget':
            return dispatch_call(interp, callee, args, kwargs, state, node)
        interp.note('call of unknown value %s at %s' %
                    (T.show(callee), interp.site(node)))
        return Sym('call', callee, tuple(_t(a) for a in args),
                   tuple(sorted((k, _t(v)) for k, v in kwargs.items())))
    if callee is None or isinstance(callee, (int, str, bytes, float, tuple)):
        interp.raise_pending(state, Ext('builtins.TypeError'), node,
                             '%r is not callable' % (callee,), cond=True)
        raise _i()._NoReturn()
    raise _i().Unsupported('call of %r at %s' % (callee, interp.site(node)))


def _t(x):
    return _i()._as_term(x)


def dispatch_call(interp, callee, args, kwargs, state, node):
    """Call through ``TABLE[key]`` with a run-time key: analyse every
    function value of the table and join."""
    table_ref, keyterm = callee.args
    o = interp.obj(state, table_ref)
    depth = len(state.kn.atoms)
    base = state
    results = []
    seen = []
    for k, fnv in o.items:
        s = base.fork()
        g = T.compare('eq', keyterm, k)
        if not s.kn.assume(g):
            continue
        try:
            v = interp.call_value(fnv, list(args), dict(kwargs), s, node)
        except _i()._NoReturn:
            continue
        results.append(_i().Outcome('return', s, value=v))
        seen.append(k)
    if not results:
        raise _i()._NoReturn()
    j = interp._fold_join(results) if len(results) > 1 else results[0]
    state.store, state.kn = j.state.store, j.state.kn
    # the joined value is a dispatch term; keep per-target values for rules
    return Sym('dyncall', table_ref, keyterm,
               tuple((k, _t(r.value)) for k, r in zip(seen, results)))


def generic_ext_call(interp, callee, args, kwargs, state, node):
    path = callee.path
    if path == 'builtins.object' and not args and not kwargs:
        # a sentinel: one object per creation site, identical to itself only
        return Sym('newobject', interp.site(node))
    if path in ('builtins.repr', 'builtins.ascii') and args:
        repr_of_caught(interp, args[0], node)
    if _i().exc_name(callee) in _i()._EXC_PARENT:
        return Sym('excinst', callee, tuple(_t(a) for a in args))
    for et, why in EXT_RAISES.get(path, ()):
        interp.raise_pending(state, E(et), node, why)
    if path not in EXT_RAISES and path not in PURE_EXT:
        if not known_library_name(path):
            # nothing is known about what this function does to its
            # arguments or what it returns: whatever follows is undecidable
            raise _i().Unsupported('library call without a model: %s at %s'
                                   % (path, interp.site(node)))
        interp.note('unmodelled library call %s at %s' %
                    (path, interp.site(node)))
    return Sym('extcall', path, tuple(_t(a) for a in args),
               tuple(sorted((k, _t(v)) for k, v in kwargs.items())))


# raise sets of library calls that have no dedicated transfer function
EXT_RAISES = {
    'datetime.datetime.fromtimestamp': (
        ('builtins.ValueError', 'timestamp out of range for datetime'),
        ('builtins.OverflowError', 'timestamp out of range for C time_t'),
        ('builtins.OSError', 'platform localtime()/gmtime() failure')),
    'datetime.datetime.utcfromtimestamp': (
        ('builtins.ValueError', 'timestamp out of range'),
        ('builtins.OverflowError', 'timestamp out of range'),
        ('builtins.OSError', 'platform gmtime() failure')),
    'calendar.timegm': (),
    'time.mktime': (('builtins.OverflowError', 'mktime out of range'),),
    'decimal.Decimal': (),
    'logging.getLogger': (),
    'warnings.warn': (),
    'datetime.timezone': (),
    'datetime.timedelta': (
        ('builtins.OverflowError', 'timedelta argument out of range'),),
    'datetime.datetime': (
        ('builtins.ValueError', 'datetime field out of range'),),
}
PURE_EXT = {'typing.cast', 'builtins.object', 'builtins.print',
            'builtins.repr', 'builtins.id', 'builtins.hash',
            'builtins.type', 'builtins.super', 'builtins.iter',
            'builtins.next', 'builtins.divmod', 'builtins.round',
            'builtins.memoryview', 'builtins.format', 'builtins.vars',
            'builtins.dir', 'builtins.chr', 'builtins.frozenset',
            'builtins.set', 'builtins.reversed', 'builtins.zip',
            'builtins.enumerate', 'builtins.pow', 'time.time',
            'builtins.NotImplementedError', 'builtins.hex', 'builtins.oct',
            'builtins.bin'}


# -- builtins ---------------------------------------------------------------


def _b_len(interp, args, kwargs, state, node):
    x = args[0]
    if isinstance(x, Ref):
        o = interp.obj(state, x)
        if o.kind == 'list' and not o.more and \
                not any(isinstance(i, Sym) and i.op == 'opt'
                        for i in o.items):
            return len(o.items)
        if o.kind == 'dict' and not o.more:
            return len(o.items)
        if o.kind == 'inst':
            m = interp.prog.find_method(o.cls, '__len__')
            if m is not None:
                return interp.call_function(m, [x], {}, state, node)
            interp.raise_pending(state, E('builtins.TypeError'), node,
                                 'object has no len()', cond=True)
            raise _i()._NoReturn()
        return Sym('len', x)
    if isinstance(x, (str, bytes, tuple, frozenset)):
        return len(x)
    if x is None or isinstance(x, (int, float)):
        interp.raise_pending(state, E('builtins.TypeError'), node,
                             'object of type %s has no len()' %
                             type(x).__name__, cond=True)
        raise _i()._NoReturn()
    t = T.typeof(x)
    if t is None or not t <= {'bytes', 'str', 'bytearray', 'tuple', 'list',
                              'dict'}:
        interp.raise_pending(state, E('builtins.TypeError'), node,
                             'len() of a value that may have no length')
        if isinstance(x, Sym):
            # where len() succeeded the value is not None
            state.kn.assume(T.compare('isnot', x, None))
    return T.length(x)


def type_names_of(interp, tv):
    """Normalise the second argument of isinstance to a tuple of
    type descriptors (str names for builtins, ClassInfo for repo classes)."""
    items = tv if isinstance(tv, tuple) else (tv,)
    out = []
    for it in items:
        if isinstance(it, ClassInfo):
            out.append(it)
        elif isinstance(it, _i().Ext):
            out.append(TYPE_NAMES.get(it.path, it.path))
        elif isinstance(it, tuple):
            out.extend(type_names_of(interp, it))
        else:
            raise _i().Unsupported('isinstance against %r' % (it,))
    return tuple(out)


def _const_type_name(x):
    if x is None:
        return 'NoneType'
    return type(x).__name__


def _b_isinstance(interp, args, kwargs, state, node):
    x, tv = args
    if isinstance(tv, Sym) or (isinstance(tv, tuple) and
                               any(isinstance(t_, Sym) for t_ in tv)):
        # the class argument is a run-time value (a helper analysed on its
        # own): an opaque boolean
        return Sym('isinstance_dyn', _t(x), _t(tv))
    names = type_names_of(interp, tv)
    if isinstance(x, ClassInfo):
        return bool({'object', 'type', 'builtins.type'} & set(n for n in names if isinstance(n, str)))
    if isinstance(x, Ref):
        o = interp.obj(state, x)
        if o.kind == 'inst':
            for n in names:
                if isinstance(n, ClassInfo) and \
                        interp.prog.is_subclass(o.cls, n):
                    return True
                if n == 'object':
                    return True
            return False
        return o.kind in names or 'object' in names
    if T.is_const(x) and not isinstance(x, Sym):
        tn = _const_type_name(x)
        return any(n in supertypes(tn) for n in names
                   if isinstance(n, str))
    if isinstance(x, ClassInfo):
        return bool({'object', 'type', 'builtins.type'} & set(n for n in names if isinstance(n, str)))
    if isinstance(x, (FuncInfo, ModuleInfo)):
        return 'object' in names
    t = T.typeof(x)
    if t is not None:
        res = set()
        for tn in t:
            res.add(any(n in supertypes(tn) for n in names
                        if isinstance(n, str)))
        if len(res) == 1:
            return res.pop()
    if isinstance(x, Sym) and x.op == 'cond':
        return T.cond(x.args[0],
                      _b_isinstance(interp, [x.args[1], tv], {}, state,
                                    node),
                      _b_isinstance(interp, [x.args[2], tv], {}, state,
                                    node))
    return Sym('isinstance', x, tuple(sorted(
        (n if isinstance(n, str) else n.short) for n in names)))


def _b_getattr(interp, args, kwargs, state, node):
    base, name = args[0], args[1]
    default = args[2] if len(args) > 2 else _i().ABSENT
    if not isinstance(name, str):
        if isinstance(base, Ref):
            return Sym('getattr', base, _t(name))
        return Sym('getattr', _t(base), _t(name))
    return interp.get_attr(base, name, state, node, default)


def _b_setattr(interp, args, kwargs, state, node):
    base, name, v = args
    if not isinstance(name, str):
        interp.effect('setattr-dynamic', _t(base), T.show(name), node)
        return None
    interp.set_attr(base, name, v, state, node)
    return None


def _b_vars(interp, args, kwargs, state, node):
    """vars(<class of the package>): its namespace in definition order
    (the implicit string entries included; the two slot descriptors Python
    adds are not types and carry none of the library's attributes)."""
    if len(args) == 1 and isinstance(args[0], ClassInfo):
        ci = args[0]
        items = [('__module__', ci.module.name),
                 ('__qualname__', ci.qualname[len(ci.module.name) + 1:])]
        for nm in ci.order:
            items.append((nm, interp.class_attr_own(ci, nm)))
        return interp.alloc(state, _i().DictObj(
            items, origin=interp.site(node)))
    return Sym('extcall', 'builtins.vars', tuple(_t(a) for a in args), ())


def _dc_replace(interp, args, kwargs, state, node):
    """dataclasses.replace(obj, **changes): a new instance of the same
    class with the named fields changed."""
    if len(args) == 1 and isinstance(args[0], Ref):
        o = interp.obj(state, args[0])
        if o.kind == 'inst' and interp._dataclass_fields(o.cls) is not None \
                and all(k in o.attrs for k in kwargs):
            attrs = dict(o.attrs)
            attrs.update(kwargs)
            return interp.alloc(state, _i().InstObj(
                o.cls, attrs, origin=interp.site(node)))
    raise _i().Unsupported('dataclasses.replace at ' + interp.site(node))


def _b_iter_single_use(interp, args, kwargs, state, node):
    """iter(<compile-time tuple>): a single-use iterator over its
    elements (what one consumer takes, the next one does not see); other
    arguments are handed on as they are."""
    if len(args) == 1 and isinstance(args[0], tuple):
        return interp.alloc(state, _i().ListObj(
            list(args[0]), gen=True, origin=interp.site(node)))
    return args[0]


def _it_takewhile(interp, args, kwargs, state, node):
    """itertools.takewhile(pred, it) over a compile-time sequence whose
    predicate is decided for each element: the prefix; a single-use
    iterator is left after the first failing element (which is consumed
    and dropped)."""
    pred, src = args
    o = interp.obj(state, src) if isinstance(src, Ref) else None
    if o is not None and o.kind == 'list' and not o.more:
        items = list(o.items)
    else:
        items = static_sequence(interp, src, state)
        o = None
    if items is None:
        raise _i().Unsupported('itertools.takewhile over a run-time '
                               'iterable at %s' % interp.site(node))
    out = []
    rest = []
    for i, x in enumerate(items):
        v = interp.truth(interp.call_value(pred, [x], {}, state, node),
                         state, node)
        d = v if isinstance(v, bool) else interp.decide(v, state)
        if d is None:
            raise _i().Unsupported('itertools.takewhile with a run-time '
                                   'predicate at %s' % interp.site(node))
        if not d:
            rest = items[i + 1:]
            break
        out.append(x)
    if o is not None and getattr(o, 'gen', False):
        state.store[src.id] = _i().ListObj(rest, False, o.shared, o.origin,
                                           o.source, gen=True)
        if src.id in interp.static_store:
            interp.static_store[src.id] = state.store[src.id]
    return interp.alloc(state, _i().ListObj(out, gen=True,
                                            origin=interp.site(node)))


def _copy_copy(interp, args, kwargs, state, node):
    """copy.copy: a new object of the same kind whose attributes /
    elements are the same objects (shallow)."""
    x = args[0]
    if isinstance(x, Ref):
        o = interp.obj(state, x)
        if o.kind == 'inst':
            if any(interp.prog.find_method(o.cls, m_) is not None
                   for m_ in ('__copy__', '__reduce__', '__reduce_ex__',
                              '__getstate__', '__setstate__')):
                raise _i().Unsupported('copy.copy of an object with its own '
                                       'copy protocol at ' +
                                       interp.site(node))
            return interp.alloc(state, _i().InstObj(
                o.cls, dict(o.attrs), origin=interp.site(node)))
        if o.kind == 'list':
            return interp.alloc(state, _i().ListObj(
                o.items, o.more if not isinstance(o.more, bool) else
                (x if o.more else False), origin=interp.site(node)))
        if o.kind == 'dict':
            return interp.alloc(state, _i().DictObj(
                o.items, o.more, origin=interp.site(node)))
    if T.is_const(x):
        return x
    return Sym('extcall', 'copy.copy', (_t(x),), ())


def _b_hasattr(interp, args, kwargs, state, node):
    base, name = args
    if isinstance(name, str) and isinstance(base, (Ref, ClassInfo,
                                                   ModuleInfo)):
        sentinel = Sym('nosuchattr')
        v = interp.get_attr(base, name, state, node, sentinel)
        return v is not sentinel
    return Sym('hasattr', _t(base), _t(name))


def _b_int(interp, args, kwargs, state, node):
    if not args:
        return 0
    x = args[0]
    if T.is_const(x) and len(args) == 1:
        try:
            return int(x)
        except (ValueError, TypeError):
            pass
    t = T.typeof(x)
    if t is not None and t <= {'int', 'bool'} and len(args) == 1:
        return x if t == {'int'} else Sym('int', x)
    interp.raise_pending(state, E('builtins.ValueError'), node,
                         'int() of a non-integer value')
    interp.raise_pending(state, E('builtins.OverflowError'), node,
                         'int() of an infinite value')
    interp.raise_pending(state, E('builtins.TypeError'), node,
                         'int() of an unsupported type')
    return Sym('int', *[_t(a) for a in args])


def _b_bool(interp, args, kwargs, state, node):
    if not args:
        return False
    return interp.truth(args[0], state, node)


def _b_str(interp, args, kwargs, state, node):
    if not args:
        return ''
    x = args[0]
    if isinstance(x, str) and len(args) == 1:
        return x
    if T.is_const(x) and len(args) == 1 and not isinstance(x, (float,)):
        return str(x)
    if len(args) == 1:
        int_to_text(interp, x, state, node, 'str()')
        bytes_to_text(interp, x, state, node)
    if (len(args) >= 2 or 'encoding' in kwargs or 'errors' in kwargs) and \
            isinstance(x, Sym):
        # str(b, encoding[, errors]) is b.decode(encoding[, errors])
        return call_method(interp, x, 'decode', list(args[1:]), kwargs,
                           state, node)
    return Sym('str', *[_t(a) for a in args])


def _b_float(interp, args, kwargs, state, node):
    if args and T.is_const(args[0]):
        try:
            return float(args[0])
        except (ValueError, TypeError):
            pass
    return Sym('float', *[_t(a) for a in args])


def _b_bytes(interp, args, kwargs, state, node):
    if not args:
        return b''
    x = args[0]
    if isinstance(x, bytes) and len(args) == 1:
        return x
    t = T.typeof(x)
    if t == {'bytes'} and len(args) == 1:
        return x
    if (len(args) >= 2 or 'encoding' in kwargs or 'errors' in kwargs) and \
            isinstance(x, Sym):
        # bytes(s, encoding[, errors]) is s.encode(encoding[, errors]);
        # a non-str first argument is a TypeError either way
        return call_method(interp, x, 'encode', list(args[1:]), kwargs,
                           state, node)
    if len(args) == 1:
        sized_allocation(interp, x, 'bytes(n)', state, node)
        seq = static_sequence(interp, x, state)
        if seq is not None and all(isinstance(i, int) and
                                   not isinstance(i, bool) and
                                   0 <= i <= 255 for i in seq):
            return bytes(seq)
        if isinstance(x, int) and not isinstance(x, bool) and \
                0 <= x <= 65536:
            return bytes(x)
    return Sym('bytes', *[_t(a) for a in args])


def sized_allocation(interp, n, what, state, node):
    """bytearray(n), bytes(n), b'..' * n, [x] * n with a run-time integer
    n: an allocation whose size is that integer."""
    if isinstance(n, Sym):
        t = state.kn.type_of(n)
        if t is not None and t <= {'int', 'bool'}:
            interp.effect('alloc-sized', n, (what, state.kn.copy()), node)


def _b_bytearray(interp, args, kwargs, state, node):
    if len(args) == 1:
        sized_allocation(interp, args[0], 'bytearray(n)', state, node)
    return Sym('bytearray', *[_t(a) for a in args])


def _b_sorted(interp, args, kwargs, state, node):
    seq = static_sequence(interp, args[0], state)
    if seq is not None and all(T.is_const(x) for x in seq) and not kwargs:
        try:
            return interp.alloc(state, _i().ListObj(sorted(seq)))
        except TypeError:
            pass
    if seq is not None and not kwargs and seq and all(
            isinstance(x, tuple) and x and T.is_const(x[0]) and
            not isinstance(x[0], Sym) for x in seq):
        # tuples ordered by distinct constant first components: the later
        # components never take part in a comparison
        firsts = [x[0] for x in seq]
        try:
            if len(set(firsts)) == len(firsts):
                order = sorted(range(len(seq)), key=lambda i: firsts[i])
                return interp.alloc(state, _i().ListObj(
                    [seq[i] for i in order]))
        except TypeError:
            pass
    kw = tuple(sorted((k, _t(v)) for k, v in kwargs.items()))
    return Sym('sorted', _t(args[0]), kw)


def _iterate_instance(interp, v, state, node, presize):
    """Iterating an instance of a package class: its __iter__ runs (list()
    and tuple() first ask __len__ for a size hint when there is one).
    -> the value __iter__ returns (a generator's element list), or None
    when v is not such an instance."""
    if not isinstance(v, Ref):
        return None
    o = interp.obj(state, v)
    if o.kind != 'inst':
        return None
    m_iter = interp.prog.find_method(o.cls, '__iter__')
    if m_iter is None:
        return None
    if presize:
        m_len = interp.prog.find_method(o.cls, '__len__')
        if m_len is not None:
            interp.call_function(m_len, [v], {}, state, node)
    return interp.call_function(m_iter, [v], {}, state, node)


def _b_list(interp, args, kwargs, state, node):
    if not args:
        return interp.alloc(state, _i().ListObj((), origin=interp.site(node)))
    it_ = _iterate_instance(interp, args[0], state, node, presize=True)
    if it_ is not None:
        args = [it_] + list(args[1:])
        if isinstance(it_, Ref):
            o_ = interp.obj(state, it_)
            if o_.kind == 'list':
                return interp.alloc(state, _i().ListObj(
                    o_.items, o_.more, origin=interp.site(node)))
    seq = static_sequence(interp, args[0], state)
    if seq is not None:
        return interp.alloc(state, _i().ListObj(seq,
                                                origin=interp.site(node)))
    return interp.alloc(state, _i().ListObj(
        (), more=True, origin=interp.site(node),
        source=Sym('list', _t(args[0]))))


def _b_tuple(interp, args, kwargs, state, node):
    if not args:
        return ()
    seq = static_sequence(interp, args[0], state)
    if seq is not None:
        return tuple(seq)
    return Sym('tuple', _t(args[0]))


def _b_dict(interp, args, kwargs, state, node):
    items = []
    if args:
        a = args[0]
        if isinstance(a, Ref) and a.kind == 'dict':
            o = interp.obj(state, a)
            if o.more:
                return Sym('dictcopy', a)
            items = list(o.items)
        else:
            seq = static_sequence(interp, a, state)
            if seq is None:
                return Sym('dict', _t(a))
            for e in seq:
                if isinstance(e, tuple) and len(e) == 2:
                    items.append(e)
                else:
                    return Sym('dict', _t(a))
    for k, v in kwargs.items():
        items.append((k, v))
    return interp.alloc(state, _i().DictObj(items, origin=interp.site(node)))


def _b_dict_fromkeys(interp, args, kwargs, state, node):
    seq = static_sequence(interp, args[0], state) if args else None
    if seq is None:
        raise _i().Unsupported('dict.fromkeys over a run-time iterable at %s'
                               % interp.site(node))
    v = args[1] if len(args) > 1 else None
    items = []
    for k in seq:
        if not any(k == k2 for k2, _ in items):
            items.append((k, v))
    return interp.alloc(state, _i().DictObj(items, origin=interp.site(node)))


def _b_divmod(interp, args, kwargs, state, node):
    a, b = args
    return (binop(interp, ast.FloorDiv(), a, b, state, node),
            binop(interp, ast.Mod(), a, b, state, node))


def _it_groupby(interp, args, kwargs, state, node):
    """itertools.groupby over a compile-time sequence with keys that
    evaluate to constants: the groups are computed."""
    seq = static_sequence(interp, args[0], state) if args else None
    key = args[1] if len(args) > 1 else kwargs.get('key')
    if seq is None:
        raise _i().Unsupported('itertools.groupby over a run-time iterable '
                               'at %s' % interp.site(node))
    groups = []
    for e in seq:
        k = e if key is None else interp.call_value(key, [e], {}, state,
                                                    node)
        if isinstance(k, (Sym, Ref)) or not T.is_const(k):
            raise _i().Unsupported('itertools.groupby with a run-time key '
                                   'at %s' % interp.site(node))
        if groups and groups[-1][0] == k and \
                type(groups[-1][0]) is type(k):
            groups[-1][1].append(e)
        else:
            groups.append((k, [e]))
    items = [(k, interp.alloc(state, _i().ListObj(
        g, origin=interp.site(node)))) for k, g in groups]
    return interp.alloc(state, _i().ListObj(items,
                                            origin=interp.site(node)))


# -- functools / operator / itertools ------------------------------------

_OPERATOR_BINOPS = {
    'add': ast.Add, 'sub': ast.Sub, 'mul': ast.Mult, 'and_': ast.BitAnd,
    'or_': ast.BitOr, 'xor': ast.BitXor, 'lshift': ast.LShift,
    'rshift': ast.RShift, 'floordiv': ast.FloorDiv, 'mod': ast.Mod,
    'truediv': ast.Div, 'pow': ast.Pow, 'concat': ast.Add,
}
_OPERATOR_CMPS = {'eq': 'eq', 'ne': 'ne', 'lt': 'lt', 'le': 'le',
                  'gt': 'gt', 'ge': 'ge'}


def operator_value(path):
    """The callable an ``operator.<name>`` reference denotes, or None."""
    if not path.startswith('operator.'):
        return None
    name = path[len('operator.'):]
    if name in _OPERATOR_BINOPS or name in _OPERATOR_CMPS or name in (
            'not_', 'truth', 'is_', 'is_not', 'getitem', 'contains', 'neg',
            'index', 'inv', 'invert'):
        return _i().FuncV('op', name)
    return None


def _fn_partial(interp, args, kwargs, state, node):
    if not args:
        raise _i().Unsupported('functools.partial() without a function')
    return _i().FuncV('partial', (args[0], tuple(args[1:]), dict(kwargs)))


def _op_factory(kind):
    def fn(interp, args, kwargs, state, node):
        if kind in ('attrgetter', 'itemgetter') and not all(
                T.is_const(a) and not isinstance(a, Sym) for a in args):
            raise _i().Unsupported('operator.%s with run-time names' % kind)
        return _i().FuncV(kind, (tuple(args), dict(kwargs)))
    return fn


def call_funcv(interp, fv, args, kwargs, state, node):
    I_ = _i()
    if fv.kind == 'partial':
        f, pa, pk = fv.data
        kw = dict(pk)
        kw.update(kwargs)
        return interp.call_value(f, list(pa) + list(args), kw, state, node)
    if fv.kind == 'op':
        name = fv.data
        if name in _OPERATOR_BINOPS and len(args) == 2:
            return binop(interp, _OPERATOR_BINOPS[name](), args[0], args[1],
                         state, node)
        if name in _OPERATOR_CMPS and len(args) == 2:
            return interp.compare_values(_OPERATOR_CMPS[name], args[0],
                                         args[1], state, node)
        if name in ('not_',) and len(args) == 1:
            return T.not_(interp.truth(args[0], state, node))
        if name == 'truth' and len(args) == 1:
            return interp.truth(args[0], state, node)
        if name in ('is_', 'is_not') and len(args) == 2:
            return interp.compare_values('is' if name == 'is_' else 'isnot',
                                         args[0], args[1], state, node)
        if name == 'getitem' and len(args) == 2:
            return interp.subscript_value(args[0], args[1], state, node)
        raise I_.Unsupported('operator.%s at %s' % (name, interp.site(node)))
    if fv.kind == 'attrgetter':
        names = fv.data[0]
        vals = []
        for nm in names:
            v = args[0]
            for part in nm.split('.'):
                v = interp.getattr_value(v, part, state, node)
            vals.append(v)
        return vals[0] if len(vals) == 1 else tuple(vals)
    if fv.kind == 'itemgetter':
        keys = fv.data[0]
        vals = [interp.subscript_value(args[0], k, state, node)
                for k in keys]
        return vals[0] if len(vals) == 1 else tuple(vals)
    if fv.kind == 'methodcaller':
        margs, mkw = fv.data
        name = margs[0]
        if not isinstance(name, str):
            raise I_.Unsupported('methodcaller with a run-time name')
        m = interp.getattr_value(args[0], name, state, node)
        return interp.call_value(m, list(margs[1:]), dict(mkw), state, node)
    raise I_.Unsupported('call of %r at %s' % (fv, interp.site(node)))


def _static_or_list(interp, v, state):
    """Elements of a compile-time sequence or of a closed list object
    (guarded 'opt' elements included); None otherwise."""
    if isinstance(v, Ref):
        o = interp.obj(state, v)
        if o.kind == 'list' and not o.more:
            items = list(o.items)
            _exhaust(interp, v, o, state)
            return items
    return static_sequence(interp, v, state)


def _b_map(interp, args, kwargs, state, node):
    f = args[0]
    if isinstance(f, _i().Ext) and f.path == 'builtins.len' and \
            len(args) == 2 and \
            _static_or_list(interp, args[1], state) is None:
        # the lengths of the elements of a run-time sequence (consumed by
        # sum(): the length of their concatenation)
        return Sym('maplen', args[1] if isinstance(args[1], Ref)
                   else _t(args[1]))
    seqs = [_static_or_list(interp, a, state) for a in args[1:]]
    lazy = [a for a in args[1:] if isinstance(a, _i().FuncV) and
            a.kind in ('count', 'repeat')]
    if any(s_ is None for s_, a in zip(seqs, args[1:])
           if not (isinstance(a, _i().FuncV) and a.kind in ('count',
                                                            'repeat'))):
        raise _i().Unsupported('map over a run-time iterable at %s' %
                               interp.site(node))
    finite = [s_ for s_ in seqs if s_ is not None]
    if not finite:
        raise _i().Unsupported('map over unbounded iterables only')
    n = min(len(s_) for s_ in finite)
    if any(isinstance(x, Sym) and x.op == 'opt' for s_ in finite
           for x in s_):
        raise _i().Unsupported('map over guarded elements at %s' %
                               interp.site(node))
    cols = []
    for a, s_ in zip(args[1:], seqs):
        cols.append(s_[:n] if s_ is not None else _lazy_items(a, n))
    del lazy
    out = [interp.call_value(f, [c[i] for c in cols], {}, state, node)
           for i in range(n)]
    return interp.alloc(state, _i().ListObj(out, origin=interp.site(node)))


def _lazy_items(fv, n):
    if fv.kind == 'count':
        start, step = fv.data
        return [T.add(start, T.mul(step, i)) if not (
            isinstance(start, int) and isinstance(step, int))
            else start + step * i for i in range(n)]
    if fv.kind == 'repeat':
        return [fv.data[0]] * n
    raise _i().Unsupported('lazy iterable %r' % (fv,))


def _b_zip_lazy(interp, args, kwargs, state, node):
    seqs = []
    for a in args:
        if isinstance(a, _i().FuncV) and a.kind in ('count', 'repeat'):
            seqs.append(None)
        else:
            s_ = _static_or_list(interp, a, state)
            if s_ is None:
                return None
            seqs.append(s_)
    finite = [s_ for s_ in seqs if s_ is not None]
    if not finite:
        return None
    n = min(len(s_) for s_ in finite)
    cols = [s_[:n] if s_ is not None else _lazy_items(a, n)
            for a, s_ in zip(args, seqs)]
    return [tuple(c[i] for c in cols) for i in range(n)]


def _it_count(interp, args, kwargs, state, node):
    start = args[0] if args else kwargs.get('start', 0)
    step = args[1] if len(args) > 1 else kwargs.get('step', 1)
    return _i().FuncV('count', (start, step))


def _it_repeat(interp, args, kwargs, state, node):
    if len(args) > 1 and isinstance(args[1], int):
        return tuple([args[0]] * args[1])
    return _i().FuncV('repeat', (args[0],))


def _it_chain(interp, args, kwargs, state, node):
    out = []
    for a in args:
        s_ = _static_or_list(interp, a, state)
        if s_ is None:
            raise _i().Unsupported('itertools.chain over a run-time '
                                   'iterable at %s' % interp.site(node))
        out.extend(s_)
    return interp.alloc(state, _i().ListObj(out, origin=interp.site(node)))


def _it_compress(interp, args, kwargs, state, node):
    data = _static_or_list(interp, args[0], state)
    sel = _static_or_list(interp, args[1], state)
    if data is None or sel is None:
        raise _i().Unsupported('itertools.compress over a run-time '
                               'iterable at %s' % interp.site(node))
    out = []
    for d, s_ in zip(data, sel):
        g = interp.truth(s_, state, node)
        dec = interp.decide(g, state)
        if dec is True:
            out.append(d)
        elif dec is None:
            out.append(Sym('opt', g, (_t(d),), ()))
    return interp.alloc(state, _i().ListObj(out, origin=interp.site(node)))


def _fn_reduce(interp, args, kwargs, state, node):
    f = args[0]
    seq = _static_or_list(interp, args[1], state)
    if seq is None or any(isinstance(x, Sym) and x.op == 'opt'
                          for x in seq):
        raise _i().Unsupported('functools.reduce over a run-time iterable '
                               'at %s' % interp.site(node))
    seq = list(seq)
    if len(args) > 2:
        acc = args[2]
    elif seq:
        acc = seq.pop(0)
    else:
        interp.raise_pending(state, E('builtins.TypeError'), node,
                             'reduce() of empty iterable with no initial '
                             'value', cond=True)
        raise _i()._NoReturn()
    for x in seq:
        acc = interp.call_value(f, [acc, x], {}, state, node)
    return acc


def _b_sum(interp, args, kwargs, state, node):
    if len(args) == 1 and isinstance(args[0], Sym) and \
            args[0].op == 'maplen':
        n0 = len(interp.pending)
        j = do_join(interp, b'', args[0].args[0], state, node)
        del interp.pending[n0:]  # len() accepts what join() would refuse
        return T.length(j)
    seq = _static_or_list(interp, args[0], state)
    if seq is None or any(isinstance(x, Sym) and x.op == 'opt'
                          for x in seq):
        return Sym('extcall', 'builtins.sum', tuple(_t(a) for a in args), ())
    acc = args[1] if len(args) > 1 else 0
    for x in seq:
        acc = binop(interp, ast.Add(), acc, x, state, node)
    return acc


def int_to_bytes(interp, v, args, kwargs, state, node):
    """int.to_bytes(length, byteorder='big', *, signed=False): the bytes a
    struct integer field of that width would hold; OverflowError (not
    struct.error) when the value does not fit."""
    length = args[0] if args else kwargs.get('length', 1)
    order = args[1] if len(args) > 1 else kwargs.get('byteorder', 'big')
    signed = kwargs.get('signed', False)
    codes = {(1, False): 'B', (1, True): 'b', (2, False): 'H',
             (2, True): 'h', (4, False): 'I', (4, True): 'i',
             (8, False): 'Q', (8, True): 'q'}
    if not (isinstance(length, int) and isinstance(signed, bool) and
            order in ('big', 'little') and (length, signed) in codes):
        raise _i().Unsupported('int.to_bytes with length %r / byteorder %r '
                               'at %s' % (length, order, interp.site(node)))
    f = ('>' if order == 'big' else '<') + codes[(length, signed)]
    if isinstance(v, bool):
        v = int(v)
    if isinstance(v, int) and not isinstance(v, Sym):
        try:
            return v.to_bytes(length, order, signed=signed)
        except OverflowError:
            interp.raise_pending(state, E('builtins.OverflowError'), node,
                                 'int too big to convert', cond=True)
            raise _i()._NoReturn()
    t = state.kn.type_of(v)
    if t is None or not t <= {'int', 'bool'}:
        interp.raise_pending(state, E('builtins.AttributeError'), node,
                             '.to_bytes on a value that may not be an int')
    rng = T.fmt(f).value_range(0)
    iv = T.interval(v, state.kn)
    lo2, hi2 = state.kn.lin_interval(v) if isinstance(v, Sym) else (None,
                                                                   None)
    lo = iv[0] if lo2 is None else (lo2 if iv[0] is None else max(lo2,
                                                                  iv[0]))
    hi = iv[1] if hi2 is None else (hi2 if iv[1] is None else min(hi2,
                                                                  iv[1]))
    if not (lo is not None and hi is not None and lo >= rng[0] and
            hi <= rng[1]):
        interp.raise_pending(state, E('builtins.OverflowError'), node,
                             'int.to_bytes: value out of range [%d, %d]' %
                             rng)
    return Sym('pack', f, (_t(v),))


def _int_to_bytes_call(interp, args, kwargs, state, node):
    return int_to_bytes(interp, args[0], args[1:], kwargs, state, node)


def _int_from_bytes(interp, args, kwargs, state, node):
    """int.from_bytes(view, order[, signed=...]) of a view whose width is a
    struct integer width and that is known to lie inside its buffer reads
    the same number as the corresponding struct.unpack (and cannot fail);
    otherwise the result is an opaque function of the arguments."""
    a = list(args)
    b = a[0] if a else kwargs.get('bytes')
    order = a[1] if len(a) > 1 else kwargs.get('byteorder', 'big')
    signed = kwargs.get('signed', False)
    opaque = Sym('extcall', 'builtins.int.from_bytes',
                 tuple(_t(x) for x in args),
                 tuple(sorted((k, _t(v)) for k, v in kwargs.items())))
    if order not in ('big', 'little') or not isinstance(signed, bool):
        return opaque
    if isinstance(b, bytes):
        return int.from_bytes(b, order, signed=signed)
    if not (isinstance(b, Sym) and b.op == 'slice'):
        return opaque
    base, lo, hi = b.args[0], b.args[1], b.args[2]
    if not (isinstance(lo, int) and isinstance(hi, int) and lo >= 0):
        return opaque
    code = {1: 'B', 2: 'H', 4: 'I', 8: 'Q'}.get(hi - lo)
    t = T.typeof(base)
    if code is None or t is None or not t <= {'bytes', 'bytearray'}:
        return opaque
    if state.kn._decide_cmp('ge', T.length(base), hi) is not True:
        return opaque  # a shorter view gives a different number
    f = ('>' if order == 'big' else '<') + (code.lower() if signed else code)
    return T.index(Sym('unpack', f, _t(b)), 0)


def _object_setattr(interp, args, kwargs, state, node):
    obj, name, v = args[0], args[1], args[2]
    if not isinstance(name, str):
        interp.effect('setattr-dynamic', _t(obj), T.show(name), node)
        return None
    if isinstance(obj, Ref):
        interp.raw_set_attr(obj, name, v, state, node)
    else:
        interp.effect('setattr-sym', _t(obj), name, node)
    return None


def _sys_intern(interp, args, kwargs, state, node):
    x = args[0]
    t = state.kn.type_of(x) if isinstance(x, Sym) else (
        {'str'} if isinstance(x, str) else {'other'})
    if t is None or t != {'str'}:
        interp.raise_pending(state, E('builtins.TypeError'), node,
                             'sys.intern() of a value that may not be a str')
    return x


def _b_range(interp, args, kwargs, state, node):
    if all(isinstance(a, int) for a in args):
        try:
            r = range(*args)
        except (TypeError, ValueError):
            r = None
        if r is not None and (r.stop - r.start) // r.step <= 4096:
            return tuple(r)
        # a large range is kept as a range (membership is two comparisons)
    return Sym('range', *[_t(a) for a in args])


def _b_all_any(is_all):
    def fn(interp, args, kwargs, state, node):
        seq = static_sequence(interp, args[0], state)
        if seq is None:
            return Sym('all' if is_all else 'any', _t(args[0]))
        parts = [interp.truth(x, state, node) for x in seq]
        return T.and_(*parts) if is_all else T.or_(*parts)
    return fn


def _b_minmax(name):
    def fn(interp, args, kwargs, state, node):
        vals = args
        if len(args) == 1:
            seq = static_sequence(interp, args[0], state)
            if seq is not None:
                vals = seq
        if vals and all(T.is_const(v) for v in vals) and not kwargs:
            try:
                return (min if name == 'min' else max)(vals)
            except TypeError:
                pass
        return Sym(name, *[_t(a) for a in args])
    return fn


def _b_abs(interp, args, kwargs, state, node):
    if T.is_const(args[0]):
        return abs(args[0])
    return Sym('abs', _t(args[0]))


def _b_ord(interp, args, kwargs, state, node):
    if isinstance(args[0], (str, bytes)) and len(args[0]) == 1:
        return ord(args[0])
    return Sym('ord', _t(args[0]))


def _b_issubclass(interp, args, kwargs, state, node):
    a, b = args
    if isinstance(a, ClassInfo) and isinstance(b, ClassInfo):
        return interp.prog.is_subclass(a, b)
    Ext = _i().Ext
    bs = b if isinstance(b, tuple) else (b,)
    if isinstance(a, (ClassInfo, Ext)) and bs and all(
            isinstance(x, (ClassInfo, Ext)) for x in bs):
        # exception classes: the hierarchy used for except matching
        names = _i()._EXC_PARENT
        known = lambda c: isinstance(c, ClassInfo) or \
            _i().exc_name(c) in names
        if known(a) and all(known(x) for x in bs):
            return any(interp.exc_matches(a, x) for x in bs)
    return Sym('issubclass', _t(a), _t(b))


def _b_callable(interp, args, kwargs, state, node):
    a = args[0]
    if isinstance(a, (FuncInfo, ClassInfo, _i().Bound, _i().Closure,
                      _i().LibMethod)):
        return True
    if T.is_const(a):
        return False
    return Sym('callable', _t(a))


def _b_hex(interp, args, kwargs, state, node):
    if isinstance(args[0], int):
        return hex(args[0])
    return Sym('str', Sym('hex', _t(args[0])))


def _b_id(interp, args, kwargs, state, node):
    return Sym('id', _t(args[0]))


def _b_type(interp, args, kwargs, state, node):
    x = args[0]
    if isinstance(x, Ref):
        o = interp.obj(state, x)
        if o.kind == 'inst':
            return o.cls
        return E('builtins.' + o.kind)
    if T.is_const(x):
        return E('builtins.' + _const_type_name(x))
    return Sym('type', _t(x))


def _b_enumerate(interp, args, kwargs, state, node):
    seq = static_sequence(interp, args[0], state)
    start = args[1] if len(args) > 1 else kwargs.get('start', 0)
    if seq is not None and isinstance(start, int):
        return tuple((i, e) for i, e in enumerate(seq, start))
    return Sym('enumerate', _t(args[0]))


def _b_zip(interp, args, kwargs, state, node):
    seqs = [static_sequence(interp, a, state) for a in args]
    if all(s is not None for s in seqs):
        return tuple(zip(*seqs))
    lz = _b_zip_lazy(interp, args, kwargs, state, node)
    if lz is not None and not any(
            isinstance(x, Sym) and x.op == 'opt' for t_ in lz for x in t_):
        return tuple(lz)
    return Sym('zip', *[_t(a) for a in args])


def _b_reversed(interp, args, kwargs, state, node):
    seq = static_sequence(interp, args[0], state)
    if seq is not None:
        return tuple(reversed(seq))
    return Sym('reversed', _t(args[0]))


def _b_super(interp, args, kwargs, state, node):
    """Zero-argument super() inside a method: a proxy that resolves a
    method name in the MRO after the class that defines the current
    function."""
    fi = interp.cur_func
    if args or fi is None or fi.owner is None:
        raise _i().Unsupported('super() with arguments / outside a method '
                               'at ' + interp.site(node))
    a = fi.node.args
    ps = a.posonlyargs + a.args
    if not ps or ps[0].arg not in state.env:
        raise _i().Unsupported('super() without a bound first parameter at '
                               + interp.site(node))
    return Sym('superobj', fi.owner.qualname, _t(state.env[ps[0].arg]))


def call_super_method(interp, sup, name, args, kwargs, state, node):
    owner = interp.prog.classes.get(sup.args[0])
    recv = sup.args[1]
    if isinstance(recv, Ref):
        start_cls = interp.obj(state, recv).cls
    elif isinstance(recv, ClassInfo):
        start_cls = recv
    else:
        raise _i().Unsupported('super() on %r' % (recv,))
    mro = interp.prog.mro(start_cls)
    after = False
    for c in mro:
        if c is owner:
            after = True
            continue
        if not after or not isinstance(c, ClassInfo):
            continue
        m = c.bindings.get(name)
        if m:
            target = interp.prog.find_method(c, name)
            if target is not None:
                return interp.call_function(target, [recv] + list(args),
                                            kwargs, state, node)
    # nothing in the package: object's (or a library base's) version
    if name in ('__init__', '__init_subclass__', '__setattr__',
                '__delattr__', '__set_name__'):
        if name == '__setattr__' and len(args) == 2 and \
                isinstance(recv, Ref):
            return _object_setattr(interp, [recv] + list(args), {}, state,
                                   node)
        return None
    raise _i().Unsupported('super().%s at %s' % (name, interp.site(node)))


def _b_iter(interp, args, kwargs, state, node):
    return args[0]


# -- struct -------------------------------------------------------------------


def _fmt_of(interp, f, node):
    if isinstance(f, (str, bytes)):
        try:
            T.fmt(f)
        except T.FmtError as err:
            raise AnalysisError('struct format %r at %s: %s' %
                                (f, interp.site(node), err))
        return f if isinstance(f, str) else f.decode('ascii')
    raise _i().Unsupported('non-literal struct format at ' +
                           interp.site(node))


def do_pack(interp, f, values, state, node):
    fm = T.fmt(f)
    if len(values) != len(fm.values):
        interp.raise_pending(state, E('struct.error'), node,
                             'pack expected %d items for %r, got %d' %
                             (len(fm.values), f, len(values)), cond=True)
        raise _i()._NoReturn()
    # range / type failures
    for i, v in enumerate(values):
        ch, size, signed, kind = fm.values[i]
        if kind == 'int':
            rng = fm.value_range(i)
            t = state.kn.type_of(v)
            if t is not None and not (t <= {'int', 'bool'}):
                interp.raise_pending(state, E('struct.error'), node,
                                     'pack %r: required argument is not an '
                                     'integer' % f, cond=True)
                raise _i()._NoReturn()
            iv = T.interval(v, state.kn) if (t is not None or
                                             isinstance(v, Sym)) else \
                (None, None)
            if isinstance(v, Sym) and t is None:
                iv = state.kn.lin_interval(v) if v in state.kn.bounds else \
                    (None, None)
            inside = iv[0] is not None and iv[1] is not None and \
                iv[0] >= rng[0] and iv[1] <= rng[1]
            typed = t is not None and t <= {'int', 'bool'}
            if not (inside and typed):
                interp.raise_pending(
                    state, E('struct.error'), node,
                    'pack %r: argument out of range [%d, %d] or not an '
                    'integer' % (f, rng[0], rng[1]))
        elif kind == 'float':
            t = T.typeof(v)
            if t is None or not t <= {'float', 'int', 'bool'}:
                interp.raise_pending(state, E('struct.error'), node,
                                     'pack %r: required argument is not a '
                                     'float' % f)
            if ch == 'f':
                interp.raise_pending(state, E('builtins.OverflowError'),
                                     node, "pack 'f': float too large")
        else:
            interp.raise_pending(state, E('struct.error'), node,
                                 'pack %r: argument type' % f)
    if all(T.is_const(v) for v in values):
        try:
            return _struct.pack(f, *values)
        except (_struct.error, OverflowError):
            interp.raise_pending(state, E('struct.error'), node,
                                 'pack of constants fails', cond=True)
            raise _i()._NoReturn()
    return Sym('pack', f, tuple(_t(v) for v in values))


def do_unpack(interp, f, buf, state, node):
    fm = T.fmt(f)
    if isinstance(buf, bytes):
        try:
            return _struct.unpack(f, buf)
        except _struct.error:
            interp.raise_pending(state, E('struct.error'), node,
                                 'unpack of constant fails', cond=True)
            raise _i()._NoReturn()
    t = T.typeof(buf)
    if t is None or not t <= {'bytes', 'bytearray'}:
        interp.raise_pending(state, E('builtins.TypeError'), node,
                             'unpack of a non-bytes value')
    ok = Sym('ok', 'unpack', f, _t(buf))
    d = state.kn.decide(ok)
    ln = T.length(buf)
    if d is None and isinstance(ln, int):
        d = ln == fm.size
    if d is not True:
        interp.raise_pending(state, E('struct.error'), node,
                             'unpack %r requires a buffer of %d bytes' %
                             (f, fm.size), cond=T.not_(ok) if d is None
                             else True)
    if d is False:
        raise _i()._NoReturn()
    if d is None:
        state.kn.assume(ok)
    u = Sym('unpack', f, _t(buf))
    return tuple(T.index(u, i) for i in range(len(fm.values)))


def do_unpack_from(interp, f, buf, offset, state, node):
    fm = T.fmt(f)
    if isinstance(buf, bytes) and isinstance(offset, int):
        try:
            return _struct.unpack_from(f, buf, offset)
        except _struct.error:
            interp.raise_pending(state, E('struct.error'), node,
                                 'unpack_from of constant fails', cond=True)
            raise _i()._NoReturn()
    t = T.typeof(buf)
    if t is None or not t <= {'bytes', 'bytearray'}:
        interp.raise_pending(state, E('builtins.TypeError'), node,
                             'unpack_from of a non-bytes value')
    ok = Sym('ok', 'unpack_from', f, _t(buf), _t(offset))
    d = state.kn.decide(ok)
    if d is None:
        # decided when the length facts already imply it
        need = T.add(offset, fm.size)
        dd = state.kn._decide_cmp('ge', T.length(buf), need)
        if dd is not None:
            d = dd
    if d is not True:
        interp.raise_pending(
            state, E('struct.error'), node,
            'unpack_from %r requires at least %d bytes at the offset' %
            (f, fm.size), cond=T.not_(ok) if d is None else True)
    if d is False:
        raise _i()._NoReturn()
    if d is None:
        state.kn.assume(ok)
    if not T.nonneg(offset, state.kn):
        interp.note('unpack_from with possibly negative offset at ' +
                    interp.site(node))
    u = Sym('unpack', f, T.slice_(buf, offset, T.add(offset, fm.size),
                                  state.kn))
    return tuple(T.index(u, i) for i in range(len(fm.values)))


def _dynamic_bytes_format(f):
    """'{}s'.format(n) / '%ds' % n / ... -> (code, count term) for a format
    that is one counted bytes field, else None."""
    if not (isinstance(f, Sym) and f.op == 'format' and
            isinstance(f.args[0], str)):
        return None
    tmpl = f.args[0]
    rest = f.args[1:]
    cnt = None
    m = _re.fullmatch(r'([@=<>!]?)(\{(?:0|:d)?\}|%d|%i|%s)([sp])', tmpl)
    if m is None:
        return None
    if len(rest) >= 1 and isinstance(rest[0], tuple) and len(rest[0]) == 1 \
            and (len(rest) < 2 or not rest[1]):
        cnt = rest[0][0]
    elif len(rest) == 1 and not isinstance(rest[0], tuple):
        cnt = rest[0]
    if cnt is None:
        return None
    return m.group(3), cnt


def _s_pack(interp, args, kwargs, state, node):
    dyn = _dynamic_bytes_format(args[0])
    if dyn is not None and len(args) == 2:
        code, cnt = dyn
        v = args[1]
        t = state.kn.type_of(v)
        if t is None or not t <= {'bytes', 'bytearray'}:
            interp.raise_pending(state, E('struct.error'), node,
                                 'pack: argument for %r must be a bytes '
                                 'object' % code)
        ln = T.length(v)
        if code == 's' and isinstance(T.sub(cnt, ln), int) and \
                T.sub(cnt, ln) == 0:
            return v  # exactly the bytes, nothing cut, nothing padded
        if code == 'p' and isinstance(T.sub(cnt, T.add(ln, 1)), int) and \
                T.sub(cnt, T.add(ln, 1)) == 0:
            # Pascal string: the length octet saturates at 255 without an
            # error while all the bytes are still written
            return T.concat(Sym('pack', 'B', (T.cond(
                T.compare('le', ln, 255), ln, 255),)), v)
        # counted field that may cut or pad the value silently
        return Sym('packdyn', code, _t(cnt), _t(v))
    f = _fmt_of(interp, args[0], node)
    return do_pack(interp, f, args[1:], state, node)


def _s_unpack(interp, args, kwargs, state, node):
    f = _fmt_of(interp, args[0], node)
    return do_unpack(interp, f, args[1], state, node)


def _s_unpack_from(interp, args, kwargs, state, node):
    f = _fmt_of(interp, args[0], node)
    off = args[2] if len(args) > 2 else kwargs.get('offset', 0)
    return do_unpack_from(interp, f, args[1], off, state, node)


def _s_calcsize(interp, args, kwargs, state, node):
    f = _fmt_of(interp, args[0], node)
    return T.fmt(f).size


def _s_Struct(interp, args, kwargs, state, node):
    f = _fmt_of(interp, args[0], node)
    return _i().StructV(f)


def _re_compile(interp, args, kwargs, state, node):
    if isinstance(args[0], (str, bytes)):
        flags = args[1] if len(args) > 1 else kwargs.get('flags', 0)
        return _i().RegexV(args[0], _t(flags))
    raise _i().Unsupported('re.compile of non-literal at ' +
                           interp.site(node))


def _log_getLogger(interp, args, kwargs, state, node):
    return Sym('logger', *[_t(a) for a in args])


def _warn(interp, args, kwargs, state, node):
    interp.effect('warn', None, tuple(T.show(a) for a in args), node)
    return None


_EXT_CALLS = {
    'builtins.len': _b_len, 'builtins.isinstance': _b_isinstance,
    'builtins.getattr': _b_getattr, 'builtins.setattr': _b_setattr,
    'builtins.hasattr': _b_hasattr, 'builtins.int': _b_int,
    'builtins.vars': _b_vars, 'dataclasses.replace': _dc_replace,
    'itertools.takewhile': _it_takewhile, 'copy.copy': _copy_copy,
    'builtins.bool': _b_bool, 'builtins.str': _b_str,
    'builtins.float': _b_float, 'builtins.bytes': _b_bytes,
    'builtins.bytearray': _b_bytearray, 'builtins.sorted': _b_sorted,
    'builtins.list': _b_list, 'builtins.tuple': _b_tuple,
    'builtins.dict': _b_dict, 'builtins.range': _b_range,
    'builtins.dict.fromkeys': _b_dict_fromkeys,
    'builtins.divmod': _b_divmod,
    'itertools.groupby': _it_groupby, 'sys.intern': _sys_intern,
    'builtins.int.to_bytes': _int_to_bytes_call,
    'builtins.int.from_bytes': _int_from_bytes,
    'builtins.object.__setattr__': _object_setattr,
    'functools.partial': _fn_partial, 'functools.reduce': _fn_reduce,
    'operator.attrgetter': _op_factory('attrgetter'),
    'operator.itemgetter': _op_factory('itemgetter'),
    'operator.methodcaller': _op_factory('methodcaller'),
    'builtins.map': _b_map, 'builtins.sum': _b_sum,
    'itertools.count': _it_count, 'itertools.repeat': _it_repeat,
    'itertools.chain': _it_chain, 'itertools.compress': _it_compress,
    'builtins.all': _b_all_any(True), 'builtins.any': _b_all_any(False),
    'builtins.min': _b_minmax('min'), 'builtins.max': _b_minmax('max'),
    'builtins.abs': _b_abs, 'builtins.ord': _b_ord,
    'builtins.issubclass': _b_issubclass, 'builtins.callable': _b_callable,
    'builtins.hex': _b_hex, 'builtins.id': _b_id, 'builtins.type': _b_type,
    'builtins.enumerate': _b_enumerate, 'builtins.zip': _b_zip,
    'builtins.reversed': _b_reversed, 'builtins.super': _b_super,
    'builtins.iter': _b_iter_single_use,
    'struct.pack': _s_pack, 'struct.unpack': _s_unpack,
    'struct.unpack_from': _s_unpack_from, 'struct.calcsize': _s_calcsize,
    'struct.Struct': _s_Struct, 're.compile': _re_compile,
    'logging.getLogger': _log_getLogger, 'warnings.warn': _warn,
}


# -- methods of library values ---------------------------------------------


_PURE_CONST_METHODS = {
    'encode', 'decode', 'split', 'rsplit', 'join', 'format', 'startswith',
    'endswith', 'upper', 'lower', 'strip', 'lstrip', 'rstrip', 'replace',
    'find', 'rfind', 'count', 'index', 'isdigit', 'isalpha', 'isalnum',
    'title', 'capitalize', 'zfill', 'ljust', 'rjust', 'center', 'hex',
    'bit_length', 'to_bytes', 'partition', 'rpartition', 'splitlines',
    'isidentifier', 'isspace', 'isupper', 'islower', 'casefold',
    'swapcase', 'expandtabs', 'translate', 'is_integer', 'conjugate',
}


def call_method(interp, recv, name, args, kwargs, state, node):
    StructV, RegexV = _i().StructV, _i().RegexV
    if not isinstance(recv, (Ref, ClassInfo)):
        args, kwargs = _positional(METHOD_SIGNATURES.get(name), args, kwargs)
    if isinstance(recv, StructV):
        if name == 'pack':
            return do_pack(interp, recv.fmt, args, state, node)
        if name == 'unpack':
            return do_unpack(interp, recv.fmt, args[0], state, node)
        if name == 'unpack_from':
            off = args[1] if len(args) > 1 else kwargs.get('offset', 0)
            return do_unpack_from(interp, recv.fmt, args[0], off, state,
                                  node)
        raise _i().Unsupported('Struct.%s at %s' % (name, interp.site(node)))
    if isinstance(recv, RegexV):
        if name in ('fullmatch', 'match', 'search') and len(args) == 1 and \
                isinstance(args[0], type(recv.pattern)) and \
                isinstance(recv.flags, int):
            # constant folding of a library primitive on literals
            try:
                m = getattr(_re.compile(recv.pattern, recv.flags), name)(
                    args[0])
            except _re.error:
                m = None
            return E('re.Match') if m is not None else None
        return Sym('regex', name, recv.pattern, recv.flags,
                   tuple(_t(a) for a in args))
    if isinstance(recv, ClassInfo) and name == '_make' and \
            interp._namedtuple_fields(recv) is not None and len(args) == 1:
        seq = static_sequence(interp, args[0], state)
        if seq is None:
            raise _i().Unsupported('%s._make of a run-time iterable at %s' %
                                   (recv.short, interp.site(node)))
        return interp.instantiate(recv, list(seq), {}, state, node)
    if isinstance(recv, ClassInfo) and name == '__subclasses__':
        subs = [c for c in interp.prog.classes.values()
                if any(b is recv for b in c.bases)]
        subs.sort(key=lambda c: (c.module.name, c.node.lineno))
        return interp.alloc(state, _i().ListObj(subs,
                                                origin=interp.site(node)))
    if isinstance(recv, Ref):
        return call_container_method(interp, recv, name, args, kwargs,
                                     state, node)
    # constant receiver
    if not isinstance(recv, Sym):
        if name == 'join' and isinstance(recv, (bytes, str)):
            return do_join(interp, recv, args[0], state, node)
        if name == 'format' and isinstance(recv, str):
            if all(T.is_const(a) for a in args) and \
                    all(T.is_const(v) for v in kwargs.values()):
                try:
                    return recv.format(*args, **kwargs)
                except (IndexError, KeyError, ValueError):
                    pass
            format_conversions(interp, recv, args, kwargs, state, node)
            return Sym('format', recv, tuple(_t(a) for a in args),
                       tuple(sorted((k, _t(v)) for k, v in kwargs.items())))
        if name in _PURE_CONST_METHODS and all(T.is_const(a) for a in args) \
                and all(T.is_const(v) for v in kwargs.values()):
            try:
                res = getattr(recv, name)(*args, **kwargs)
                if isinstance(res, list):
                    return interp.alloc(state, _i().ListObj(
                        res, origin=interp.site(node)))
                return res
            except Exception as err:  # the constant operation itself fails
                interp.raise_pending(state, E('builtins.' +
                                              type(err).__name__), node,
                                     'constant method call fails', cond=True)
                raise _i()._NoReturn()
        return Sym('method', recv, name, tuple(_t(a) for a in args))
    # symbolic receiver
    if recv.op == 'superobj':
        return call_super_method(interp, recv, name, args, kwargs, state,
                                 node)
    if recv.op == 'logger':
        if name in ('isEnabledFor', 'getEffectiveLevel', 'hasHandlers',
                    'getChild'):
            # depends on how the application configured logging: an unknown
            # (but fixed) answer
            if name == 'getChild':
                return Sym('logger', recv, *[_t(a) for a in args])
            v = Sym('logconfig', recv, name, tuple(_t(a) for a in args))
            return Sym('typed', v, ('bool',) if name != 'getEffectiveLevel'
                       else ('int',), None)
        interp.effect('log', None, (name,) + tuple(T.show(a) for a in args),
                      node)
        return None
    if name == 'to_bytes':
        return int_to_bytes(interp, recv, args, kwargs, state, node)
    if name == 'encode':
        enc = args[0] if args else kwargs.get('encoding', 'utf-8')
        t = T.typeof(recv)
        if t is None or t != {'str'}:
            interp.raise_pending(state, E('builtins.AttributeError'), node,
                                 '.encode on a value that may not be str')
        errors = args[1] if len(args) > 1 else kwargs.get('errors',
                                                          'strict')
        if isinstance(enc, str) and enc.lower().replace('_', '-') in \
                ('utf-8', 'utf8'):
            if errors == 'strict':
                interp.raise_pending(
                    state, E('builtins.UnicodeEncodeError'), node,
                    'lone surrogates cannot be encoded')
                return Sym('utf8', recv)
            # a non-strict error handler emits bytes that a strict decoder
            # does not map back to the same text
            return Sym('utf8', recv, _t(errors))
        return Sym('encode', recv, _t(enc))
    if name == 'decode':
        enc = args[0] if args else kwargs.get('encoding', 'utf-8')
        errors = args[1] if len(args) > 1 else kwargs.get('errors',
                                                          'strict')
        if isinstance(enc, str) and enc.lower().replace('_', '-') in \
                ('utf-8', 'utf8'):
            if errors != 'strict':
                return Sym('decode_utf8', recv, _t(errors))
            interp.raise_pending(state, E('builtins.UnicodeDecodeError'),
                                 node, 'invalid UTF-8',
                                 cond=T.not_(Sym('ok', 'utf8', recv)))
            state.kn.assume(Sym('ok', 'utf8', recv))
            return Sym('decode_utf8', recv)
        interp.raise_pending(state, E('builtins.UnicodeDecodeError'), node,
                             'undecodable bytes')
        return Sym('decode', recv, _t(enc))
    if name in ('items', 'keys', 'values', 'copy', 'get'):
        if name == 'get':
            return Sym('method', recv, name, tuple(_t(a) for a in args))
        return Sym('method', recv, name, ())
    if name in MUTATING_METHODS:
        interp.effect('mutating-method', recv, name, node)
    if name == 'timestamp' or name == 'utcoffset':
        pass
    kw = tuple(sorted((k, _t(v)) for k, v in kwargs.items()))
    if kw:
        return Sym('method', recv, name, tuple(_t(a) for a in args), kw)
    return Sym('method', recv, name, tuple(_t(a) for a in args))


def do_join(interp, sep, seq, state, node):
    items = None
    more = False
    if isinstance(seq, Ref):
        o = interp.obj(state, seq)
        if o.kind == 'list':
            items = list(o.items)
            more = o.more
    elif isinstance(seq, tuple):
        items = list(seq)
    if items is None:
        return Sym('join', sep, _t(seq))
    if sep in (b'', ''):
        if isinstance(sep, bytes):
            for it in items:
                if isinstance(it, Sym) and it.op == 'opt':
                    continue
                t = T.typeof(it)
                if t is None or not t <= {'bytes', 'bytearray'}:
                    interp.raise_pending(
                        state, E('builtins.TypeError'), node,
                        'join: sequence item may not be bytes (%s)' %
                        T.show(it)[:60])
            parts = [(_t(i)) for i in items]
            if more:
                parts.append(Sym('more', more if isinstance(more, Ref)
                                 else seq))
            if not parts:
                return b''
            return T.concat(*parts)
        if all(isinstance(i, str) for i in items) and not more:
            return ''.join(items)
    parts = tuple(_t(i) for i in items)
    if more:
        # the elements a summarised loop / generator may still add
        parts += (Sym('more', more if isinstance(more, Ref) else seq),)
    return Sym('join', sep, parts)


def call_container_method(interp, ref, name, args, kwargs, state, node):
    o = interp.obj(state, ref)
    ListObj, DictObj = _i().ListObj, _i().DictObj
    if name == '__getitem__' and len(args) == 1:
        return get_item(interp, ref, args[0], state, node)
    if name == '__contains__' and len(args) == 1 and \
            isinstance(o, DictObj) and not o.more and \
            T.is_const(args[0]) and not isinstance(args[0], Sym):
        return any(k == args[0] for k, _ in o.items)
    if name == '__len__' and not args:
        return _b_len(interp, [ref], {}, state, node)
    if name in MUTATING_METHODS:
        interp.effect('mutating-method', ref, (name, o.shared, o.origin),
                      node)
    if isinstance(o, ListObj):
        if name == 'append':
            state.store[ref.id] = ListObj(o.items + (args[0],), o.more,
                                          o.shared, o.origin)
            return None
        if name == 'extend':
            list_extend(interp, ref, args[0], state, node)
            return None
        if name == 'copy':
            return interp.alloc(state, ListObj(
                o.items, (o.more if isinstance(o.more, Ref) else ref)
                if o.more else False))
        if name == 'sort' and o.source is not None and not o.items:
            kw = tuple(sorted((k, _t(v)) for k, v in kwargs.items()))
            src = o.source.args[0] if o.source.op == 'list' else o.source
            state.store[ref.id] = ListObj((), True, o.shared, o.origin,
                                          Sym('sorted', src, kw))
            return None
        if name == 'pop' or name == 'insert' or name == 'remove' or \
                name == 'sort' or name == 'reverse' or name == 'clear':
            state.store[ref.id] = ListObj((), True, o.shared, o.origin)
            return Sym('method', ref, name, tuple(_t(a) for a in args))
        if name in ('index', 'count', '__contains__'):
            return Sym('method', ref, name, tuple(_t(a) for a in args))
    if isinstance(o, DictObj):
        if name == 'get':
            k = args[0]
            dflt = args[1] if len(args) > 1 else None
            if _key_const(k) and not o.more and \
                    all(_key_const(kk) for kk, _ in o.items):
                v = o.get(k)
                return dflt if v is _i().ABSENT else v
            if not o.more and o.items and isinstance(k, Sym) and all(
                    T.is_const(kk) and not isinstance(kk, Sym)
                    for kk, _ in o.items) and \
                    ref.id in interp.static_store:
                # a module-level dispatch table read with a run-time key:
                # TABLE.get(k, d) is TABLE[k] when k is a key, d otherwise
                ck = interp.policy.choose_key(interp, ref, o, k, state)
                if ck is not None:
                    v = o.get(ck)
                    if v is _i().ABSENT:
                        raise AnalysisError('specialisation key %r not in '
                                            'table' % (ck,))
                    state.kn.assume(T.compare('eq', _t(k), ck))
                    return v
                if len(o.items) <= 8:
                    # a small table: a chain of key comparisons
                    res = dflt
                    for kk, vv in reversed(o.items):
                        res = interp.join_value(
                            T.compare('eq', _t(k), kk), vv, res)
                    return res
                absent = Sym('notin', _t(k), ref)
                return interp.join_value(absent, dflt,
                                         Sym('tableget', ref, _t(k)))
            return Sym('method', ref, 'get', tuple(_t(a) for a in args))
        if name == 'items' and not o.more:
            return tuple((k, v) for k, v in o.items)
        if name == 'keys' and not o.more:
            return tuple(k for k, _ in o.items)
        if name == 'values' and not o.more:
            return tuple(v for _, v in o.items)
        if name == 'copy':
            return interp.alloc(state, DictObj(o.items, o.more))
        const_keys = not o.more and all(T.is_const(kk) and
                                        not isinstance(kk, Sym)
                                        for kk, _ in o.items)
        if name == 'setdefault' and const_keys and args and \
                T.is_const(args[0]) and not isinstance(args[0], Sym):
            cur = o.get(args[0])
            if cur is not _i().ABSENT:
                return cur
            dv = args[1] if len(args) > 1 else None
            state.store[ref.id] = DictObj(tuple(o.items) + ((args[0], dv),),
                                          False, o.shared, o.origin)
            return dv
        if name == 'clear' and not args:
            state.store[ref.id] = DictObj((), False, o.shared, o.origin)
            return None
        if name == 'pop' and const_keys and args and \
                T.is_const(args[0]) and not isinstance(args[0], Sym):
            cur = o.get(args[0])
            if cur is not _i().ABSENT:
                state.store[ref.id] = DictObj(
                    tuple((k, v) for k, v in o.items
                          if not _i().same_value(k, args[0])),
                    False, o.shared, o.origin)
                return cur
            if len(args) > 1:
                return args[1]
            interp.raise_pending(state, E('builtins.KeyError'), node,
                                 'pop of a missing key', cond=True)
            raise _i()._NoReturn()
        if name == 'update' and const_keys and len(args) <= 1:
            src = None
            if not args:
                src = []
            elif isinstance(args[0], Ref):
                so = interp.obj(state, args[0])
                if isinstance(so, DictObj) and not so.more:
                    src = list(so.items)
            elif isinstance(args[0], tuple) and all(
                    isinstance(p_, tuple) and len(p_) == 2
                    for p_ in args[0]):
                src = list(args[0])
            if src is not None and all(
                    T.is_const(k) and not isinstance(k, Sym)
                    for k, _ in src):
                cur = DictObj(o.items, False, o.shared, o.origin)
                for k, v in src + list(kwargs.items()):
                    cur = cur.set(k, v)
                state.store[ref.id] = cur
                return None
        if name in ('update', 'setdefault', 'pop', 'popitem', 'clear'):
            state.store[ref.id] = DictObj(o.items, True, o.shared, o.origin)
            return Sym('method', ref, name, tuple(_t(a) for a in args))
    return Sym('method', ref, name, tuple(_t(a) for a in args))


def list_extend(interp, ref, rhs, state, node):
    o = interp.obj(state, ref)
    seq = static_sequence(interp, rhs, state)
    if o.shared:
        interp.effect('mutating-method', ref, ('extend', o.shared, o.origin),
                      node)
    if seq is None:
        state.store[ref.id] = _i().ListObj(o.items, True, o.shared, o.origin)
    else:
        state.store[ref.id] = _i().ListObj(o.items + tuple(seq), o.more,
                                           o.shared, o.origin)


# ---------------------------------------------------------------------------
# sequences


def _exhaust(interp, ref, o, state):
    """Reading the elements of a generator object leaves it empty."""
    if getattr(o, 'gen', False) and ref.id in state.store and o.items:
        state.store[ref.id] = _i().ListObj((), o.more, o.shared, o.origin,
                                           o.source, gen=True)


def static_sequence(interp, v, state):
    """Elements of v when it is a compile-time sequence, else None."""
    if isinstance(v, tuple):
        return list(v)
    if isinstance(v, Ref):
        o = interp.obj(state, v)
        if o.kind == 'list' and not o.more and \
                not any(isinstance(i, Sym) and i.op == 'opt'
                        for i in o.items):
            items = list(o.items)
            _exhaust(interp, v, o, state)
            return items
        if o.kind == 'dict' and not o.more:
            return [k for k, _ in o.items]
        return None
    if isinstance(v, (str, bytes)):
        return [v[i:i + 1] if isinstance(v, str) else v[i]
                for i in range(len(v))]
    if isinstance(v, frozenset):
        return sorted(v, key=repr)
    if isinstance(v, ClassInfo) and interp.prog.enum_kind(v):
        # iterating an enumeration class: its members in definition order
        # (aliases - members with a value seen before - are skipped)
        out, seen_vals = [], []
        for nm in v.order:
            if not interp.prog.enum_member(v, nm):
                continue
            val = interp.class_attr_own(v, nm)
            if any(_i().same_value(val, x) for x in seen_vals):
                continue
            seen_vals.append(val)
            out.append(Sym('enummember', v.qualname, nm, _t(val)))
        return out
    return None


def unpack_iterable(interp, v, n, state, node):
    ntv = _namedtuple_values(interp, v, state)
    seq = ntv if ntv is not None else static_sequence(interp, v, state)
    if seq is not None:
        if len(seq) != n:
            interp.raise_pending(state, E('builtins.ValueError'), node,
                                 'unpack %d values into %d targets' %
                                 (len(seq), n), cond=True)
            raise _i()._NoReturn()
        return seq
    if isinstance(v, Sym) and v.op == 'cond':
        a = unpack_iterable(interp, v.args[1], n, state, node)
        b = unpack_iterable(interp, v.args[2], n, state, node)
        return [interp.join_value(v.args[0], x, y) for x, y in zip(a, b)]
    if isinstance(v, Sym) and v.op == 'dyncall':
        # per-target tuples, joined component-wise into dispatch terms
        comps = []
        for i in range(n):
            alts = []
            for k, val in v.args[2]:
                if isinstance(val, tuple) and len(val) == n:
                    alts.append((k, val[i]))
                else:
                    alts.append((k, T.index(val, i)))
            comps.append(Sym('dynsel', v.args[0], v.args[1], tuple(alts)))
        return comps
    if v is None or isinstance(v, (int, float)):
        interp.raise_pending(state, E('builtins.TypeError'), node,
                             'cannot unpack non-iterable', cond=True)
        raise _i()._NoReturn()
    interp.raise_pending(state, E('builtins.ValueError'), node,
                         'unpacking a sequence of unknown length')
    return [T.index(v, i) for i in range(n)]


# ---------------------------------------------------------------------------
# subscripts


def _namedtuple_values(interp, ref, state):
    """Field values, in order, of an instance of a typing.NamedTuple
    class; None for anything else."""
    if not isinstance(ref, Ref):
        return None
    o = interp.obj(state, ref)
    if o.kind != 'inst':
        return None
    nt = interp._namedtuple_fields(o.cls)
    if nt is None:
        return None
    ABSENT = _i().ABSENT
    vals = [o.attrs.get(n, ABSENT) for n in nt[0]]
    return None if any(v is ABSENT for v in vals) else vals


def _key_const(k):
    """A dictionary key whose identity is known: a constant, or a class /
    function of the package (compared by identity)."""
    return (T.is_const(k) and not isinstance(k, Sym)) or \
        isinstance(k, (ClassInfo, FuncInfo))


def get_item(interp, base, k, state, node):
    ABSENT = _i().ABSENT
    if isinstance(base, Sym) and base.op == 'instdict' and \
            isinstance(k, str) and isinstance(base.args[0], Ref):
        # obj.__dict__['name']: the instance attribute of that name
        sentinel = Sym('nosuchattr')
        v = interp.get_attr(base.args[0], k, state, node, sentinel)
        if v is sentinel:
            interp.raise_pending(state, E('builtins.KeyError'), node,
                                 'no instance attribute %s' % k, cond=True)
            raise _i()._NoReturn()
        return v
    ntv = _namedtuple_values(interp, base, state)
    if ntv is not None and isinstance(k, int) and not isinstance(k, bool) \
            and -len(ntv) <= k < len(ntv):
        return ntv[k]
    if isinstance(base, Ref):
        o = interp.obj(state, base)
        if o.kind == 'dict':
            if _key_const(k) and all(_key_const(kk) for kk, _ in o.items):
                v = o.get(k)
                if v is not ABSENT:
                    return v
                if not o.more:
                    interp.raise_pending(state, E('builtins.KeyError'), node,
                                         'key %r not in table' % (k,),
                                         cond=True)
                    raise _i()._NoReturn()
            ck = interp.policy.choose_key(interp, base, o, k, state)
            if ck is not None:
                v = o.get(ck)
                if v is ABSENT:
                    raise AnalysisError('specialisation key %r not in table'
                                        % (ck,))
                state.kn.assume(T.compare('eq', _t(k), ck))
                return v
            absent = Sym('notin', _t(k), base)
            interp.raise_pending(state, E('builtins.KeyError'), node,
                                 'key may be missing from the table',
                                 cond=absent)
            try:
                hash(k)
            except TypeError:
                pass
            state.kn.assume(T.not_(absent))
            return Sym('tableget', base, _t(k))
        if o.kind == 'list':
            if isinstance(k, int) and not o.more and \
                    not any(isinstance(i, Sym) and i.op == 'opt'
                            for i in o.items):
                try:
                    return o.items[k]
                except IndexError:
                    interp.raise_pending(state, E('builtins.IndexError'),
                                         node, 'list index out of range',
                                         cond=True)
                    raise _i()._NoReturn()
            interp.raise_pending(state, E('builtins.IndexError'), node,
                                 'list index may be out of range')
            return Sym('index', base, _t(k))
        if o.kind == 'inst':
            m = interp.prog.find_method(o.cls, '__getitem__')
            if m is not None:
                return interp.call_function(m, [base, k], {}, state, node)
            interp.raise_pending(state, E('builtins.TypeError'), node,
                                 'object is not subscriptable', cond=True)
            raise _i()._NoReturn()
    if isinstance(base, tuple) and isinstance(k, Sym) and \
            0 < len(base) <= 8:
        tk = state.kn.type_of(k) or T.typeof(k)
        if tk is not None and tk <= {'int', 'bool'}:
            # a small compile-time tuple indexed by a run-time integer: one
            # case per position, negative positions included
            n_ = len(base)
            inside = T.and_(T.compare('ge', k, -n_), T.compare('lt', k, n_))
            d_ = interp.decide(inside, state)
            if d_ is not True:
                interp.raise_pending(state, E('builtins.IndexError'), node,
                                     'tuple index out of range',
                                     cond=T.not_(inside) if d_ is None
                                     else True)
                if d_ is False:
                    raise _i()._NoReturn()
                state.kn.assume(inside)
            res = base[n_ - 1]
            for i_ in list(range(n_ - 2, -1, -1)):
                res = interp.join_value(
                    T.or_(T.compare('eq', k, i_),
                          T.compare('eq', k, i_ - n_)), base[i_], res)
            return res
    if isinstance(base, (tuple, str, bytes)) and isinstance(k, int):
        try:
            return base[k]
        except IndexError:
            interp.raise_pending(state, E('builtins.IndexError'), node,
                                 'index out of range', cond=True)
            raise _i()._NoReturn()
    if isinstance(base, _i().Ext) or isinstance(base, (ClassInfo,)):
        # typing subscripts: Optional[X] ...
        return Sym('generic', _t(base), _t(k))
    if isinstance(base, Sym) and base.op == 'generic':
        return Sym('generic', base, _t(k))
    if base is None:
        interp.raise_pending(state, E('builtins.TypeError'), node,
                             'None is not subscriptable', cond=True)
        raise _i()._NoReturn()
    t = T.typeof(base)
    if t is not None and t <= {'bytes', 'bytearray', 'str', 'tuple', 'list'}:
        ln = T.length(base)
        inb = T.and_(T.compare('lt', k, ln) if not isinstance(
            T.compare('lt', k, ln), bool) or True else True)
        d = state.kn._decide_cmp('lt', k, ln)
        nn = T.nonneg(k, state.kn)
        if not (d is True and nn):
            interp.raise_pending(state, E('builtins.IndexError'), node,
                                 'index may be out of range',
                                 cond=None if not nn else
                                 T.compare('ge', k, ln))
            if nn and d is None:
                state.kn.assume(T.compare('lt', k, ln))
        del inb
        return T.index(base, _t(k))
    if isinstance(base, Sym) and base.op in ('method', 'attr', 'param',
                                             'field', 'elem', 'loopvar',
                                             'index', 'extcall', 'cond',
                                             'typed', 'decval', 'call',
                                             'global', 'dynsel'):
        interp.raise_pending(state, E('builtins.IndexError'), node,
                             'subscript of a run-time value may fail')
        interp.raise_pending(state, E('builtins.KeyError'), node,
                             'subscript of a run-time value may fail')
        interp.raise_pending(state, E('builtins.TypeError'), node,
                             'subscript of a run-time value may fail')
        return T.index(base, _t(k))
    raise _i().Unsupported('subscript of %r at %s' % (base,
                                                      interp.site(node)))


def get_slice(interp, base, lo, hi, step, state, node):
    if step is not None:
        if T.is_const(base) and all(x is None or isinstance(x, int)
                                    for x in (lo, hi, step)):
            return base[lo:hi:step]
        return Sym('stepslice', _t(base), _t(lo), _t(hi), _t(step))
    if isinstance(base, Ref):
        o = interp.obj(state, base)
        if o.kind == 'list' and not o.more and \
                (lo is None or isinstance(lo, int)) and \
                (hi is None or isinstance(hi, int)):
            return interp.alloc(state, _i().ListObj(o.items[lo:hi]))
        return Sym('slice', base, _t(lo), _t(hi))
    if T.is_const(base) and (lo is None or isinstance(lo, int)) and \
            (hi is None or isinstance(hi, int)):
        if base is None or isinstance(base, (int, float)):
            interp.raise_pending(state, E('builtins.TypeError'), node,
                                 'not subscriptable', cond=True)
            raise _i()._NoReturn()
        return base[lo:hi]
    t = T.typeof(base)
    if t is None or not t <= {'bytes', 'bytearray', 'str', 'tuple', 'list'}:
        interp.raise_pending(state, E('builtins.TypeError'), node,
                             'slice of a value that may not be a sequence')
    for b in (lo, hi):
        if b is not None and not T.nonneg(b, state.kn):
            interp.note('slice bound %s not provably non-negative at %s' %
                        (T.show(b), interp.site(node)))
    return T.slice_(base, lo, hi, state.kn)


def set_item(interp, base, k, v, state, node):
    if isinstance(base, Ref):
        o = interp.obj(state, base)
        interp.effect('setitem', base, (T.show(k), o.shared, o.origin), node)
        if o.kind == 'dict':
            if T.is_const(k) and all(T.is_const(kk) for kk, _ in o.items):
                state.store[base.id] = o.set(k, v)
            else:
                state.store[base.id] = _i().DictObj(
                    o.items + ((_t(k), v),), True, o.shared, o.origin)
        elif o.kind == 'list':
            state.store[base.id] = _i().ListObj(o.items, True, o.shared,
                                                o.origin)
        return
    interp.effect('setitem-sym', _t(base), T.show(k), node)


def del_item(interp, base, k, state, node):
    if isinstance(base, Ref):
        o = interp.obj(state, base)
        interp.effect('delitem', base, (T.show(k), o.shared, o.origin), node)
        if o.kind == 'dict':
            state.store[base.id] = _i().DictObj(o.items, True, o.shared,
                                                o.origin)
        elif o.kind == 'list':
            state.store[base.id] = _i().ListObj(o.items, True, o.shared,
                                                o.origin)
        return
    interp.effect('delitem-sym', _t(base), T.show(k), node)


# ---------------------------------------------------------------------------
# operators


_BINOPS = {
    ast.Add: 'add', ast.Sub: 'sub', ast.Mult: 'mul', ast.LShift: 'shl',
    ast.RShift: 'shr', ast.BitOr: 'bitor', ast.BitAnd: 'bitand',
    ast.BitXor: 'bitxor', ast.Div: 'div', ast.FloorDiv: 'floordiv',
    ast.Mod: 'mod', ast.Pow: 'pow', ast.MatMult: 'matmul',
}


def binop(interp, op, a, b, state, node):
    name = _BINOPS[type(op)]
    if isinstance(a, Ref) or isinstance(b, Ref):
        if name == 'add' and isinstance(a, Ref) and isinstance(b, Ref):
            oa, ob = interp.obj(state, a), interp.obj(state, b)
            if oa.kind == 'list' and ob.kind == 'list':
                more = bool(oa.more or ob.more)
                if ob.more and not oa.more:
                    # known elements, then the run-time elements of b: the
                    # same elements, not new unknown ones
                    more = ob.more if isinstance(ob.more, Ref) else b
                return interp.alloc(state, _i().ListObj(
                    oa.items + ob.items, more))
        if name == 'mod' and isinstance(a, str):
            percent_conversions(interp, a, b, state, node)
            return Sym('format', a, _t(b))
        return Sym(name, _t(a), _t(b))
    if T.is_const(a) and T.is_const(b):
        try:
            if name == 'add':
                return a + b
            if name == 'sub':
                return a - b
            if name == 'mul':
                return a * b
            if name == 'shl':
                return a << b
            if name == 'shr':
                return a >> b
            if name == 'bitor':
                return a | b
            if name == 'bitand':
                return a & b
            if name == 'bitxor':
                return a ^ b
            if name == 'div':
                return a / b
            if name == 'floordiv':
                return a // b
            if name == 'mod':
                return a % b
            if name == 'pow':
                if isinstance(b, int) and abs(b) > 4096:
                    return Sym('pow', a, b)
                return a ** b
        except ZeroDivisionError:
            interp.raise_pending(state, E('builtins.ZeroDivisionError'),
                                 node, 'division by zero', cond=True)
            raise _i()._NoReturn()
        except (TypeError, ValueError, OverflowError) as err:
            interp.raise_pending(state, E('builtins.' + type(err).__name__),
                                 node, 'constant operation fails', cond=True)
            raise _i()._NoReturn()
    ta, tb = state.kn.type_of(a), state.kn.type_of(b)
    known_int = ta is not None and tb is not None and \
        ta <= {'int', 'bool'} and tb <= {'int', 'bool'}
    if name in ('shl', 'shr'):
        if not (tb is not None and tb <= {'int', 'bool'} and
                T.nonneg(b, state.kn)):
            interp.raise_pending(state, E('builtins.ValueError'), node,
                                 'negative shift count')
        if not known_int:
            interp.raise_pending(state, E('builtins.TypeError'), node,
                                 'unsupported operand type(s) for shift')
        return T.bitop(name, a, b)
    if name in ('bitor', 'bitand', 'bitxor'):
        if not known_int:
            interp.raise_pending(state, E('builtins.TypeError'), node,
                                 'unsupported operand type(s) for bit '
                                 'operation')
        return T.bitop(name, a, b)
    if name in ('add', 'sub') and any(
            isinstance(x, Sym) and x.op == 'extcall' and
            x.args[0].startswith('datetime.') for x in (a, b)):
        interp.raise_pending(state, E('builtins.OverflowError'), node,
                             'date arithmetic result out of range')
        return Sym(name, _t(a), _t(b))
    if name == 'add':
        if not _compatible_add(ta, tb):
            interp.raise_pending(state, E('builtins.TypeError'), node,
                                 'unsupported operand type(s) for +')
        return T.add(a, b)
    if name == 'sub':
        if not known_int:
            interp.raise_pending(state, E('builtins.TypeError'), node,
                                 'unsupported operand type(s) for -')
        return T.sub(a, b)
    if name == 'mul':
        for x_, y_ in ((a, b), (b, a)):
            tx = state.kn.type_of(x_) if isinstance(x_, Sym) else (
                {'bytes'} if isinstance(x_, (bytes, str)) else
                {'list'} if isinstance(x_, (tuple, Ref)) else None)
            if tx is not None and tx & {'bytes', 'bytearray', 'str', 'list',
                                        'tuple'}:
                sized_allocation(interp, y_, 'sequence * n', state, node)
        if not known_int:
            interp.raise_pending(state, E('builtins.TypeError'), node,
                                 'unsupported operand type(s) for *')
        return T.mul(a, b)
    if name == 'mod' and isinstance(a, str):
        percent_conversions(interp, a, b, state, node)
        return Sym('format', a, _t(b))
    if name in ('floordiv', 'mod') and known_int and isinstance(b, int) \
            and not isinstance(b, bool) and b > 0 and b & (b - 1) == 0:
        # exact for every Python int (floor semantics)
        if name == 'floordiv':
            return T.bitop('shr', a, b.bit_length() - 1)
        return T.bitop('bitand', a, b - 1)
    if name in ('div', 'floordiv', 'mod'):
        nz = state.kn._decide_cmp('ne', b, 0) if isinstance(
            b, (Sym, int)) and not isinstance(b, float) else \
            (b != 0 if isinstance(b, float) else None)
        if nz is not True:
            interp.raise_pending(state, E('builtins.ZeroDivisionError'),
                                 node, 'division by zero')
        if not (ta is not None and tb is not None and
                (ta | tb) <= {'int', 'bool', 'float'}):
            interp.raise_pending(state, E('builtins.TypeError'), node,
                                 'unsupported operand type(s) for division')
    if name == 'pow':
        interp.raise_pending(state, E('builtins.TypeError'), node,
                             'unsupported operand type(s) for **') \
            if not (ta and tb) else None
    return Sym(name, _t(a), _t(b))


def _compatible_add(ta, tb):
    if ta is None or tb is None:
        return False
    num = {'int', 'bool', 'float'}
    if ta <= num and tb <= num:
        return True
    if ta <= {'bytes'} and tb <= {'bytes', 'bytearray'}:
        return True
    if ta <= {'bytearray'} and tb <= {'bytes', 'bytearray'}:
        return True
    if ta == {'str'} and tb == {'str'}:
        return True
    if ta == {'tuple'} and tb == {'tuple'}:
        return True
    return False


_CMPOPS = {ast.Eq: 'eq', ast.NotEq: 'ne', ast.Lt: 'lt', ast.LtE: 'le',
           ast.Gt: 'gt', ast.GtE: 'ge', ast.Is: 'is', ast.IsNot: 'isnot',
           ast.In: 'in', ast.NotIn: 'notin'}


def compare(interp, op, a, b, state, node):
    name = _CMPOPS[type(op)]
    if name in ('in', 'notin'):
        if isinstance(b, Ref):
            o = interp.obj(state, b)
            if o.kind == 'inst':
                m = interp.prog.find_method(o.cls, '__contains__')
                if m is not None:
                    r = T.truthy(interp.call_function(m, [b, a], {}, state,
                                                      node))
                    return r if name == 'in' else T.not_(r)
            seq = static_sequence(interp, b, state)
            if seq is not None:
                alts = [T.compare('eq', a, e) for e in seq]
                r = T.or_(*alts) if alts else False
                if not isinstance(r, Sym) or T.is_const(a):
                    return r if name == 'in' else T.not_(r)
                return Sym(name, _t(a), tuple(_t(e) for e in seq))
            return Sym(name, _t(a), b)
        if isinstance(b, tuple) and not b:
            return name == 'notin'
        if isinstance(b, tuple) and not T.is_const(a):
            return Sym(name, _t(a), tuple(_t(e) for e in b))
        if isinstance(b, tuple) and isinstance(a, Ref):
            return name == 'notin'
        return T.compare(name, _t(a), _t(b))
    if isinstance(a, Ref) or isinstance(b, Ref):
        if name in ('is', 'isnot'):
            if isinstance(a, Ref) and isinstance(b, Ref):
                return (a.id == b.id) == (name == 'is')
            other = b if isinstance(a, Ref) else a
            if other is None or isinstance(other, (bool, int, str, bytes,
                                                   float, tuple)):
                return name == 'isnot'
            return Sym(name, _t(a), _t(b))
        if name in ('eq', 'ne'):
            ra = a if isinstance(a, Ref) else b
            other = b if ra is a else a
            o = interp.obj(state, ra)
            if o.kind == 'inst':
                m = interp.prog.find_method(o.cls, '__eq__')
                if m is not None and ra is a:
                    r = T.truthy(interp.call_function(m, [a, b], {}, state,
                                                      node))
                    return r if name == 'eq' else T.not_(r)
                if isinstance(other, Ref):
                    return (other.id == ra.id) == (name == 'eq')
                if T.is_const(other):
                    return name == 'ne'
            if o.kind in ('dict', 'list') and not o.more:
                if isinstance(other, Ref):
                    oo = interp.obj(state, other)
                    if oo.kind == o.kind and not oo.more:
                        if o.same(oo) and all(
                                T.is_const(x) for x in _flat_items(o)):
                            return name == 'eq'
                        if len(o.items) != len(oo.items):
                            return name == 'ne'
                elif T.is_const(other):
                    if isinstance(other, str) or other is None or \
                            isinstance(other, (int, float, bytes)):
                        return name == 'ne'
            return Sym(name, _t(a), _t(b))
        return Sym(name, _t(a), _t(b))
    if name in ('lt', 'le', 'gt', 'ge'):
        ta, tb = state.kn.type_of(a), state.kn.type_of(b)
        num = {'int', 'bool', 'float'}
        if not (ta is not None and tb is not None and
                ((ta | tb) <= num or ta == tb)):
            interp.raise_pending(state, E('builtins.TypeError'), node,
                                 'ordering comparison between possibly '
                                 'incomparable types')
    for x in (a, b):
        if isinstance(x, (FuncInfo, ClassInfo, ModuleInfo, _i().Ext,
                          _i().StructV, _i().RegexV)):
            if name in ('is', 'eq'):
                return a == b if type(a) is type(b) else False
            if name in ('isnot', 'ne'):
                return not (a == b if type(a) is type(b) else False)
    return T.compare(name, a, b)


def _flat_items(o):
    for it in o.items:
        if isinstance(it, tuple):
            yield from it
        else:
            yield it
