"""Loader and program model (DESIGN.md 3.1).

Parses every ``*.py`` under ``<repo>/pamqp`` and exposes modules, classes
(including the method classes nested in the six AMQP class namespaces),
functions, import aliases and the statements that bind every module-level and
class-level name.  Nothing is imported or executed.
"""
import ast
import hashlib
import os
import typing

PACKAGE = 'pamqp'


class AnalysisError(Exception):
    """The source left the fragment the analyser understands (exit 2)."""


class UnboundedRecursion(AnalysisError):
    """A function outside the table encoders / decoders re-enters itself:
    there is no inductive summary for it.  Rules whose property is about
    termination or escaping exceptions report it as a violation."""

    def __init__(self, msg, func_short=None, module_rel=None, line=0):
        super().__init__(msg)
        self.func_short = func_short
        self.site = '%s:%d' % (module_rel, line) if module_rel else None


class Binding:
    """One statement that binds a name in a module or class scope."""
    __slots__ = ('kind', 'node', 'value', 'scope', 'name')

    def __init__(self, kind, node, value, scope, name):
        self.kind = kind  # import | importfrom | func | class | assign
        self.node = node
        self.value = value  # expr node for assign; alias info for imports
        self.scope = scope
        self.name = name


class Scope:
    """Module or class scope: ordered bindings per name."""

    def __init__(self, qualname, node, module, parent=None):
        self.qualname = qualname
        self.node = node
        self.module = module
        self.parent = parent
        self.bindings: typing.Dict[str, typing.List[Binding]] = {}
        self.order: typing.List[str] = []

    def add(self, b: Binding):
        if b.name not in self.bindings:
            self.bindings[b.name] = []
            self.order.append(b.name)
        self.bindings[b.name].append(b)


class FuncInfo:
    def __init__(self, qualname, node, module, owner):
        self.qualname = qualname
        self.node = node
        self.module = module  # ModuleInfo
        self.owner = owner  # ClassInfo or None
        self.kind = 'function'  # function | classmethod | staticmethod
        for d in getattr(node, 'decorator_list', []):
            if isinstance(d, ast.Name) and d.id in ('classmethod',
                                                    'staticmethod'):
                self.kind = d.id
            else:
                self.kind = 'decorated'
        self.is_generator = any(
            isinstance(n, (ast.Yield, ast.YieldFrom))
            for n in _walk_own(node))

    @property
    def name(self):
        return self.node.name if hasattr(self.node, 'name') else '<lambda>'

    @property
    def short(self):
        """Module-relative name, e.g. ``decode.short_str``."""
        return self.qualname[len(PACKAGE) + 1:]

    def __repr__(self):
        return '<func %s>' % self.qualname


def _walk_own(fnode):
    """Walk a function body without descending into nested defs."""
    stack = list(ast.iter_child_nodes(fnode))
    while stack:
        n = stack.pop()
        yield n
        if isinstance(n, (ast.FunctionDef, ast.AsyncFunctionDef, ast.Lambda,
                          ast.ClassDef)):
            continue
        stack.extend(ast.iter_child_nodes(n))


def _property_role(node):
    """'getter' for @property, 'setter' / 'deleter' for @<name>.setter /
    @<name>.deleter on a function of the same name, else None."""
    for d in getattr(node, 'decorator_list', []):
        if isinstance(d, ast.Name) and d.id == 'property':
            return 'getter'
        if isinstance(d, ast.Attribute) and isinstance(d.value, ast.Name) \
                and d.value.id == node.name and \
                d.attr in ('setter', 'deleter'):
            return d.attr
    return None


class ClassInfo(Scope):
    def __init__(self, qualname, node, module, parent):
        super().__init__(qualname, node, module, parent)
        self.base_exprs = node.bases
        self.bases: typing.List[typing.Any] = []  # ClassInfo or ext name
        self.methods: typing.Dict[str, FuncInfo] = {}
        # @<name>.setter / @<name>.deleter functions of properties
        self.prop_setters: typing.Dict[str, FuncInfo] = {}
        self.prop_deleters: typing.Dict[str, FuncInfo] = {}
        self.nested: typing.Dict[str, 'ClassInfo'] = {}

    @property
    def short(self):
        return self.qualname[len(PACKAGE) + 1:]

    def __repr__(self):
        return '<class %s>' % self.qualname


class ModuleInfo(Scope):
    def __init__(self, name, path, source, tree):
        super().__init__(name, tree, None)
        self.module = self
        self.name = name
        self.path = path
        self.source = source
        self.tree = tree
        self.digest = hashlib.sha256(source.encode('utf-8')).hexdigest()
        self.functions: typing.Dict[str, FuncInfo] = {}
        self.classes: typing.Dict[str, ClassInfo] = {}

    @property
    def relpath(self):
        return 'pamqp/' + os.path.basename(self.path)


class Program:
    """All parsed modules of the package plus resolution helpers."""

    def __init__(self, repo_dir: str):
        self.repo_dir = repo_dir
        self.pkg_dir = os.path.join(repo_dir, PACKAGE)
        self.modules: typing.Dict[str, ModuleInfo] = {}
        self.classes: typing.Dict[str, ClassInfo] = {}
        self.functions: typing.Dict[str, FuncInfo] = {}
        self.lambdas: typing.Dict[int, FuncInfo] = {}
        if not os.path.isdir(self.pkg_dir):
            raise AnalysisError('no package directory %s' % self.pkg_dir)
        for fn in sorted(os.listdir(self.pkg_dir)):
            if not fn.endswith('.py'):
                continue
            path = os.path.join(self.pkg_dir, fn)
            with open(path, encoding='utf-8') as fh:
                source = fh.read()
            try:
                tree = ast.parse(source, filename=path)
            except SyntaxError as err:
                raise AnalysisError('syntax error in %s: %s' % (path, err))
            modname = PACKAGE if fn == '__init__.py' else \
                PACKAGE + '.' + fn[:-3]
            mi = ModuleInfo(modname, path, source, tree)
            self.modules[modname] = mi
        for mi in self.modules.values():
            self._index_scope(mi, mi.tree.body, mi)
        for ci in list(self.classes.values()):
            self._resolve_bases(ci)

    # -- indexing ---------------------------------------------------------
    def _index_scope(self, scope: Scope, body, mi: ModuleInfo):
        for st in body:
            self._index_stmt(scope, st, mi)

    def _index_stmt(self, scope, st, mi):
        if isinstance(st, ast.Import):
            for a in st.names:
                name = a.asname or a.name.split('.')[0]
                scope.add(Binding('import', st, a, scope, name))
        elif isinstance(st, ast.ImportFrom):
            for a in st.names:
                name = a.asname or a.name
                scope.add(Binding('importfrom', st, (st.module, a.name,
                                                     st.level), scope, name))
        elif isinstance(st, (ast.FunctionDef, ast.AsyncFunctionDef)):
            owner = scope if isinstance(scope, ClassInfo) else None
            role = _property_role(st) if owner is not None else None
            if role in ('setter', 'deleter') and st.name in owner.methods:
                # the second half of a property: kept beside the getter,
                # which stays the class attribute of that name
                fi = FuncInfo('%s.%s.%s' % (scope.qualname, st.name, role),
                              st, mi, owner)
                self.functions[fi.qualname] = fi
                (owner.prop_setters if role == 'setter' else
                 owner.prop_deleters)[st.name] = fi
                return
            fi = FuncInfo(scope.qualname + '.' + st.name, st, mi, owner)
            self.functions[fi.qualname] = fi
            if owner is not None:
                owner.methods[st.name] = fi
            else:
                mi.functions[st.name] = fi
            scope.add(Binding('func', st, fi, scope, st.name))
        elif isinstance(st, ast.ClassDef):
            ci = ClassInfo(scope.qualname + '.' + st.name, st, mi,
                           scope if isinstance(scope, ClassInfo) else None)
            self.classes[ci.qualname] = ci
            if isinstance(scope, ClassInfo):
                scope.nested[st.name] = ci
            else:
                mi.classes[st.name] = ci
            scope.add(Binding('class', st, ci, scope, st.name))
            self._index_scope(ci, st.body, mi)
        elif isinstance(st, ast.Assign):
            for t in st.targets:
                for name, sub in _targets(t, st.value):
                    scope.add(Binding('assign', st, sub, scope, name))
        elif isinstance(st, ast.AnnAssign):
            if isinstance(st.target, ast.Name) and st.value is not None:
                scope.add(Binding('assign', st, st.value, scope,
                                  st.target.id))
        elif isinstance(st, ast.AugAssign):
            if isinstance(st.target, ast.Name):
                scope.add(Binding('augassign', st, st, scope, st.target.id))
        elif isinstance(st, (ast.If, ast.Try, ast.With, ast.For, ast.While)):
            # conditional / guarded module-level code: index every arm; a
            # name bound in more than one arm becomes ambiguous (checked by
            # the resolver).
            if isinstance(st, ast.For):
                # the loop variables stay bound after the loop (to the
                # last element): functions defined in the body that read
                # them see that value when they are called later
                for n_ in ast.walk(st.target):
                    if isinstance(n_, ast.Name):
                        scope.add(Binding('assign', st, ('forlast', st),
                                          scope, n_.id))
            for fld in ('body', 'orelse', 'finalbody'):
                self._index_scope(scope, getattr(st, fld, []) or [], mi)
            for h in getattr(st, 'handlers', []) or []:
                self._index_scope(scope, h.body, mi)

    def _resolve_bases(self, ci: ClassInfo):
        ci.bases = []
        for b in ci.base_exprs:
            tgt = self.resolve_static(ci.parent or ci.module, b, ci.module)
            ci.bases.append(tgt)

    # -- static resolution of dotted names -----------------------------------
    def resolve_static(self, scope, expr, mi):
        """Resolve a Name/Attribute chain to ModuleInfo / ClassInfo / FuncInfo
        / ('ext', dotted) without evaluating anything.  Class bodies resolve
        free names in the module scope (lesson 4 of DESIGN appendix E)."""
        if isinstance(expr, ast.Name):
            return self.lookup_name(mi, expr.id)
        if isinstance(expr, ast.Attribute):
            base = self.resolve_static(scope, expr.value, mi)
            return self.member(base, expr.attr)
        return None

    def lookup_name(self, mi: ModuleInfo, name: str):
        bl = mi.bindings.get(name)
        if not bl:
            return ('ext', 'builtins.' + name)
        b = bl[-1]
        return self.binding_target(b)

    def binding_target(self, b: Binding):
        if b.kind == 'import':
            a = b.value
            if a.asname:
                return self._module_ref(a.name)
            return self._module_ref(a.name.split('.')[0])
        if b.kind == 'importfrom':
            module, name, level = b.value
            full = (module or '') + '.' + name
            if full in self.modules:
                return self.modules[full]
            if module in self.modules:
                return self.member(self.modules[module], name)
            return ('ext', full)
        if b.kind in ('func', 'class'):
            return b.value
        return b  # assign binding: caller evaluates

    def _module_ref(self, dotted):
        if dotted in self.modules:
            return self.modules[dotted]
        return ('ext', dotted)

    def member(self, base, attr):
        if isinstance(base, ModuleInfo):
            bl = base.bindings.get(attr)
            if not bl:
                sub = base.name + '.' + attr
                if sub in self.modules:
                    return self.modules[sub]
                return None
            return self.binding_target(bl[-1])
        if isinstance(base, ClassInfo):
            for c in self.mro(base):
                if isinstance(c, ClassInfo) and attr in c.bindings:
                    return self.binding_target(c.bindings[attr][-1])
            return None
        if isinstance(base, tuple) and base[0] == 'ext':
            return ('ext', base[1] + '.' + attr)
        return None

    def mro(self, ci: ClassInfo):
        """Linearisation: the chain for single inheritance, the C3 merge
        where a class has several package bases."""
        out = []
        cur = ci
        seen = set()
        while isinstance(cur, ClassInfo):
            if cur.qualname in seen:
                raise AnalysisError('inheritance cycle at ' + cur.qualname)
            seen.add(cur.qualname)
            out.append(cur)
            repo_bases = [b for b in cur.bases if isinstance(b, ClassInfo)]
            ext_bases = [b for b in cur.bases if not isinstance(b, ClassInfo)]
            if len(repo_bases) > 1:
                # several package bases: C3 merge of the bases'
                # linearisations, as type.mro() does
                if len(seen) > 64:
                    raise AnalysisError('inheritance too deep at ' +
                                        cur.qualname)
                lins = [list(self.mro(b)) if isinstance(b, ClassInfo)
                        else [b] for b in cur.bases]
                lins.append(list(cur.bases))
                while any(lins):
                    lins = [l for l in lins if l]
                    for l in lins:
                        h = l[0]
                        if not any(any(h is x or h == x for x in m[1:])
                                   for m in lins):
                            break
                    else:
                        raise AnalysisError('inconsistent method resolution '
                                            'order in ' + cur.qualname)
                    out.append(h)
                    lins = [[x for x in l if not (x is h or x == h)]
                            for l in lins]
                return out
            if repo_bases:
                cur = repo_bases[0]
            else:
                out.extend(ext_bases)
                cur = None
        return out

    def is_subclass(self, ci, other) -> bool:
        for c in self.mro(ci):
            if c is other:
                return True
            if isinstance(c, tuple) and isinstance(other, tuple) and \
                    c == other:
                return True
        return False

    # -- convenience ---------------------------------------------------------
    def module(self, short):
        name = PACKAGE + '.' + short if short else PACKAGE
        if name not in self.modules:
            raise AnalysisError('anchor vanished: module %s' % name)
        return self.modules[name]

    def function(self, short):
        q = PACKAGE + '.' + short
        if q not in self.functions:
            r = self._through_aliases(short)
            if isinstance(r, FuncInfo):
                return r
            raise AnalysisError('anchor vanished: function %s' % short)
        return self.functions[q]

    def _through_aliases(self, short):
        """module.name[.name...] resolved through the module's bindings: a
        definition that moved to another module and is imported back under
        the old name, or a plain `old = new` alias."""
        parts = short.split('.')
        cur = self.modules.get(PACKAGE + '.' + parts[0])
        for nm in parts[1:]:
            if cur is None:
                return None
            cur = self.member(cur, nm)
            hops = 0
            while isinstance(cur, Binding) and cur.kind == 'assign' and \
                    hops < 5:
                hops += 1
                node = getattr(cur.node, 'value', None)
                if not isinstance(node, (ast.Name, ast.Attribute)):
                    break
                cur = self.resolve_static(cur.scope, node,
                                          cur.scope.module)
        return cur

    def cls(self, short):
        q = PACKAGE + '.' + short
        if q not in self.classes:
            raise AnalysisError('anchor vanished: class %s' % short)
        return self.classes[q]

    def enum_kind(self, ci):
        """None, 'plain' (enum.Enum / Flag: a member is an object of its
        own) or 'mixed' (IntEnum, IntFlag, StrEnum, or Enum mixed with a
        data type: a member is also a value of that type)."""
        kind = None
        for c in self.mro(ci):
            bases = c.bases if isinstance(c, ClassInfo) else [c]
            for b in bases:
                if isinstance(b, tuple) and b and b[0] == 'ext':
                    if b[1] in ('enum.IntEnum', 'enum.IntFlag',
                                'enum.StrEnum', 'builtins.int',
                                'builtins.str', 'builtins.bytes'):
                        kind = 'mixed'
                    elif b[1] in ('enum.Enum', 'enum.Flag') and \
                            kind is None:
                        kind = 'plain'
        if kind == 'mixed':
            # a data type alone does not make an enumeration
            ok = False
            for c in self.mro(ci):
                for b in (c.bases if isinstance(c, ClassInfo) else [c]):
                    if isinstance(b, tuple) and b and b[0] == 'ext' and \
                            b[1].startswith('enum.'):
                        ok = True
            return 'mixed' if ok else None
        return kind

    def enum_member(self, ci, name):
        """Is ``name`` a member of the enumeration class ci (a plain
        assignment in the class body, not private, not a function)?"""
        if name.startswith('_') or name not in ci.bindings:
            return False
        return all(b.kind == 'assign' for b in ci.bindings[name])

    def find_property(self, ci: ClassInfo, name: str):
        """(getter, setter | None, deleter | None) when the class attribute
        ``name`` is a property defined in the package, else None."""
        for c in self.mro(ci):
            if isinstance(c, ClassInfo) and name in c.methods:
                g = c.methods[name]
                if _property_role(g.node) != 'getter':
                    return None
                return g, c.prop_setters.get(name), \
                    c.prop_deleters.get(name)
            if isinstance(c, ClassInfo) and name in c.bindings:
                return None
        return None

    def find_method(self, ci: ClassInfo, name: str):
        for c in self.mro(ci):
            if isinstance(c, ClassInfo) and name in c.methods and \
                    c.bindings.get(name) and \
                    c.bindings[name][-1].kind == 'func':
                return c.methods[name]
            if isinstance(c, ClassInfo) and name in c.bindings:
                # `name = some_function` in the class body: a method too
                b = c.bindings[name][-1]
                if b.kind == 'assign' and isinstance(
                        b.value, (ast.Name, ast.Attribute)):
                    r = self.resolve_static(c, b.value, c.module)
                    if isinstance(r, FuncInfo):
                        return r
                if name in c.methods:
                    return c.methods[name]
        return None

    def files(self):
        return [{'file': m.relpath, 'sha256': m.digest[:16],
                 'lines': m.source.count('\n') + 1}
                for m in self.modules.values()]

    def lambda_info(self, node, mi, owner=None):
        fi = self.lambdas.get(id(node))
        if fi is None:
            fi = FuncInfo('%s.<lambda@%d>' % (mi.name, node.lineno), node, mi,
                          owner)
            self.lambdas[id(node)] = fi
        return fi


def _targets(t, value):
    """Yield (name, value-expr-or-None) for an assignment target."""
    if isinstance(t, ast.Name):
        yield t.id, value
    elif isinstance(t, (ast.Tuple, ast.List)):
        if isinstance(value, (ast.Tuple, ast.List)) and \
                len(value.elts) == len(t.elts):
            for a, b in zip(t.elts, value.elts):
                yield from _targets(a, b)
        else:
            for a in t.elts:
                for name, _ in _targets(a, None):
                    yield name, ('unpack', value)


def loc(mi: ModuleInfo, node) -> str:
    return '%s:%d' % (mi.relpath, getattr(node, 'lineno', 0))
