"""Thorough tier (DESIGN.md section 8): on top of the quick obligations
 (a) a second derivation of the facts the rules consume -- constants, struct
     formats, global reads/writes, raise sites, scoping -- from ``dis`` over
     compile()d (never executed) modules and from ``symtable``, which must
     agree with the AST-derived facts;
 (b) the abstract interpreter's unrolling / inlining bounds doubled: the
     obligation set and every verdict must be unchanged;
 (c) the property's slice of the seeded-fault, behaviour-preserving and
     independently seeded corpora (selftest/), whose outcome is written into
     the evidence.  A corpus miss is a weakness of the checker, not a
     violation of the property: printed as SELFTEST-MISS, never changes the
     exit code.
"""
import ast
import dis
import importlib
import json
import os
import struct
import subprocess
import symtable
import sys
import tempfile

from . import interp as I
from . import report
from . import terms as T
from .model import AnalysisError


def code_objects(co):
    yield co
    for c in co.co_consts:
        if hasattr(c, 'co_code'):
            yield from code_objects(c)


def looks_like_format(s):
    if not isinstance(s, str) or not s or len(s) > 12:
        return False
    body = s[1:] if s[0] in '@=<>!' else s
    if not body or not all(ch in 'xcbB?hHiIlLqQnNefdspP0123456789'
                           for ch in body):
        return False
    if not any(ch.isalpha() or ch == '?' for ch in body):
        return False
    try:
        struct.calcsize(s)
        return True
    except struct.error:
        return False


def ast_struct_formats(tree):
    out = set()
    for n in ast.walk(tree):
        if isinstance(n, ast.Call) and n.args and \
                isinstance(n.args[0], ast.Constant) and \
                isinstance(n.args[0].value, str):
            f = n.func
            name = f.attr if isinstance(f, ast.Attribute) else \
                f.id if isinstance(f, ast.Name) else ''
            if name in ('pack', 'unpack', 'unpack_from', 'Struct',
                        'calcsize', 'pack_into', 'iter_unpack'):
                out.add(n.args[0].value)
    return out


def cross_derivation(chk, ctx, pid):
    """(a): facts from dis / symtable vs facts from ast."""
    rule = pid + '.X2'
    chk.rule(rule, 'second derivation (dis over compile()d code objects, '
             'symtable) of constants, struct formats, global writes, raise '
             'sites and scoping agrees with the AST-derived facts')
    prog = ctx.prog
    dyn = ctx.static().dynamic_globals
    for mi in prog.modules.values():
        try:
            co = compile(mi.source, mi.path, 'exec', dont_inherit=True)
        except SyntaxError as err:
            raise AnalysisError('compile() failed for %s: %s' %
                                (mi.relpath, err))
        # struct formats
        dis_fmts = set()
        store_globals = {}
        raises = 0
        for c in code_objects(co):
            for k in c.co_consts:
                if looks_like_format(k):
                    dis_fmts.add(k)
            for ins in dis.get_instructions(c):
                if ins.opname == 'STORE_GLOBAL' and c.co_name != '<module>':
                    store_globals.setdefault(ins.argval, set()).add(
                        c.co_name)
                if ins.opname == 'RAISE_VARARGS':
                    raises += 1
        a_fmts = ast_struct_formats(mi.tree)
        # every format the AST front end saw must be among the compiled
        # constants, and every format-looking compiled constant must have
        # been seen by the AST front end as a struct format or be a
        # non-format use of a short string
        missing = {f for f in a_fmts if f not in dis_fmts}
        extra = {f for f in dis_fmts if f not in a_fmts and
                 any(ch in f for ch in '<>!=@')}
        chk.ob(rule, '%s struct formats' % mi.relpath,
               not missing and not extra,
               '%d literal formats from ast, %d format-shaped constants '
               'from dis' % (len(a_fmts), len(dis_fmts)),
               detail={'ast_only': sorted(missing),
                       'dis_only': sorted(extra)},
               nontrivial=bool(a_fmts))
        # global writes
        a_writes = {}
        for (mod, name), fis in dyn.items():
            if mod == mi.name:
                a_writes[name] = {fi.node.name for fi in fis}
        chk.ob(rule, '%s global writes' % mi.relpath,
               {k: v for k, v in store_globals.items()} == a_writes,
               'STORE_GLOBAL in functions: %r; ast global+assign: %r' %
               ({k: sorted(v) for k, v in store_globals.items()},
                {k: sorted(v) for k, v in a_writes.items()}),
               nontrivial=bool(store_globals or a_writes))
        # raise sites
        a_raises = sum(1 for n in ast.walk(mi.tree)
                       if isinstance(n, ast.Raise))
        # the compiler adds re-raise instructions for handlers and
        # try/finally; so dis >= ast, and ast raise statements all compile
        chk.ob(rule, '%s raise sites' % mi.relpath, raises >= a_raises,
               '%d raise statements in the ast, %d RAISE_VARARGS compiled' %
               (a_raises, raises), nontrivial=bool(a_raises))
        # scoping: symtable globals per function
        try:
            st = symtable.symtable(mi.source, mi.path, 'exec')
        except SyntaxError as err:
            raise AnalysisError('symtable failed for %s' % mi.relpath)
        decl = {}

        def walk(t):
            if t.get_type() == 'function':
                for sname in t.get_identifiers():
                    sy = t.lookup(sname)
                    if sy.is_declared_global():
                        decl.setdefault(t.get_name(), set()).add(sname)
                if t.get_frees() and t.get_name() not in (
                        'genexpr', 'listcomp', 'setcomp', 'dictcomp',
                        'lambda'):
                    decl.setdefault('<frees>', set()).update(t.get_frees())
            for c in t.get_children():
                walk(c)
        walk(st)
        a_decl = {}
        for n in ast.walk(mi.tree):
            if isinstance(n, (ast.FunctionDef, ast.AsyncFunctionDef)):
                for m in ast.walk(n):
                    if isinstance(m, ast.Global):
                        a_decl.setdefault(n.name, set()).update(m.names)
        frees = decl.pop('<frees>', set())
        chk.ob(rule, '%s scoping' % mi.relpath, decl == a_decl and
               not frees,
               'global declarations: symtable %r, ast %r; closures over '
               'free variables: %r' % (
                   {k: sorted(v) for k, v in decl.items()},
                   {k: sorted(v) for k, v in a_decl.items()},
                   sorted(frees)), nontrivial=bool(decl or a_decl))
    # module-level constants the rules fold must equal the compiled
    # constants (guards the constant evaluator): constants.py integers
    cmod = prog.module('constants')
    co = compile(cmod.source, cmod.path, 'exec', dont_inherit=True)
    stores = {}
    last = None
    for ins in dis.get_instructions(co):
        if ins.opname == 'LOAD_CONST':
            last = ins.argval
        elif ins.opname == 'STORE_NAME':
            if last is not None:
                stores[ins.argval] = last
            last = None
        else:
            last = None
    it = ctx.static()
    bad = []
    n = 0
    for name, v in stores.items():
        if isinstance(v, (int, bytes, str, tuple)) and name.isupper():
            n += 1
            av = it.global_value(cmod, name)
            if av != v or type(av) is not type(v):
                bad.append((name, v, av))
    chk.ob(rule, 'pamqp/constants.py folded constants', not bad and n >= 10,
           '%d module constants: the evaluator\'s values equal the compiled '
           'LOAD_CONST operands' % n, detail={'mismatch': bad[:3]})


def rerun_with_doubled_bounds(chk, ctx, pid, mod):
    """(b): doubling the unroll / inlining bounds must not change any
    verdict."""
    rule = pid + '.B2'
    chk.rule(rule, 'doubling the abstract interpreter\'s static-loop and '
             'inlining bounds leaves every obligation and verdict unchanged')
    old = (I.Policy.max_unroll, I.Policy.max_depth)
    I.Policy.max_unroll, I.Policy.max_depth = old[0] * 2, old[1] * 2
    try:
        from .context import Context
        ctx2 = Context(ctx.repo, 'quick')
        chk2 = report.Check(pid, 'quick', ctx.repo)
        chk2.prog = ctx2.prog
        # silence: the inner run writes nothing
        mod.run(chk2, ctx2)
    finally:
        I.Policy.max_unroll, I.Policy.max_depth = old
    a = {(o.rule, o.construct): o.ok for o in chk.obligations
         if not o.rule.endswith(('.X2', '.B2'))}
    # compare with a fresh quick-tier baseline at the normal bounds
    from .context import Context
    ctx1 = Context(ctx.repo, 'quick')
    chk1 = report.Check(pid, 'quick', ctx.repo)
    chk1.prog = ctx1.prog
    mod.run(chk1, ctx1)
    base = {(o.rule, o.construct): o.ok for o in chk1.obligations}
    b = {(o.rule, o.construct): o.ok for o in chk2.obligations}
    diff = [k for k in set(base) | set(b) if base.get(k) != b.get(k)]
    chk.ob(rule, 'bounds doubled', not diff,
           '%d obligations at bounds %r, %d at doubled bounds, %d differ' %
           (len(base), old, len(b), len(diff)),
           detail={'differences': [list(d) for d in diff[:5]]})
    del a


def corpus_slice(chk, ctx, pid):
    """(c): the property's slice of the self-test corpora."""
    runner = os.path.join(report.VERIF, 'selftest', 'run.py')
    if not os.path.exists(runner):
        chk.note('selftest corpus not present')
        return
    fd, out = tempfile.mkstemp(prefix='selftest-', suffix='.json')
    os.close(fd)
    try:
        env = dict(os.environ)
        env.pop('VERIF_TIER', None)
        r = subprocess.run([sys.executable, runner, '--props', pid,
                            '--kind', 'all', '--repo', ctx.repo, '--json',
                            out, '--quiet'], capture_output=True, text=True,
                           timeout=3000, env=env)
        with open(out) as fh:
            res = json.load(fh)
    except Exception as err:  # the self-test never decides the property
        chk.note('selftest could not be run: %s' % err)
        return
    finally:
        if os.path.exists(out):
            os.remove(out)
    s = res['summary']
    chk.extra['selftest'] = {
        'seeded': s['faults'], 'detected': s['detected'],
        'equivalents': s['equivalents'], 'silent': s['silent'],
        'missed': s['missed'], 'false_alarms': s['false_alarms'],
        'gaps': s['gaps'], 'errors': s['errors'],
        'note': 'each fault compiles and passes the 846 repository tests; '
                'a miss is a weakness of the checker, not a violation',
    }
    for m in s['missed']:
        print('SELFTEST-MISS', m)
    for m in s['false_alarms']:
        print('SELFTEST-FALSE-ALARM', m)
    for m in s['gaps']:
        print('SELFTEST-GAP', m)
    print('selftest slice for %s: %d/%d faults detected, %d/%d equivalents '
          'silent' % (pid, s['detected'], s['faults'], s['silent'],
                      s['equivalents']))


def run_extras(chk, ctx, pid, mod):
    cross_derivation(chk, ctx, pid)
    rerun_with_doubled_bounds(chk, ctx, pid, mod)
    if os.environ.get('VERIF_NO_SELFTEST') != '1' and ctx.repo == '/repo':
        corpus_slice(chk, ctx, pid)
