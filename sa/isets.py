"""Integer interval sets (finite unions of closed intervals, None = infinite)
and evaluation of a boolean guard term over one integer variable
(DESIGN.md 3.6 interval analysis; used by C11 / C03.I / C13)."""
from . import terms as T
from .terms import Sym

NEG, POS = float('-inf'), float('inf')


class ISet:
    def __init__(self, ivs=()):
        self.ivs = self._norm(ivs)

    @staticmethod
    def _norm(ivs):
        xs = sorted((lo, hi) for lo, hi in ivs if lo <= hi)
        out = []
        for lo, hi in xs:
            if out and lo <= out[-1][1] + 1:
                out[-1] = (out[-1][0], max(out[-1][1], hi))
            else:
                out.append((lo, hi))
        return tuple(out)

    @classmethod
    def all(cls):
        return cls([(NEG, POS)])

    @classmethod
    def empty(cls):
        return cls([])

    @classmethod
    def range(cls, lo, hi):
        return cls([(NEG if lo is None else lo, POS if hi is None else hi)])

    def union(self, o):
        return ISet(self.ivs + o.ivs)

    def inter(self, o):
        out = []
        for a in self.ivs:
            for b in o.ivs:
                lo, hi = max(a[0], b[0]), min(a[1], b[1])
                if lo <= hi:
                    out.append((lo, hi))
        return ISet(out)

    def complement(self):
        out = []
        cur = NEG
        for lo, hi in self.ivs:
            if lo > cur:
                out.append((cur, lo - 1))
            cur = hi + 1
        if cur != POS:  # the last interval did not reach +inf
            out.append((cur, POS))
        return ISet(out)

    def minus(self, o):
        return self.inter(o.complement())

    def subset(self, o):
        return self.minus(o).is_empty()

    def is_empty(self):
        return not self.ivs

    def __eq__(self, o):
        return isinstance(o, ISet) and self.ivs == o.ivs

    def __hash__(self):
        return hash(self.ivs)

    def __repr__(self):
        if not self.ivs:
            return '{}'

        def f(x):
            if x == NEG:
                return '-inf'
            if x == POS:
                return '+inf'
            return str(int(x))
        return ' u '.join('[%s, %s]' % (f(a), f(b)) for a, b in self.ivs)


class NotInterval(Exception):
    pass


def guard_set(atom, var):
    """Set of integer values of ``var`` for which the boolean term holds.
    Atoms that do not mention var are treated as unknown -> NotInterval."""
    if atom is True:
        return ISet.all()
    if atom is False:
        return ISet.empty()
    if not isinstance(atom, Sym):
        raise NotInterval(repr(atom))
    op = atom.op
    if op == 'and':
        s = ISet.all()
        for a in atom.args:
            s = s.inter(guard_set(a, var))
        return s
    if op == 'or':
        s = ISet.empty()
        for a in atom.args:
            s = s.union(guard_set(a, var))
        return s
    if op == 'not':
        return guard_set(atom.args[0], var).complement()
    if op == 'truthy' and atom.args[0] is var:
        return ISet.range(0, 0).complement()  # any integer but 0
    if op in ('le', 'lt', 'ge', 'gt', 'eq', 'ne'):
        a, b = atom.args
        bl = _bit_length_of(a, var), _bit_length_of(b, var)
        if bl[0] and isinstance(b, int) and not isinstance(b, bool):
            return _bit_length_set(op, b)
        if bl[1] and isinstance(a, int) and not isinstance(a, bool):
            return _bit_length_set({'le': 'ge', 'lt': 'gt', 'ge': 'le',
                                    'gt': 'lt', 'eq': 'eq',
                                    'ne': 'ne'}[op], a)
        if a is var and isinstance(b, int) and not isinstance(b, bool):
            c = b
        elif b is var and isinstance(a, int) and not isinstance(a, bool):
            c = a
            op = {'le': 'ge', 'lt': 'gt', 'ge': 'le', 'gt': 'lt',
                  'eq': 'eq', 'ne': 'ne'}[op]
        else:
            raise NotInterval(T.show(atom))
        if op == 'le':
            return ISet.range(None, c)
        if op == 'lt':
            return ISet.range(None, c - 1)
        if op == 'ge':
            return ISet.range(c, None)
        if op == 'gt':
            return ISet.range(c + 1, None)
        if op == 'eq':
            return ISet.range(c, c)
        return ISet.range(c, c).complement()
    if op in ('in', 'notin') and atom.args[0] is var and \
            isinstance(atom.args[1], Sym) and atom.args[1].op == 'range' \
            and all(isinstance(x, int) and not isinstance(x, bool)
                    for x in atom.args[1].args) and \
            1 <= len(atom.args[1].args) <= 3 and \
            (len(atom.args[1].args) < 3 or atom.args[1].args[2] == 1):
        ra = atom.args[1].args
        lo, hi = (0, ra[0]) if len(ra) == 1 else ra[:2]
        s = ISet.range(lo, hi - 1) if hi > lo else ISet.empty()
        return s if op == 'in' else s.complement()
    if op in ('in', 'notin') and atom.args[0] is var and \
            isinstance(atom.args[1], tuple) and \
            all(isinstance(x, int) for x in atom.args[1]):
        s = ISet([(x, x) for x in atom.args[1]])
        return s if op == 'in' else s.complement()
    raise NotInterval(T.show(atom))


def _bit_length_of(t, var):
    return isinstance(t, Sym) and t.op == 'method' and \
        t.args[0] is var and t.args[1] == 'bit_length'


def _bit_length_set(op, k):
    """{x : x.bit_length() <op> k};  x.bit_length() <= k  <=>  |x| < 2**k"""
    def le(n):
        if n < 0:
            return ISet.empty()
        return ISet.range(-((1 << n) - 1), (1 << n) - 1)
    if op == 'le':
        return le(k)
    if op == 'lt':
        return le(k - 1)
    if op == 'gt':
        return le(k).complement()
    if op == 'ge':
        return le(k - 1).complement()
    if op == 'eq':
        return le(k).inter(le(k - 1).complement())
    return le(k).inter(le(k - 1).complement()).complement()


def superset(atom, var):
    """A set that contains every integer value of var for which the
    boolean term can hold (parts that do not constrain var, or that are not
    interval-shaped, count as 'any value')."""
    if atom is True:
        return ISet.all()
    if atom is False:
        return ISet.empty()
    if not isinstance(atom, Sym) or \
            not T.mentions(atom, lambda t: t is var):
        return ISet.all()
    if atom.op == 'and':
        s = ISet.all()
        for a in atom.args:
            s = s.inter(superset(a, var))
        return s
    if atom.op == 'or':
        s = ISet.empty()
        for a in atom.args:
            s = s.union(superset(a, var))
        return s
    if atom.op == 'not':
        x = atom.args[0]
        if isinstance(x, Sym) and x.op == 'and':
            return superset(T.or_(*[T.not_(a) for a in x.args]), var)
        if isinstance(x, Sym) and x.op == 'or':
            return superset(T.and_(*[T.not_(a) for a in x.args]), var)
        if isinstance(x, Sym) and x.op == 'not':
            return superset(x.args[0], var)
    try:
        return guard_set(atom, var)
    except NotInterval:
        return ISet.all()


def is_type_atom(a):
    """isinstance(...) / not isinstance(...): says nothing about which
    integer the variable is."""
    if isinstance(a, Sym) and a.op == 'not':
        a = a.args[0]
    return isinstance(a, Sym) and a.op == 'isinstance'


def path_set(atoms, var, ignore=lambda a: False):
    """Intersection of the guard sets of the atoms that mention var."""
    s = ISet.all()
    for a in atoms:
        if ignore(a) or is_type_atom(a):
            continue
        if not T.mentions(a, lambda t: t is var):
            continue
        s = s.inter(guard_set(a, var))
    return s
