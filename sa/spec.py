"""Loader for the hand-transcribed specification tables in /verif/spec
(DESIGN.md 3.7 / appendix D).  Independent of the repository."""
import ast
import json
import keyword
import os

from .report import VERIF

SPEC_DIR = os.path.join(VERIF, 'spec')
WIRE_TYPES = ('bit', 'octet', 'short', 'long', 'longlong', 'shortstr',
              'longstr', 'table', 'timestamp')


def camel(name):
    return ''.join(p.capitalize() for p in name.split('-'))


class Arg:
    def __init__(self, name, wtype, has_default, default):
        self.spec_name = name
        self.type = wtype
        self.has_default = has_default
        self.default = default
        self.py_name = None


class Method:
    def __init__(self, cls, mid, name, sync, replies, args):
        self.cls = cls
        self.id = mid
        self.spec_name = name
        self.sync = sync
        self.replies = replies
        self.args = args

    @property
    def index(self):
        return (self.cls.id << 16) | self.id

    @property
    def py_name(self):
        return '%s.%s' % (camel(self.cls.name), camel(self.spec_name))

    @property
    def key(self):
        return '%s.%s' % (self.cls.name, self.spec_name)


class AmqpClass:
    def __init__(self, name, cid):
        self.name = name
        self.id = cid
        self.methods = []


class Spec:
    def __init__(self):
        with open(os.path.join(SPEC_DIR, 'tables.json')) as fh:
            self.tables = json.load(fh)
        self.classes = []
        self._parse_catalogue()

    def _parse_catalogue(self):
        cur = None
        names = self.tables['python_names']['argument']
        with open(os.path.join(SPEC_DIR, 'amqp091.txt')) as fh:
            for raw in fh:
                line = raw.strip()
                if not line or line.startswith('#'):
                    continue
                if line.startswith('class '):
                    _, name, cid = line.split()
                    cur = AmqpClass(name, int(cid))
                    self.classes.append(cur)
                    continue
                head, _, rest = line.partition(':')
                toks = head.split()
                mid, mname = int(toks[0]), toks[1]
                sync, replies = False, []
                if len(toks) > 2:
                    assert toks[2] == 'sync' and toks[3] == '->', line
                    sync = True
                    replies = toks[4].split(',')
                args = []
                for tok in rest.split():
                    nt, eq, dflt = tok.partition('=')
                    aname, _, atype = nt.partition(':')
                    assert atype in WIRE_TYPES, line
                    a = Arg(aname, atype, bool(eq),
                            ast.literal_eval(dflt) if eq else None)
                    py = aname.replace('-', '_')
                    py = names.get(aname, py)
                    if keyword.iskeyword(py):
                        py += '_'
                    a.py_name = py
                    args.append(a)
                cur.methods.append(Method(cur, mid, mname, sync, replies,
                                          args))

    def methods(self):
        for c in self.classes:
            for m in c.methods:
                yield m

    def properties(self):
        names = self.tables['python_names']['property']
        out = []
        for name, wtype, bit in self.tables['basic_properties']:
            py = names.get(name, name.replace('-', '_'))
            out.append((name, py, wtype, 1 << bit))
        return out

    def validation_for(self, method):
        """spec constraints per python attribute name for one method."""
        v = self.tables['validation']
        out = {}
        for a in method.args:
            key = '%s.%s' % (method.key, a.spec_name)
            c = {}
            if key in v['exchange_name_args']:
                c.update(v['domains']['exchange-name'])
            if key in v['queue_name_args']:
                c.update(v['domains']['queue-name'])
            if key in v['other']:
                c.update(v['other'][key])
            if a.spec_name == 'ticket':
                c.update(v['ticket'])
            if c:
                out[a.py_name] = c
        return out


_SPEC = None


def load():
    global _SPEC
    if _SPEC is None:
        _SPEC = Spec()
    return _SPEC


def validate_all():
    s = load()
    ms = list(s.methods())
    assert len(ms) == 64, len(ms)
    assert len({m.index for m in ms}) == 64
    for m in ms:
        for r in m.replies:
            assert any(x.spec_name == r for x in m.cls.methods), (m.key, r)
        assert m.sync == bool(m.replies)
    assert len(s.properties()) == 14
    assert len(s.tables['field_tags']) == 19
    assert len(s.tables['reply_codes']) == 18
    v = s.tables['validation']
    keys = {'%s.%s' % (m.key, a.spec_name) for m in ms for a in m.args}
    for k in v['exchange_name_args'] + v['queue_name_args'] + \
            list(v['other']):
        assert k in keys, k
    return True
