"""Shared judgements on value conversions that several properties rely on:
the timestamp encoder's operand, the decimal unscaled operand's dependence
on the sign, the table-key truncation rule, the flag-word accumulation."""
from . import codec
from . import interp as I
from . import pairs
from . import tables
from . import terms as T
from .terms import Sym

UTC = 'datetime.timezone.utc'


def is_utc(v):
    return isinstance(v, I.Ext) and v.path == UTC


def naive_test_ok(g, P):
    """or(is(attr(P,'tzinfo'), None), is(method(attr(P,'tzinfo'),
    'utcoffset', (P)), None))"""
    parts = g.args if isinstance(g, Sym) and g.op == 'or' else (g,)
    saw_none = False
    for p in parts:
        if not (isinstance(p, Sym) and p.op == 'is' and p.args[1] is None):
            return False
        x = p.args[0]
        if isinstance(x, Sym) and x.op == 'attr' and x.args[0] is P and \
                x.args[1] == 'tzinfo':
            saw_none = True
        elif isinstance(x, Sym) and x.op == 'method' and \
                x.args[1] == 'utcoffset':
            # tzinfo.utcoffset(value) or value.utcoffset(): the offset *of
            # this value* (utcoffset(None) asks a different question: zones
            # with a varying offset answer None)
            recv, margs = x.args[0], x.args[2]
            on_tz = isinstance(recv, Sym) and recv.op == 'attr' and \
                recv.args[0] is P and recv.args[1] == 'tzinfo' and \
                len(margs) == 1 and margs[0] is P
            on_value = recv is P and len(margs) == 0
            if not (on_tz or on_value):
                return False
        else:
            return False
    return saw_none


def timestamp_operands(ctx):
    """Judge every packed operand of the timestamp encoder: it must be
    int(<aware>.timestamp()) -- the value itself when aware, the value with
    tzinfo=utc when naive -- or calendar.timegm(value) for struct_time.
    -> [(construct, ok, why)]"""
    enc, _dec = pairs.methods_tables(ctx)
    te = enc.get('timestamp')
    out = []
    if te is None:
        return [('timestamp encoder', False, 'missing')], 0
    E = pairs.enc_desc(ctx, te)
    nts = 0
    for i, p in enumerate(E.paths):
        for s in p.segs:
            if s.kind != 'fld':
                continue
            arg = s.arg
            cons = 'encode.timestamp path %d operand' % (i + 1)
            ts_calls = [t for t in T.subterms(arg)
                        if t.op == 'method' and t.args[1] == 'timestamp']
            tg_calls = [t for t in T.subterms(arg) if t.op == 'extcall']
            if not ts_calls and not tg_calls:
                out.append((cons, False, 'operand %s is neither '
                            '<datetime>.timestamp() nor calendar.timegm()' %
                            T.show(arg)[:100]))
            for t in ts_calls:
                nts += 1
                recv = t.args[0]
                okk = False
                why = 'receiver %s is not the value made aware' % \
                    T.show(recv)[:140]
                if isinstance(recv, Sym) and recv.op == 'cond':
                    g, a, b = recv.args
                    rep_ok = isinstance(a, Sym) and a.op == 'method' and \
                        a.args[0] is E.P and a.args[1] == 'replace' and \
                        len(a.args) > 3 and is_utc(dict(a.args[3]).get(
                            'tzinfo'))
                    okk = rep_ok and b is E.P and naive_test_ok(g, E.P)
                    if okk:
                        why = 'naive -> replace(tzinfo=utc), aware -> the ' \
                            'value itself'
                out.append((cons + ' .timestamp()', okk, why))
            for t in tg_calls:
                okk = t.args[0] == 'calendar.timegm' and \
                    t.args[1] == (E.P,)
                out.append((cons + ' struct_time', okk,
                            'converted by %s(%s)' % (
                                t.args[0], T.show(t.args[1])[:60])))
    return out, nts


def depends_on_sign(term, P):
    """Does the (unscaled decimal) operand depend on the sign of P?  True
    when P is used numerically, or as_tuple().sign is used."""
    tuple_terms = set()
    for t in T.subterms(term):
        if t.op == 'method' and t.args[0] is P and t.args[1] == 'as_tuple':
            tuple_terms.add(t)
    for t in T.subterms(term):
        flat = []
        for a in t.args:
            flat.extend(a if isinstance(a, tuple) else (a,))
        for a in flat:
            if a is P:
                if t in tuple_terms:
                    continue
                if t.op == 'isinstance':
                    continue
                return True
            if a in tuple_terms:
                if t.op == 'attr' and t.args[1] == 'sign':
                    return True
                if t.op == 'index' and t.args[1] == 0:
                    return True
    return False


LOSSY_DECIMAL_METHODS = {
    # methods of decimal.Decimal that can drop or alter digits of the
    # operand (trusted classification of library behaviour)
    'shift', 'rotate', 'quantize', 'to_integral', 'to_integral_value',
    'to_integral_exact', 'remainder_near', 'logical_and', 'logical_or',
    'logical_xor', 'logical_invert', 'next_minus', 'next_plus',
    'next_toward', 'sqrt', 'ln', 'log10', 'exp', 'fma', '__round__',
    '__floor__', '__ceil__', '__trunc__',
}


def decimal_sign_rule(ctx):
    """-> [(construct, ok, why)] for the decimal encoder's value field."""
    prog = ctx.prog
    de = prog.module('encode').functions.get('decimal')
    if de is None:
        return []
    E = pairs.enc_desc(ctx, de)
    out = []
    for i, p in enumerate(E.paths):
        flds = [s for s in p.segs if s.kind == 'fld']
        if len(flds) != 2:
            continue
        v = flds[1]
        lossy = sorted({t.args[1] for t in T.subterms(v.arg)
                        if t.op == 'method' and
                        t.args[1] in LOSSY_DECIMAL_METHODS})
        if lossy:
            out.append(('encode.decimal path %d scaling' % (i + 1), False,
                        'the unscaled value is computed with Decimal.%s, '
                        'which can drop digits of the operand (exact: '
                        'scaleb, multiplication by a power of ten)' %
                        '/'.join(lossy)))
        # int(value) drops the fractional digits: a path that writes it
        # with scale 0 must be taken only by values that have none
        X = _exponent_term(E)
        u = v.arg
        while isinstance(u, Sym) and u.op == 'typed' and u.args:
            u = u.args[0]
        sc = flds[0].arg
        if X is not None and isinstance(u, Sym) and u.op == 'int' and \
                len(u.args) == 1 and u.args[0] is E.P and \
                isinstance(sc, int) and not isinstance(sc, Sym):
            from . import isets
            adm = _admitted_exponents(p, X)
            bad = adm.inter(isets.ISet.range(None, -sc - 1))
            out.append(('encode.decimal path %d exactness' % (i + 1),
                        bad.is_empty(),
                        'int(value) written with scale %d only for '
                        'exponents %s' % (sc, adm) if bad.is_empty() else
                        'int(value) is written with scale %d also for '
                        'exponents %s: the fractional digits are dropped' %
                        (sc, bad)))
        out.extend(_decimal_scale_rule(i, p, flds, E, X))
        okk = depends_on_sign(v.arg, E.P)
        out.append(('encode.decimal path %d unscaled value' % (i + 1), okk,
                    'operand %s %s' % (T.show(v.arg)[:100],
                                       'depends on the sign of the value'
                                       if okk else 'is built from the '
                                       'coefficient digits only: the sign '
                                       'of the value never reaches it')))
    return out


def _strip_typed(t):
    while isinstance(t, Sym) and t.op == 'typed' and t.args:
        t = t.args[0]
    return t


def _pw_eval(t, X, x):
    """Value of the integer term t at X = x, for terms built from integer
    constants, X, + - * (by constants), max / min, abs and conditionals on
    comparisons of such terms; None for anything else."""
    t = _strip_typed(t)
    if t is X:
        return x
    if isinstance(t, bool):
        return None
    if isinstance(t, int):
        return t
    if not isinstance(t, Sym):
        return None
    ev = lambda a: _pw_eval(a, X, x)  # noqa: E731
    if t.op == 'lin':
        r = t.args[0]
        for a, k in t.args[1]:
            v = ev(a)
            if v is None:
                return None
            r += k * v
        return r
    if t.op == 'add':
        vs = [ev(a) for a in t.args]
        return None if None in vs else sum(vs)
    if t.op == 'mul':
        vs = [ev(a) for a in t.args]
        if None in vs:
            return None
        r = 1
        for v in vs:
            r *= v
        return r
    if t.op == 'neg':
        v = ev(t.args[0])
        return None if v is None else -v
    if t.op == 'abs':
        v = ev(t.args[0])
        return None if v is None else abs(v)
    if t.op in ('max', 'min'):
        args = t.args[0] if len(t.args) == 1 and isinstance(
            t.args[0], tuple) else t.args
        vs = [ev(a) for a in args]
        if None in vs or not vs:
            return None
        return max(vs) if t.op == 'max' else min(vs)
    if t.op == 'cond':
        g = _pw_guard(t.args[0], X, x)
        if g is None:
            return None
        return ev(t.args[1] if g else t.args[2])
    return None


def _pw_guard(g, X, x):
    if isinstance(g, bool):
        return g
    if not isinstance(g, Sym):
        return None
    if g.op == 'not':
        v = _pw_guard(g.args[0], X, x)
        return None if v is None else not v
    if g.op in ('and', 'or'):
        vs = [_pw_guard(a, X, x) for a in g.args]
        if None in vs:
            return None
        return all(vs) if g.op == 'and' else any(vs)
    if g.op in ('lt', 'le', 'gt', 'ge', 'eq', 'ne'):
        a, b = _pw_eval(g.args[0], X, x), _pw_eval(g.args[1], X, x)
        if a is None or b is None:
            return None
        return {'lt': a < b, 'le': a <= b, 'gt': a > b, 'ge': a >= b,
                'eq': a == b, 'ne': a != b}[g.op]
    if g.op == 'truthy':
        v = _pw_eval(g.args[0], X, x)
        return None if v is None else bool(v)
    if g.op == 'isinstance' and _strip_typed(g.args[0]) is X and \
            'int' in g.args[1]:
        return True
    return None


def _decimal_scale_rule(i, p, flds, E, X):
    """The scale octet agrees with the power of ten by which the unscaled
    field was shifted, for every exponent the path admits: the decoder
    computes unscaled * 10**-scale.  The shift of the unscaled operand is
    read off its form: scaleb(value, s) -> s; int(value) -> 0; an operand
    built from as_tuple() digits only (the coefficient) -> -exponent.  Both
    sides are piecewise-linear functions of the exponent; they are compared
    exactly, at every integer around every constant that occurs in them
    and at two points beyond on each side (where both are linear)."""
    from . import isets
    if X is None:
        return []
    P = E.P
    sc, u = _strip_typed(flds[0].arg), flds[1].arg
    tuples = {t for t in T.subterms(u) if t.op == 'method' and
              t.args[0] is P and t.args[1] == 'as_tuple'}

    def uses_value_itself(t):
        # P used other than through as_tuple()
        if t in tuples:
            return False
        if t is P:
            return True
        if isinstance(t, Sym):
            for a in t.args:
                for b in (a if isinstance(a, tuple) else (a,)):
                    if isinstance(b, Sym) and uses_value_itself(b):
                        return True
        return False
    # what a summarised comprehension / loop put into the lists the operand
    # joins (the abstract element names the iterated term)
    hidden = []
    store = getattr(p, 'store', None) or {}
    for t in T.subterms(u):
        for a in t.args:
            if isinstance(a, T.Ref) and a.id in store:
                o = store[a.id]
                hidden.append(getattr(o, 'source', None))
                hidden.extend(getattr(o, 'items', ()) or ())
    u_all = (u,) + tuple(h for h in hidden if isinstance(h, Sym))
    tuples |= {t for t in T.subterms(u_all) if t.op == 'method' and
               t.args[0] is P and t.args[1] == 'as_tuple'}
    def shift_of(t):
        # the power of ten by which the value was shifted to give t, as a
        # (conditional) term; None when the form is not one of those read
        t = _strip_typed(t)
        if t is P:
            return 0
        if not isinstance(t, Sym):
            return None
        if t.op == 'cond':
            a, b = shift_of(t.args[1]), shift_of(t.args[2])
            if a is None or b is None:
                return None
            return a if a is b else Sym('cond', t.args[0], a, b)
        if t.op == 'int' and len(t.args) == 1:
            return shift_of(t.args[0])
        if t.op == 'method' and t.args[0] is P and \
                t.args[1] == 'scaleb' and len(t.args[2]) == 1:
            return _strip_typed(t.args[2][0])
        if t.op == 'method' and t.args[1] == 'scaleb' and \
                len(t.args[2]) == 1:
            inner = shift_of(t.args[0])
            return None if inner is None else T.add(
                inner, _strip_typed(t.args[2][0]))
        if t.op == 'lin' and t.args[0] == 0 and len(t.args[1]) == 1 and \
                t.args[1][0][1] in (1, -1):
            return shift_of(t.args[1][0][0])
        return None
    shift = shift_of(u)
    form = 'scaleb / int(value)'
    if shift is None and tuples and \
            not any(uses_value_itself(x) for x in u_all) and \
            T.mentions(u_all, lambda t: t.op == 'attr' and
                       t.args[1] == 'digits') and \
            not T.mentions(u_all, lambda t: t is X):
        # a function of the sign and the coefficient digits alone: the same
        # for every exponent, so the scale has to carry the exponent
        shift, form = T.neg(X), 'coefficient digits'
    if shift is None:
        return []
    cons = 'encode.decimal path %d scale' % (i + 1)
    if sc is shift or (isinstance(sc, int) and isinstance(shift, int) and
                       sc == shift):
        return [(cons, True, 'the scale written is the shift applied to '
                 'the value (%s)' % form)]
    consts = {abs(t) for t in T.subterms((sc, shift))
              if isinstance(t, int) and not isinstance(t, bool)} | {0}
    m = max(consts) + 2
    adm = _admitted_exponents(p, X)
    bad = []
    for x in list(range(-m - 2, m + 3)):
        if adm.inter(isets.ISet.range(x, x)).is_empty():
            continue
        a, b = _pw_eval(sc, X, x), _pw_eval(shift, X, x)
        if a is None or b is None:
            return [(cons, None, 'scale %s and shift %s (%s) are not '
                     'piecewise-linear functions of the exponent' % (
                         T.show(sc)[:60], T.show(shift)[:60], form))]
        if a != b:
            bad.append(x)
    if bad:
        return [(cons, False, 'the unscaled field is the value shifted by '
                 '%s (%s) but the scale written is %s: they differ for '
                 'exponents %s%s, so the decoder rebuilds a different '
                 'number' % (T.show(shift)[:40], form, T.show(sc)[:60],
                             bad[:4], ' ...' if len(bad) > 4 else ''))]
    return [(cons, True, 'scale %s equals the shift %s (%s) for every '
             'admitted exponent %s' % (T.show(sc)[:60], T.show(shift)[:40],
                                       form, adm))]


def timestamp_decode_rule(ctx):
    """The decoder reads every wire value the encoder can produce for an
    instant up to 2106 (0 .. 2**32 - 1) as seconds, unchanged.
    -> [(construct, ok, why)]"""
    from . import isets
    ts = ctx.prog.module('decode').functions.get('timestamp')
    if ts is None:
        return []
    D = pairs.dec_desc(ctx, ts)
    out = []
    for i, dp in enumerate(D.paths):
        v = dp.value
        reads = [r for r in dp.reads]
        calls = [t for t in T.subterms(v)
                 if t.op == 'extcall' and t.args[0].endswith(
                     'fromtimestamp')]
        if not calls or not reads:
            out.append(('decode.timestamp path %d' % (i + 1), False,
                        'no fromtimestamp(read) conversion found in %s' %
                        T.show(v)[:100]))
            continue
        operand = calls[0].args[1][0] if calls[0].args[1] else None
        read = reads[0]
        read = getattr(read, 'term', read)
        # values of the read for which the operand is the read itself
        def same(t):
            if t is read:
                return isets.ISet.all()
            if isinstance(t, Sym) and t.op == 'cond':
                g, a, b = t.args
                try:
                    gs = isets.guard_set(g, read)
                except isets.NotInterval:
                    return isets.ISet.empty()
                return gs.inter(same(a)).union(
                    gs.complement().inter(same(b)))
            return isets.ISet.empty()
        s_ = same(operand)
        want = isets.ISet.range(0, (1 << 32) - 1)
        missing = want.inter(s_.complement())
        out.append(('decode.timestamp seconds range', missing.is_empty(),
                    'wire values read as seconds unchanged: %s%s' % (
                        s_, '' if missing.is_empty() else
                        '; %s (instants up to 2106) are not' % missing)))
    return out


def decimal_decode_exact(ctx):
    """The decimal decoder rebuilds the value by an operation that keeps
    the scale (multiplication by a power of ten, scaleb): a division gives
    an equal number with a shorter exponent, which re-encodes to other
    bytes.  -> [(construct, ok, why)]"""
    d = ctx.prog.module('decode').functions.get('decimal')
    if d is None:
        return []
    D = pairs.dec_desc(ctx, d)
    out = []
    for i, dp in enumerate(D.paths):
        ops = sorted({t.op for t in T.subterms(dp.value)
                      if t.op in ('div', 'truediv', 'floordiv', 'mod')} |
                     {t.args[1] for t in T.subterms(dp.value)
                      if t.op == 'method' and isinstance(t.args[1], str) and
                      t.args[1] in ('normalize', 'quantize',
                                    'to_integral_value')})
        out.append(('decode.decimal path %d exact scale' % (i + 1), not ops,
                    'the value is rebuilt without division / '
                    'normalisation' if not ops else
                    'the value is rebuilt with %s: trailing zeros are lost '
                    '(19.90 comes back as 19.9), so it does not re-encode to '
                    'the bytes received' % '/'.join(ops)))
    return out


def decimal_context_rule(ctx):
    """The decimal codec does its arithmetic under the caller's context
    (28 digits by default, enough for the 10 digits of a 32-bit unscaled
    value): it installs no context of its own.  -> [(construct, ok, why)]"""
    import ast as _ast
    prog = ctx.prog
    funcs = {}
    for mod, desc in (('encode', pairs.enc_desc), ('decode',
                                                   pairs.dec_desc)):
        fi = prog.module(mod).functions.get('decimal')
        if fi is None:
            continue
        funcs[fi.qualname] = fi
        for short, _c, _s, _d in desc(ctx, fi).interp.calls:
            f_ = prog.functions.get('pamqp.' + short.split(' ')[0])
            if f_ is not None:
                funcs[f_.qualname] = f_
    hits = []
    for fi in funcs.values():
        for n in _ast.walk(fi.node):
            if not isinstance(n, (_ast.Name, _ast.Attribute)):
                continue
            try:
                tgt = prog.resolve_static(fi.module, n, fi.module)
            except Exception:
                continue
            if isinstance(tgt, tuple) and tgt and tgt[0] == 'ext' and \
                    tgt[1] in ('decimal.ExtendedContext',
                               'decimal.BasicContext'):
                hits.append('%s (9 digits) at %s:%d' % (
                    tgt[1], fi.module.relpath, n.lineno))
        for n in _ast.walk(fi.node):
            # Context(prec=k) / something.prec = k with a constant k < 10
            if isinstance(n, _ast.keyword) and n.arg == 'prec' and \
                    isinstance(n.value, _ast.Constant) and \
                    isinstance(n.value.value, int) and n.value.value < 10:
                hits.append('prec=%d at %s:%d' % (
                    n.value.value, fi.module.relpath, n.value.lineno))
            if isinstance(n, _ast.Assign) and len(n.targets) == 1 and \
                    isinstance(n.targets[0], _ast.Attribute) and \
                    n.targets[0].attr == 'prec' and \
                    isinstance(n.value, _ast.Constant) and \
                    isinstance(n.value.value, int) and n.value.value < 10:
                hits.append('.prec = %d at %s:%d' % (
                    n.value.value, fi.module.relpath, n.lineno))
    return [('decimal arithmetic context', not hits,
             '%d functions on the decimal path, none installs a context of '
             'fewer than 10 digits' % len(funcs) if not hits else
             'the decimal codec computes under a context of fewer than the '
             '10 digits a 32-bit unscaled value can have (%s): the value '
             'is rounded' % '; '.join(sorted(set(hits))[:3]))]


def decimal_accept_rule(ctx):
    """Acceptance of the decimal encoder: no explicit guard on a return
    path excludes a scale in 0..255 or an unscaled value in the signed
    32-bit range.  -> [(construct, ok, why)]"""
    from . import isets
    prog = ctx.prog
    de = prog.module('encode').functions.get('decimal')
    if de is None:
        return []
    E = pairs.enc_desc(ctx, de)
    out = []
    want = {0: isets.ISet.range(0, 255),
            1: isets.ISet.range(-(1 << 31), (1 << 31) - 1)}
    names = {0: 'scale', 1: 'unscaled value'}
    union = {0: isets.ISet.empty(), 1: isets.ISet.empty()}
    seen = {0: False, 1: False}
    for p in E.paths:
        flds = [s for s in p.segs if s.kind == 'fld']
        if len(flds) != 2:
            continue
        for j in (0, 1):
            arg = flds[j].arg
            if isinstance(arg, int) and not isinstance(arg, Sym):
                union[j] = union[j].union(isets.ISet.range(arg, arg))
                seen[j] = True
                continue
            if not isinstance(arg, Sym):
                continue
            seen[j] = True
            s_ = isets.ISet.all()
            for a in p.kn.atoms:
                if isinstance(a, Sym) and not isets.is_type_atom(a):
                    s_ = s_.inter(isets.superset(a, arg))
            union[j] = union[j].union(s_)
    out.extend(_decimal_exponents(E))
    for j in (0, 1):
        if not seen[j]:
            continue
        missing = want[j].inter(union[j].complement())
        out.append(('encode.decimal accepted %s' % names[j],
                    missing.is_empty(),
                    'guards admit %s' % union[j] if missing.is_empty() else
                    'guards admit %s: %s in the %s range is refused' %
                    (union[j], missing, names[j])))
    return out


def _exponent_term(E):
    X = None
    for p in E.paths:
        terms = [a for a in p.kn.atoms if isinstance(a, Sym)] + \
            [s.arg for s in p.segs if s.kind == 'fld' and
             isinstance(s.arg, Sym)]
        for t in T.subterms(tuple(terms)):
            if t.op == 'attr' and t.args[1] == 'exponent':
                X = t
    return X


def _admitted_exponents(p, X):
    """Integer exponents the conditions of a return path allow
    (`isinstance(exponent, int)` taken as true): a superset."""
    from . import isets
    typ = {t: True for a in p.kn.atoms if isinstance(a, Sym)
           for t in T.subterms(a)
           if t.op == 'isinstance' and t.args[0] is X and
           'int' in t.args[1]}
    s_ = isets.ISet.all()
    for a in p.kn.atoms:
        if not isinstance(a, Sym):
            continue
        a2 = T.subst(a, typ) if typ else a
        if a2 is False:
            s_ = isets.ISet.empty()
        elif isinstance(a2, Sym):
            s_ = s_.inter(isets.superset(a2, X))
    return s_


def _decimal_exponents(E):
    """Every Decimal whose exponent is an integer >= -255 has a return
    path: the exponents a path admits are those its conditions allow (with
    `isinstance(exponent, int)` taken as true) and for which the scale it
    writes fits the unsigned octet.  A positive exponent is scale 0."""
    from . import isets
    X = _exponent_term(E)
    if X is None:
        return []
    union = isets.ISet.empty()
    for p in E.paths:
        flds = [s for s in p.segs if s.kind == 'fld']
        if len(flds) != 2:
            continue
        s_ = _admitted_exponents(p, X)
        sc = flds[0].arg
        if isinstance(sc, int) and not isinstance(sc, Sym):
            if not 0 <= sc <= 255:
                s_ = isets.ISet.empty()
        elif isinstance(sc, Sym) and T.mentions(sc, lambda t: t is X):
            parts = T._lin_parts(sc)
            if parts is not None and set(parts[1]) == {X} and \
                    parts[1][X] in (1, -1):
                c, k = parts[0], parts[1][X]
                lo, hi = ((0 - c), (255 - c)) if k == 1 else \
                    ((c - 255), c)
                s_ = s_.inter(isets.ISet.range(lo, hi))
        union = union.union(s_)
    want = isets.ISet.range(-255, None)
    missing = want.inter(union.complement())
    return [('encode.decimal accepted exponents', missing.is_empty(),
             'integer exponents %s have a return path' % union
             if missing.is_empty() else
             'integer exponents %s have no return path (admitted: %s): '
             'those Decimals are refused' % (missing, union))]


def table_key_rule(ctx, limit=128, exact=False):
    """The key handed to short_string in the table writer is the dict key
    itself, or the key truncated to >= limit characters exactly when it has
    more than limit characters.  -> [(construct, ok, why)]"""
    fi, P, loops, it, outs = tables.table_loop(ctx)
    out = []
    if len(loops) != 1:
        return [('encode.field_table key', None, 'no single entry loop')]
    app = tables.appended_in_loop(it, loops[0])
    for runs in app.values():
        for items in runs:
            for x in items:
                if not (isinstance(x, Sym) and x.op == 'enc' and
                        x.args[0] == 'encode.short_string'):
                    continue
                k = x.args[1]
                raw = [t for t in T.subterms(k) if t.op == 'index' and
                       isinstance(t.args[0], Sym) and
                       t.args[0].op == 'elem' and t.args[1] == 0]
                K = raw[0] if raw else None
                okk = False
                why = 'key passed as %s' % T.show(k)[:120]
                if K is not None and k is K:
                    okk, why = True, 'the key is emitted unchanged'
                elif K is not None and isinstance(k, Sym) and \
                        k.op == 'cond':
                    g, a, b = k.args
                    if isinstance(g, Sym) and g.op == 'not':
                        g, a, b = g.args[0], b, a
                    lim = None
                    if isinstance(g, Sym) and g.op in ('gt', 'ge') and \
                            g.args[0] is T.length(K) and \
                            isinstance(g.args[1], int):
                        lim = g.args[1] if g.op == 'gt' else g.args[1] - 1
                    tr_ok = isinstance(a, Sym) and a.op == 'slice' and \
                        a.args[0] is K and a.args[1] == 0 and \
                        isinstance(a.args[2], int) and lim is not None and \
                        a.args[2] >= limit and lim >= limit
                    okk = tr_ok and b is K
                    if okk and exact:
                        # the documented rule itself: names of more than
                        # `limit` characters are cut to exactly `limit`
                        okk = lim == limit and a.args[2] == limit
                    why = 'truncated iff %s to %s' % (T.show(g)[:60],
                                                      T.show(a)[:60])
                out.append(('encode.field_table key', okk, why))
    if not out:
        out.append(('encode.field_table key', None, 'no key emission found'))
    return out


def flag_word_rule(ctx):
    """ContentHeader._get_flags: word k of the property flags lands at bits
    16k..16k+15 (the first word stays in the low 16 bits, where the flag
    masks are).  -> [(construct, ok, why)]"""
    prog = ctx.prog
    hci = prog.cls('header.ContentHeader')
    m = prog.find_method(hci, '_get_flags')
    if m is None:
        return [('ContentHeader._get_flags', None, 'missing')]
    it = ctx.interp()
    st = ctx.new_state()
    args = [codec.buf('data')]
    if m.kind != 'staticmethod':
        it.cur_module, it.pending, it.stack = m.module, [], []
        ref = it.instantiate(hci, [], {}, st, m.node)
        it.flush_pending()
        args = [ref] + args
    outs = it.run_function(m, args, {}, st)
    loops = [l for l in it.loops if l['func'] is m]
    if not loops:
        rets0 = [o for o in outs if o.kind == 'return' and
                 isinstance(o.value, tuple) and len(o.value) == 2]
        if rets0 and all(isinstance(o.value[0], int) and
                         not isinstance(o.value[0], Sym) for o in rets0):
            return [('ContentHeader._get_flags', False,
                     'always reports %s octets of flags: a first flag word '
                     'with the continuation bit set is not followed to the '
                     'next word' % sorted({o.value[0] for o in rets0}))]
        return [('ContentHeader._get_flags', None, 'no data-dependent loop '
                 '(single flag word only?)')]
    lp = loops[0]
    out = []
    rets = [o for o in outs if o.kind == 'return']
    fl_name = None
    for o in rets:
        if isinstance(o.value, tuple) and len(o.value) == 2 and \
                isinstance(o.value[1], Sym):
            rv = o.value[1]
            direct = rv.args if rv.op == 'bitor' else (rv,)
            for name, v in lp['start_env'].items():
                if isinstance(v, Sym) and v.op == 'typed' and \
                        any(d is v or (isinstance(d, Sym) and d.op == 'shl'
                                       and d.args[0] is v)
                            for d in direct):
                    fl_name = name
    if fl_name is None:
        cands = [n for n in lp['start_env'] if 'flag' in n and
                 'index' not in n and 'partial' not in n]
        fl_name = cands[0] if cands else None
    if fl_name is None:
        return [('ContentHeader._get_flags', None, 'flag accumulator not '
                 'identified')]
    # the loop goes on exactly when the word just read has its continuation
    # bit (bit 0) set
    n0 = len(lp['start'].kn.atoms)
    for kind, want_op in (('conts', 'ne'), ('breaks', 'eq')):
        for o in lp[kind]:
            tests = [a for a in o.state.kn.atoms[n0:]
                     if isinstance(a, Sym) and
                     T.mentions(a, lambda t: t.op == 'bitand')]
            if not tests and kind == 'conts' and isinstance(
                    lp.get('test'), Sym):
                # `while more: ...; more = bool(word & 1)`: the condition
                # of the next iteration is the value the body leaves in the
                # variable the loop tests
                for nm_, v0_ in lp['start_env'].items():
                    if isinstance(v0_, Sym) and T.mentions(
                            lp['test'], lambda t, v0_=v0_: t is v0_):
                        nv_ = o.state.env.get(nm_)
                        if isinstance(nv_, Sym) and T.mentions(
                                nv_, lambda t: t.op == 'bitand'):
                            tests.append(nv_ if nv_.op != 'typed'
                                         else nv_.args[0])
            okc = None
            desc = 'no test of the flag word found'
            for a in tests:
                neg = False
                while isinstance(a, Sym) and a.op == 'not':
                    a, neg = a.args[0], not neg
                if isinstance(a, Sym) and a.op == 'truthy':
                    a = T.compare('ne', a.args[0], 0)
                if isinstance(a, Sym) and a.op in ('eq', 'ne') and \
                        a.args[1] == 0 and isinstance(a.args[0], Sym) and \
                        a.args[0].op == 'bitand':
                    op_ = a.op if not neg else ('ne' if a.op == 'eq'
                                                else 'eq')
                    masks = [x for x in a.args[0].args if isinstance(x, int)]
                    okc = op_ == want_op and masks == [1]
                    desc = '%s when (word & %s) %s 0' % (
                        'continues' if kind == 'conts' else 'stops',
                        masks[0] if masks else '?',
                        '!=' if op_ == 'ne' else '==')
                elif isinstance(a, Sym) and a.op in ('eq', 'ne') and \
                        a.args[1] == 1 and isinstance(a.args[0], Sym) and \
                        a.args[0].op == 'bitand':
                    op_ = a.op if not neg else ('ne' if a.op == 'eq'
                                                else 'eq')
                    masks = [x for x in a.args[0].args if isinstance(x, int)]
                    okc = (op_ == 'eq') == (want_op == 'ne') and \
                        masks == [1]
                    desc = '%s when (word & %s) %s 1' % (
                        'continues' if kind == 'conts' else 'stops',
                        masks[0] if masks else '?',
                        '==' if op_ == 'eq' else '!=')
            out.append(('ContentHeader._get_flags continuation (%s)' %
                        kind, okc, desc + (
                            '' if okc else ': the grammar continues the '
                            'flag words exactly while bit 0 is set')))
    old = lp['start_env'][fl_name]
    for o in lp['conts'] + lp['breaks']:
        new = o.state.env.get(fl_name)
        parts = new.args if isinstance(new, Sym) and new.op == 'bitor' \
            else (new,)
        keeps_old = any(p is old for p in parts)
        words = [p for p in parts if p is not old]
        w_ok = True
        desc = []
        for w in words:
            if isinstance(w, Sym) and w.op == 'shl':
                amt = w.args[1]
                parts_ = T._lin_parts(amt)
                ok_amt = parts_ is not None and parts_[0] % 16 == 0 and \
                    T.nonneg(amt, o.state.kn)
                for tm, k in (parts_[1].items() if parts_ else ()):
                    if k % 16 == 0:
                        continue
                    # a running shift variable: starts at a multiple of 16
                    # and moves by a multiple of 16 per iteration
                    name = next((n_ for n_, v_ in lp['start_env'].items()
                                 if v_ is tm), None)
                    pre_v = lp.get('pre', {}).get(name)
                    step_ok = name is not None and \
                        isinstance(pre_v, int) and pre_v % 16 == 0
                    for oc in lp['conts']:
                        d_ = T.sub(oc.state.env.get(name), tm) \
                            if name else None
                        if not (isinstance(d_, int) and d_ % 16 == 0):
                            step_ok = False
                    ok_amt = ok_amt and step_ok
                desc.append('word << %s' % T.show(amt)[:40])
                w_ok = w_ok and ok_amt
            else:
                # an unshifted word is only right for the first word
                desc.append('word unshifted')
                w_ok = w_ok and False
        out.append(('ContentHeader._get_flags accumulation',
                    keeps_old and w_ok,
                    'flags := %s' % T.show(new)[:140] if not (
                        keeps_old and w_ok) else
                    'earlier words stay in place, next word placed at a '
                    'multiple of 16 (%s)' % ', '.join(desc)))
    return out
