"""Field-table level analyses shared by C03, C04, C05, C10, C11, C12: the
type-dispatch arms of encode_table_value, the integer ladders, the tag ->
decoder table and the container loops."""
from . import codec
from . import interp as I
from . import isets
from . import models
from . import pairs
from . import terms as T
from .model import AnalysisError, FuncInfo
from .terms import Sym


class ArmPolicy(I.Policy):
    """Summarise every function of pamqp.encode except the ones in ``keep``
    (so that the function under analysis shows its dispatch structure)."""

    def __init__(self, prog, keep, flag=None):
        self.prog = prog
        self.keep = set(keep)
        self.flag = flag  # value assumed for the legacy switch, or None
        self.flag_reads = 0

    def summarise(self, interp, fi, args, kwargs, state):
        if fi.module.name.endswith('.encode') and \
                fi.qualname not in self.keep and len(args) >= 1 and \
                not isinstance(fi.node, type(None)):
            if fi.name == '<lambda>':
                return None
            if fi.owner is not None or fi.is_generator or (
                    fi.name.startswith('_') and
                    fi.name != '_deprecated_table_integer'):
                # methods of helper classes, generators and private helpers
                # are part of the function under analysis: inlined
                return None
            return Sym('enc', fi.short, I._as_term(args[0]),
                       *[I._as_term(a) for a in args[1:]]), []
        return None

    def decide_hook(self, interp, atom, state):
        if self.flag is None:
            return None
        if T.mentions(atom, lambda t: t.op == 'global'):
            # the only run-time global of the package is the legacy switch
            self.flag_reads += 1
            if isinstance(atom, Sym) and atom.op == 'truthy':
                return bool(self.flag)
            if isinstance(atom, Sym) and atom.op == 'not' and \
                    isinstance(atom.args[0], Sym) and \
                    atom.args[0].op == 'truthy':
                return not self.flag
        return None


def split_tag(term):
    """concat(b'x', enc(...)) -> (b'x', rest parts)"""
    parts = term.args if isinstance(term, Sym) and term.op == 'concat' \
        else [term]
    parts = list(parts)
    if parts and isinstance(parts[0], bytes):
        return parts[0], parts[1:]
    return b'', parts


class Arm:
    def __init__(self, atoms, term, kn):
        self.atoms = atoms
        self.term = term
        self.kn = kn
        self.tag, rest = split_tag(term)
        self.callee = None
        self.operand = None
        self.extra = ()
        if len(rest) == 1 and isinstance(rest[0], Sym) and \
                rest[0].op == 'enc':
            self.callee = rest[0].args[0]
            self.operand = rest[0].args[1]
            self.extra = tuple(rest[0].args[2:])
        elif not rest:
            self.callee = ''
        self.rest = rest

    def __repr__(self):
        return 'Arm(%r, %s)' % (self.tag, self.callee)


def value_arms(ctx):
    """Dispatch arms of encode.encode_table_value, in program order."""
    prog = ctx.prog
    fi = prog.function('encode.encode_table_value')
    pol = ArmPolicy(prog, {fi.qualname})
    it, outs = codec.run(prog, fi, None, pol)
    P = codec.symbolic_args(fi)[0]
    arms = []
    for o in outs:
        if o.kind == 'return':
            arms.append(Arm(list(o.state.kn.atoms), o.value, o.state.kn))
    rejects = [o for o in outs if o.kind == 'raise' and
               not o.exc.primitive]
    return fi, P, arms, rejects, it


def arm_test(arm, P):
    """The positive type test of an arm: set of type names accepted by its
    last atom (isinstance(P, types) or P is None)."""
    for a in reversed(arm.atoms):
        if isinstance(a, Sym) and a.op == 'isinstance' and a.args[0] is P:
            return set(a.args[1])
        if isinstance(a, Sym) and a.op == 'is' and a.args[0] is P and \
                a.args[1] is None:
            return {'NoneType'}
    return None


def first_accepting(arms, P, pytype):
    sup = models.supertypes(pytype)
    for arm in arms:
        t = arm_test(arm, P)
        if t is None:
            continue
        if t & sup:
            return arm
    return None


def _has_ref(x):
    if isinstance(x, T.Ref):
        return True
    if isinstance(x, tuple):
        return any(_has_ref(e) for e in x)
    if isinstance(x, Sym):
        return any(_has_ref(a) for a in x.args)
    return False


def _cond_leaves(v, guards=()):
    """[(guard atoms, leaf value)] of a (nested) conditional value."""
    if isinstance(v, Sym) and v.op == 'cond' and len(guards) < 12:
        g, a, b = v.args
        return _cond_leaves(a, guards + (g,)) + \
            _cond_leaves(b, guards + (T.not_(g),))
    return [(guards, v)]


def ladder_arms(ctx, legacy, fi=None, within=None, depth=0, extra=(),
                inline=()):
    """Arms of the integer ladder with the legacy switch off/on:
    [(ISet, Arm)], reject ISet, info.  An arm that merely delegates to
    another encode function (no tag of its own) is expanded by analysing
    that function in turn."""
    prog = ctx.prog
    if fi is None:
        fi = prog.function('encode.table_integer')
    if within is None:
        within = isets.ISet.all()
    pol = ArmPolicy(prog, {fi.qualname} | set(inline), flag=bool(legacy))
    sargs = codec.symbolic_args(fi)
    P = sargs[0]
    if extra:
        sargs = [P] + list(extra) + sargs[1 + len(extra):]
    it, outs = codec.run(prog, fi, sargs, pol)
    arms = []
    problems = []
    reject = isets.ISet.empty()
    rej_types = set()
    flag_reads = pol.flag_reads
    funcs = [fi.short]
    # helpers the interpreter inlined are part of the ladder as well
    for c_ in it.calls:
        nm_ = c_[0]
        if not nm_.endswith('[summarised]') and nm_.startswith('encode.') \
                and nm_ not in funcs:
            funcs.append(nm_)
    leaves = []
    for o in outs:
        if o.kind != 'return':
            continue
        # a return value that is a conditional over several encodings (the
        # joined result of an inlined helper) is one arm per leaf
        for guards, leaf in _cond_leaves(o.value):
            leaves.append((o, guards, leaf))
    for o, guards, leaf in leaves:
        try:
            s = isets.path_set(list(o.state.kn.atoms) + list(guards),
                               P).inter(within)
        except isets.NotInterval as err:
            problems.append('arm guard outside the interval logic: %s' % err)
            continue
        if s.is_empty() and guards:
            continue
        kn_ = o.state.kn
        if guards:
            kn_ = o.state.kn.copy()
            for g_ in guards:
                kn_.assume(g_)
        arm = Arm(list(o.state.kn.atoms) + list(guards), leaf, kn_)
        if arm.tag == b'' and arm.callee and arm.operand is P and \
                depth < 4:
            sub_fi = prog.functions.get('pamqp.' + arm.callee)
            if sub_fi is not None and \
                    sub_fi.module.name.endswith('.encode') and \
                    any(_has_ref(e) for e in arm.extra):
                # the delegate receives objects of this run (a table of
                # ranges ...): analyse it inlined instead of on its own
                if sub_fi.qualname in inline:
                    problems.append('delegate %s could not be inlined' %
                                    sub_fi.short)
                    continue
                return ladder_arms(ctx, legacy, fi, within, depth, extra,
                                   tuple(inline) + (sub_fi.qualname,))
            if sub_fi is not None and \
                    sub_fi.module.name.endswith('.encode'):
                sub = ladder_arms(ctx, legacy, sub_fi, s, depth + 1,
                                  arm.extra)
                arms.extend(sub['arms'])
                reject = reject.union(sub['reject'])
                rej_types |= sub['reject_types']
                problems.extend(sub['problems'])
                flag_reads += sub['flag_reads']
                funcs.extend(sub['funcs'])
                continue
        arms.append((s, arm))
    for o in outs:
        if o.kind == 'raise' and not o.exc.primitive:
            try:
                reject = reject.union(
                    isets.path_set(o.state.kn.atoms, P).inter(within))
            except isets.NotInterval as err:
                problems.append('reject guard outside the interval logic: '
                                '%s' % err)
            rej_types.add(o.exc.type_name)
    return {'func': fi, 'P': P, 'arms': arms, 'reject': reject,
            'reject_types': rej_types, 'problems': problems,
            'flag_reads': flag_reads, 'interp': it, 'outs': outs,
            'funcs': funcs}


def tag_decoders(ctx):
    """decode.TABLE_MAPPING as {tag bytes: FuncInfo}."""
    it = ctx.static()
    mod = ctx.prog.module('decode')
    if 'TABLE_MAPPING' not in mod.bindings:
        raise AnalysisError('anchor vanished: decode.TABLE_MAPPING')
    items = ctx.dict_value(it, ctx.new_state(),
                           it.global_value(mod, 'TABLE_MAPPING'),
                           'decode.TABLE_MAPPING')
    out = {}
    dups = []
    for k, v in items:
        if k in out:
            dups.append(k)
        out[k] = v
    return out, dups


def single_field(E):
    """The one value field every return path of a fixed-width encoder
    emits: -> (Seg, path) list, or None when the shape differs."""
    out = []
    for p in E.paths:
        flds = [s for s in p.segs if s.kind == 'fld']
        if len(p.segs) != 1 or len(flds) != 1:
            return None
        out.append((flds[0], p))
    return out


def check_tag_encoders(chk, ctx, rule):
    """Each emitted tag's encoder writes the reference encoding of the tag
    (width, signedness, order)."""
    spec = ctx.spec
    tags = spec.tables['field_tags']
    _fi, P, arms, _rej, _it = value_arms(ctx)
    todo = []
    for arm in arms:
        if arm.callee is None:
            if T.mentions(arm.term, lambda t: t.op in ('tableget',
                                                       'dyncall')):
                chk.ob(rule, 'arm %r' % (arm.tag,), False,
                       'the bytes emitted are read from a module-level '
                       'table at run time (%s): they depend on call '
                       'history, not only on the value' %
                       T.show(arm.term)[:80])
                continue
            chk.undecide(rule, 'arm %r' % (arm.tag,), 'arm does not emit '
                         'tag ++ one encoder call: %s' %
                         T.show(arm.term)[:100])
            continue
        if arm.callee == 'encode.table_integer':
            continue
        todo.append((arm.tag, arm.callee, None))
    for legacy in (False, True):
        lad = ladder_arms(ctx, legacy)
        for s, arm in lad['arms']:
            todo.append((arm.tag, arm.callee, s))
    seen = set()
    for tag, callee, arm_set in todo:
        if (tag, callee, arm_set) in seen:
            continue
        seen.add((tag, callee, arm_set))
        cons = 'tag %r (%s)' % (tag, callee or 'no payload')
        tname = tag.decode('latin-1')
        ref = tags.get(tname)
        if ref is None:
            chk.ob(rule, cons, False, 'emitted tag is not in the field-value '
                   'grammar')
            continue
        if callee == '':
            chk.ob(rule, cons, ref['kind'] == 'void', 'tag without payload')
            continue
        fi = ctx.prog.functions.get('pamqp.' + callee)
        E = pairs.enc_desc(ctx, fi)
        site = '%s:%d' % (fi.module.relpath, fi.node.lineno)
        kind = ref['kind']
        if kind in ('int', 'bool', 'float', 'timestamp'):
            sf = single_field(E)
            if sf is None:
                chk.undecide(rule, cons, 'encoder does not emit one packed '
                             'field: %r' % ([p.segs for p in E.paths],))
                continue
            for seg, p in sf:
                want_kind = 'float' if kind == 'float' else 'int'
                okk = seg.size == ref['size'] and seg.fkind == want_kind \
                    and (seg.size == 1 or seg.order == 'big')
                fact = 'emits %s' % pairs._fld_text(seg)
                if okk and kind != 'float' and \
                        seg.signed != ref.get('signed'):
                    # same width, other signedness: the bytes equal the
                    # reference encoding exactly for the values both
                    # formats accept; every value that reaches the field
                    # must therefore lie in the reference range
                    bits = 8 * seg.size
                    refset = isets.ISet.range(
                        -(1 << (bits - 1)) if ref.get('signed') else 0,
                        (1 << (bits - 1)) - 1 if ref.get('signed')
                        else (1 << bits) - 1)
                    actual = isets.ISet.range(*pairs.fmt_range(seg))
                    reach = actual
                    if arm_set is not None:
                        reach = reach.inter(arm_set)
                    if p.range is not None:
                        reach = reach.inter(isets.ISet.range(*p.range))
                    okk = reach.subset(refset)
                    fact += '; reference is %s; values that reach the ' \
                        'field and are accepted: %r' % (
                            'signed' if ref.get('signed') else 'unsigned',
                            reach)
                chk.ob(rule, cons, okk, fact, detail={'reference': ref},
                       site=site)
        elif kind == 'decimal':
            for p in E.paths:
                flds = [s for s in p.segs if s.kind == 'fld']
                okk = len(flds) == 2 and len(p.segs) == 2 and \
                    flds[0].size == ref['scale']['size'] and \
                    flds[0].signed == ref['scale']['signed'] and \
                    flds[1].size == ref['value']['size'] and \
                    flds[1].signed == ref['value']['signed'] and \
                    flds[1].order == 'big'
                chk.ob(rule, cons, okk, 'emits %r' % (p.segs,),
                       detail={'reference': ref}, site=site)
        elif kind in ('longstr', 'bytes', 'array', 'table'):
            for p in E.paths:
                segs = p.segs
                if len(segs) == 1 and segs[0].kind == 'const':
                    chk.ob(rule, cons, segs[0].data == b'\0' * ref['prefix'],
                           'empty container emitted as %r' % segs[0].data,
                           site=site)
                    continue
                want2 = {'longstr': 'utf8', 'bytes': 'raw',
                         'array': 'elems', 'table': 'elems'}[kind]
                okk = len(segs) == 2 and segs[0].kind == 'fld' and \
                    segs[0].size == ref['prefix'] and \
                    segs[0].signed is False and segs[0].order == 'big' and \
                    segs[1].kind == want2 and \
                    segs[0].operand[0] == 'len' and \
                    segs[0].operand[1] is segs[1].term
                chk.ob(rule, cons, okk, 'emits %r' % (segs,),
                       detail={'reference': ref}, site=site)
        else:
            chk.undecide(rule, cons, 'no reference form for kind ' + kind)


def table_loop(ctx):
    """The entry loop of encode.field_table: -> dict(iterable, appended,
    loop, interp, P) with short_string / encode_table_value summarised."""
    prog = ctx.prog
    fi = prog.function('encode.field_table')
    pol = ArmPolicy(prog, {fi.qualname})
    it, outs = codec.run(prog, fi, None, pol)
    P = codec.symbolic_args(fi)[0]
    loops = [l for l in it.loops if l['func'] is fi]
    return fi, P, loops, it, outs


def appended_in_loop(it, loop):
    """Elements appended to lists during one abstract iteration:
    {list id: [terms]} (from the continuing outcomes)."""
    res = {}
    start = loop['start']
    for o in loop['conts']:
        for i, ob in o.state.store.items():
            old = start.store.get(i)
            if old is None or old is ob or ob.kind != 'list':
                continue
            n = len(old.items)
            flat_ = []
            for x in ob.items[n:]:
                # `out += a + b` appends one concatenation: the same bytes
                # as appending a and then b
                if isinstance(x, Sym) and x.op == 'concat':
                    flat_.extend(x.args)
                else:
                    flat_.append(x)
            res.setdefault(i, []).append(flat_)
    return res


NON_INJECTIVE_STR_METHODS = {
    'lower', 'upper', 'casefold', 'swapcase', 'title', 'capitalize',
    'strip', 'lstrip', 'rstrip', 'split', 'partition', 'replace',
    'translate', 'expandtabs', 'center', 'ljust', 'rjust', 'zfill',
    'startswith', 'endswith', 'find', 'count', 'isalpha', 'isdigit',
}


def sort_key_orders_by_name(ctx, fi, loop_node):
    """sorted(..., key=K) in the entry loop: K must map an item to its
    name (item[0]).  -> (True | False | None, text)"""
    import ast as _ast
    from . import interp as _I
    call = loop_node.iter if isinstance(loop_node, _ast.For) else None
    kw = None
    for n in _ast.walk(call) if call is not None else ():
        if isinstance(n, _ast.Call) and isinstance(n.func, _ast.Name) and \
                n.func.id == 'sorted':
            for k in n.keywords:
                if k.arg == 'key':
                    kw = k.value
    if kw is None:
        return None, 'the key argument of sorted() was not found'
    prog = ctx.prog
    item = Sym('param', 'item')
    res = None
    if isinstance(kw, _ast.Call):
        try:
            t = prog.resolve_static(fi.module, kw.func, fi.module)
        except Exception:
            t = None
        if isinstance(t, tuple) and t and t[0] == 'ext' and \
                t[1] == 'operator.itemgetter' and len(kw.args) == 1 and \
                isinstance(kw.args[0], _ast.Constant) and \
                kw.args[0].value == 0:
            return True, 'key = operator.itemgetter(0): the name itself'
        return None, 'key = %s is not a function the analysis can run' % \
            _ast.unparse(kw)[:60]
    target = None
    if isinstance(kw, _ast.Lambda):
        target = prog.lambdas.get(id(kw))
    else:
        try:
            t = prog.resolve_static(fi.module, kw, fi.module)
        except Exception:
            t = None
        if isinstance(t, _I.FuncInfo):
            target = t
    if target is None:
        return None, 'key = %s is not a function the analysis can run' % \
            _ast.unparse(kw)[:60]
    it = ctx.interp()
    try:
        outs = it.run_function(target, [item], {}, ctx.new_state())
    except Exception as err:
        return None, 'key function could not be analysed: %s' % err
    rets = [o for o in outs if o.kind == 'return']
    if len(rets) != 1:
        return None, 'key function has %d return paths' % len(rets)
    res = rets[0].value
    name = Sym('index', item, 0)
    if res is name or res == name:
        return True, 'key(item) = item[0]: the name itself'
    bad = sorted({t.args[1] for t in T.subterms(res)
                  if t.op == 'method' and isinstance(t.args[1], str) and
                  t.args[1] in NON_INJECTIVE_STR_METHODS} |
                 {t.op for t in T.subterms(res) if t.op == 'len'})
    if isinstance(res, Sym) and res.op == 'slice' and res.args[0] is name \
            or (isinstance(res, Sym) and res.op == 'slice' and
                res.args[0] == name):
        # a prefix (or any slice) of the name: names that differ only
        # outside it tie
        bad = bad + ['a slice of the name']
    if bad:
        return False, 'key(item) = %s: distinct names can compare equal ' \
            '(%s), so ties keep insertion order and the order is not ' \
            'ascending by name' % (T.show(res)[:80], '/'.join(bad))
    return None, 'key(item) = %s: not recognised as order-preserving' % \
        T.show(res)[:80]


def array_items_encoded(ctx):
    """Does encode.field_array append encode_table_value(item) - and
    nothing else - for every item of its argument?"""
    prog = ctx.prog
    fa = prog.module('encode').functions.get('field_array')
    if fa is None:
        return False
    pol = ArmPolicy(prog, {fa.qualname})
    it, outs = codec.run(prog, fa, None, pol)
    loops = [l for l in it.loops if l['func'] is fa]
    okk = False
    if len(loops) == 1:
        app = appended_in_loop(it, loops[0])
        shapes = [items for runs in app.values() for items in runs]
        okk = bool(shapes) and all(
            len(items) == 1 and isinstance(items[0], Sym) and
            items[0].op == 'enc' and
            items[0].args[0] == 'encode.encode_table_value' and
            isinstance(items[0].args[1], Sym) and
            items[0].args[1].op == 'elem' for items in shapes)
    if not loops:
        comps = [c for c in it.comps if c['func'] is fa]
        okk = len(comps) == 1 and len(comps[0]['elts']) == 1 and \
            isinstance(comps[0]['elts'][0], Sym) and \
            comps[0]['elts'][0].op == 'enc' and \
            comps[0]['elts'][0].args[0] == 'encode.encode_table_value' and \
            isinstance(comps[0]['elts'][0].args[1], Sym) and \
            comps[0]['elts'][0].args[1].op == 'elem'
    return okk


def check_table_entry_order(chk, ctx, rule):
    fi, P, loops, it, outs = table_loop(ctx)
    site = '%s:%d' % (fi.module.relpath, fi.node.lineno)
    if len(loops) != 1:
        chk.undecide(rule, 'encode.field_table', 'expected one entry loop, '
                     'found %d' % len(loops))
        return
    loop = loops[0]
    node = loop['node']
    # iterable: sorted(<value>.items()) with default or key-only ordering
    from .interp import Frame
    elem = None
    for o in loop['conts'] + loop['raises']:
        pass
    iterable = loop_iterable(it, loop)
    okk = isinstance(iterable, Sym) and iterable.op == 'sorted' and \
        isinstance(iterable.args[0], Sym) and \
        iterable.args[0].op == 'method' and \
        iterable.args[0].args[0] is P and \
        iterable.args[0].args[1] == 'items' and \
        all(k == 'key' for k, _ in iterable.args[1])
    rev = isinstance(iterable, Sym) and iterable.op == 'sorted' and \
        any(k == 'reverse' for k, _ in iterable.args[1])
    if isinstance(iterable, T.Ref):
        # the entries come out of a helper (a generator, a prepared list):
        # their order is decided there, out of this rule's reach
        chk.undecide(rule, 'encode.field_table iteration',
                     'entries are iterated from an intermediate sequence '
                     'built by a helper, not from sorted(value.items())')
        return
    chk.ob(rule, 'encode.field_table iteration', okk and not rev,
           'entries iterated as %s' % T.show(iterable)[:100],
           detail={'expected': 'sorted(value.items())'}, site=site)
    if okk and any(k == 'key' for k, _ in iterable.args[1]):
        verdict, why = sort_key_orders_by_name(ctx, fi, node)
        if verdict is None:
            chk.undecide(rule, 'encode.field_table sort key', why)
        else:
            chk.ob(rule, 'encode.field_table sort key', verdict, why,
                   detail={'expected': 'entries ordered by the field name '
                           'itself (ascending, no two names compare equal)'},
                   site=site)
    app = appended_in_loop(it, loop)
    shapes = []
    for lid, runs in app.items():
        for items in runs:
            shapes.append(items)
    good = bool(shapes)
    desc = []
    for items in shapes:
        d = []
        for x in items:
            if isinstance(x, Sym) and x.op == 'enc':
                d.append((x.args[0], T.show(x.args[1])[:60]))
            else:
                d.append(('?', T.show(x)[:60]))
        desc.append(d)
        if len(items) != 2:
            good = False
            continue
        k, v = items
        if not (isinstance(k, Sym) and k.op == 'enc' and
                k.args[0] == 'encode.short_string' and
                derives_from_elem(k.args[1], 0)):
            good = False
        if not (isinstance(v, Sym) and v.op == 'enc' and
                v.args[0] == 'encode.encode_table_value' and
                derives_from_elem(v.args[1], 1)):
            good = False
    chk.ob(rule, 'encode.field_table entry', good,
           'each iteration appends %r' % (desc[:2],),
           detail={'expected': 'short_string(key) then '
                   'encode_table_value(value)'}, site=site)


def loop_iterable(it, loop):
    """The iterable term of a summarised for-loop (from the elem symbol)."""
    for t in loop['start_env'].values():
        for s in T.subterms(t) if isinstance(t, (Sym, tuple)) else ():
            if s.op == 'elem' and s.args[0] == loop['id']:
                return s.args[1]
    return None


def derives_from_elem(term, index):
    """Is term the index-th component of the loop element, possibly through
    slicing / conditional truncation of that same component?"""
    comps = [t for t in T.subterms(term)
             if t.op == 'index' and isinstance(t.args[0], Sym) and
             t.args[0].op == 'elem']
    if not comps:
        return False
    return all(c.args[1] == index for c in comps)
