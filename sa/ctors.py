"""Constructor pass-through: what the caller passes is what is stored.

The round-trip and layout rules analyse frames from their attribute values;
this module closes the gap to the public constructors by running each
``__init__`` abstractly on typed symbolic arguments and classifying the
residual attribute terms."""
from . import interp as I
from . import terms as T
from .terms import Sym

PY_OF_WIRE = {'bit': ('bool',), 'octet': ('int',), 'short': ('int',),
              'long': ('int',), 'longlong': ('int',), 'shortstr': ('str',),
              'longstr': ('str',), 'table': ('dict',),
              'timestamp': ('datetime',)}
FALSY = {'bool': False, 'int': 0, 'str': '', 'bytes': b''}


def _is_truth_test(g, p, raw):
    """g is exactly 'p is truthy' / 'p is not None' for the parameter."""
    if not isinstance(g, Sym):
        return False
    x = g.args[0] if g.args else None
    if g.op == 'truthy' and (x is p or x is raw):
        return 'truthy'
    if g.op == 'isnot' and (x is p or x is raw) and g.args[1] is None:
        return 'notnone'
    if g.op in ('ne', 'gt') and isinstance(x, Sym) and x.op == 'len' and \
            (x.args[0] is p or x.args[0] is raw) and g.args[1] == 0:
        return 'truthy'
    if g.op == 'ne' and (x is p or x is raw) and g.args[1] in ('', 0, False,
                                                                b''):
        return 'truthy'
    return False


def classify(it, state, v, p, pytype):
    """-> (ok, text).  ok when the stored value equals the argument for
    every value of the declared type (None allowed to become the empty value
    of that type)."""
    raw = p.args[0] if isinstance(p, Sym) and p.op == 'typed' else p
    if v is p or v is raw or (isinstance(p, T.Ref) and
                              isinstance(v, T.Ref) and v.id == p.id):
        return True, 'the argument'
    if pytype == 'bool' and isinstance(v, Sym) and (
            (v.op == 'ne' and (v.args[0] is p or v.args[0] is raw) and
             v.args[1] in (0, False)) or
            (v.op == 'truthy' and (v.args[0] is p or v.args[0] is raw))):
        return True, 'the argument (truth value of a bool)'
    if isinstance(v, Sym) and v.op == 'cond':
        g, a, b = v.args
        if isinstance(g, Sym) and g.op == 'not':
            g, a, b = g.args[0], b, a
        if (a is p or a is raw) and _is_truth_test(g, p, raw):
            want = FALSY.get(pytype, I.ABSENT)
            if want is not I.ABSENT and type(b) is type(want) and b == want:
                return True, 'the argument, %r when it is falsy/None' % (b,)
            if isinstance(b, T.Ref) and b.id in state.store:
                ob = it.obj(state, b)
                if pytype == 'dict' and ob.kind == 'dict' and \
                        not ob.items and not ob.more and not ob.shared:
                    return True, 'the argument, a new {} when it is empty/None'
                if pytype == 'list' and ob.kind == 'list' and \
                        not ob.items and not ob.more and not ob.shared:
                    return True, 'the argument, a new [] when it is empty/None'
                if pytype == 'inst' and ob.kind == 'inst' and not ob.shared:
                    return True, 'the argument, a new %s when it is None' % \
                        ob.cls.short
    return False, T.show(v)[:120]


def passthrough(ctx, ci, ptypes, policy=None):
    """Run ci.__init__ on typed symbolic arguments.
    ptypes: {param: python type name}; -> (results, nparams, raises) with
    results = [(param, ok, text)]; None when the class has no constructor
    of its own (object.__init__)."""
    prog = ctx.prog
    init = prog.find_method(ci, '__init__')
    if init is None:
        return None
    a = init.node.args
    names = [x.arg for x in (a.posonlyargs + a.args)[1:]]
    ps = []
    it = ctx.interp(policy)
    st = ctx.new_state()
    for nm in names:
        pt = ptypes.get(nm)
        if pt and pt.startswith('inst:'):
            # a caller-owned object of a class of the package: its own
            # __bool__ / __len__ / __eq__ decide what `x or default` does
            ps.append(ctx.symbolic_instance(it, st, prog.cls(pt[5:])))
        else:
            ps.append(Sym('typed', Sym('param', nm), (pt,), None)
                      if pt and pt != 'inst' else Sym('param', nm))
    ref = it.alloc(st, I.InstObj(ci, {}))
    outs = it.run_function(init, [ref] + ps, {}, st)
    done = [o for o in outs if o.kind != 'raise']
    raises = [o for o in outs if o.kind == 'raise']
    res = []
    if not done:
        return [(nm, False, 'the constructor never completes')
                for nm in names], len(names), raises
    for nm, p in zip(names, ps):
        oks, texts = [], []
        for o in done:
            v = it.obj(o.state, ref).attrs.get(nm, I.ABSENT)
            if v is I.ABSENT:
                oks.append(False)
                texts.append('not stored')
                continue
            ok, text = classify(it, o.state, v, p, ptypes.get(nm))
            oks.append(ok)
            texts.append(text)
        res.append((nm, all(oks), sorted(set(texts))[0] if all(oks) else
                    next(t for o_, t in zip(oks, texts) if not o_)))
    return res, len(names), raises
