"""Reference wire layouts derived from /verif/spec (DESIGN.md 3.7, C04):
the independent oracle for what the encoders must emit."""
from . import terms as T


def method_layout(method):
    """[('field', py_name, wire_type) | ('bits', ((pos, py_name), ...))] by
    the AMQP packing rule: consecutive bit arguments share octets LSB first,
    flushed by a non-bit argument or after eight bits."""
    out = []
    bits = []
    for a in method.args:
        if a.type == 'bit':
            bits.append((len(bits), a.py_name))
            if len(bits) == 8:
                out.append(('bits', tuple(bits)))
                bits = []
        else:
            if bits:
                out.append(('bits', tuple(bits)))
                bits = []
            out.append(('field', a.py_name, a.type))
    if bits:
        out.append(('bits', tuple(bits)))
    return out


def primitive_reference(spec, wtype):
    """Reference encoding of a wire type as a list of expected segments:
    ('int', size, signed) | ('prefixed', prefix_size, payload_kind)"""
    w = spec.tables['wire_types'][wtype]
    if w['kind'] == 'int':
        return ('int', w['size'], w['signed'])
    if w['kind'] == 'utf8':
        return ('prefixed', w['prefix'], 'utf8')
    if w['kind'] == 'table':
        return ('prefixed', w['prefix'], 'entries')
    return (w['kind'],)


def tag_reference(spec, tag):
    t = spec.tables['field_tags'][tag]
    return t
