"""Content-header layouts: what frame.marshal writes for a ContentHeader with
arbitrary properties, and what frame.unmarshal reads back (DESIGN.md C02)."""
from . import codec
from . import interp as I
from . import layout as L
from . import terms as T
from .model import AnalysisError
from .terms import Sym


def header_instance(ctx, it, st):
    prog = ctx.prog
    pci = prog.cls('commands.Basic.Properties')
    p = ctx.symbolic_instance(it, st, pci)
    hci = prog.cls('header.ContentHeader')
    ref = it.alloc(st, I.InstObj(hci, {
        'class_id': Sym('field', 'class_id'),
        'weight': Sym('field', 'weight'),
        'body_size': Sym('field', 'body_size'), 'properties': p},
        open_=True))
    return ref, p, pci


def encode(ctx, pol):
    """-> dict(term, env, fixed, flagpacks, opts, raises, interp)"""
    it = ctx.interp(pol)
    st = ctx.new_state()
    ref, p, pci = header_instance(ctx, it, st)
    outs = it.run_function(ctx.prog.function('frame.marshal'),
                           [ref, Sym('param', 'channel_id')], {}, st)
    j = L.joined_return(it, outs)
    res = {'interp': it, 'outs': outs, 'pci': pci, 'term': None,
           'input_ids': {ref.id, p.id}}
    if j is None:
        return res
    res['term'] = j.value
    env = L.parse_envelope(j.value)
    res['env'] = env
    if env is None:
        return res
    parts = env['payload']
    res['parts'] = parts
    return res


def parse_flag_term(term):
    """bitor(cond(g, K, 0), ...) -> [(g, K)] or None"""
    items = term.args if isinstance(term, Sym) and term.op == 'bitor' \
        else (term,)
    out = []
    for x in items:
        if isinstance(x, Sym) and x.op == 'cond' and \
                isinstance(x.args[1], int) and x.args[2] == 0:
            out.append((x.args[0], x.args[1]))
        elif isinstance(x, Sym) and x.op == 'cond' and \
                isinstance(x.args[2], int) and x.args[1] == 0:
            out.append((T.not_(x.args[0]), x.args[2]))
        elif isinstance(x, int) and x == 0:
            continue
        else:
            return None
    return out


def presence_ok(g):
    """Is the guard `v is not None and v != ''` for a single field v?
    Returns the field name or None."""
    if isinstance(g, Sym) and g.op == 'and' and len(g.args) == 2:
        fs = set()
        kinds = set()
        for a in g.args:
            if isinstance(a, Sym) and a.op == 'isnot' and a.args[1] is None \
                    and isinstance(a.args[0], Sym) and \
                    a.args[0].op == 'field':
                fs.add(a.args[0].args[0])
                kinds.add('notnone')
            elif isinstance(a, Sym) and a.op == 'ne' and a.args[1] == '' \
                    and isinstance(a.args[0], Sym) and \
                    a.args[0].op == 'field':
                fs.add(a.args[0].args[0])
                kinds.add('notempty')
        if len(fs) == 1 and kinds == {'notnone', 'notempty'}:
            return fs.pop()
    return None


class HeaderDecodePolicy(L.KeyPolicy):
    """Assume-guarantee across the wire (DESIGN appendix B.3): the first
    property-flag word has its continuation bit clear, which C02.W proves of
    every header the encoder emits."""

    def __init__(self, prog, flag_offset):
        super().__init__(prog, None, None)
        self.flag_offset = flag_offset
        self.data = None
        self.used = 0

    def decide_hook(self, interp, atom, state):
        if self.data is None:
            return None
        if isinstance(atom, Sym) and atom.op in ('eq', 'ne') and \
                atom.args[1] == 0:
            x = atom.args[0]
            if isinstance(x, Sym) and x.op == 'bitand' and \
                    len(x.args) == 2 and 1 in x.args:
                w = x.args[0] if x.args[1] == 1 else x.args[1]
                r = L.parse_unpack_read(w, self.data)
                if r is not None:
                    fmt, idx, lo, hi = r
                    if T.fmt(fmt).size == 2 and idx == 0 and \
                            T.sub(lo, self.flag_offset) == 0:
                        self.used += 1
                        return atom.op == 'eq'
        return None


def decode(ctx, flag_offset=19):
    """frame.unmarshal under the assumption that the flag word at absolute
    offset ``flag_offset`` has bit 0 clear.  -> dict"""
    prog = ctx.prog
    pol = HeaderDecodePolicy(prog, flag_offset)
    data = codec.buf('data_in')
    pol.data = data
    it, outs, data = L.run_unmarshal(ctx, pol, data)
    hci = prog.cls('header.ContentHeader')
    rets = []
    from . import framepaths as F
    for o0 in outs:
        if o0.kind != 'return':
            continue
        for r in F.split_returns(o0, it, data):
            o = r.o
            if isinstance(o.value, tuple) and len(o.value) == 3 and \
                    isinstance(o.value[2], T.Ref):
                ob = it.obj(o.state, o.value[2])
                if ob.kind == 'inst' and ob.cls is hci:
                    rets.append((o, ob))
    return {'interp': it, 'outs': outs, 'data': data, 'rets': rets,
            'policy': pol}
