"""Codec-level summaries shared by the rules: inductive summaries of the
recursive encoders/decoders, the frame-level summarisation policy, and shape
descriptors ("what does this primitive write / read") extracted from the
abstract interpreter's residual terms (DESIGN.md 3.5, 5 'Pair')."""
from . import interp as I
from . import terms as T
from .model import AnalysisError, ClassInfo, FuncInfo
from .terms import Sym

BUF = Sym('typed', Sym('param', 'value'), ('bytes',), None)


def buf(name):
    return Sym('typed', Sym('param', name), ('bytes',), None)


def exc_key(t):
    if isinstance(t, ClassInfo):
        return t.short
    return I.exc_name(t) or str(t)


# ---------------------------------------------------------------------------
# inductive summaries of recursive functions


class RecSummary:
    def __init__(self, kind, consumed, raises):
        self.kind = kind
        self.consumed = consumed  # (lo, hi) for decoders
        self.raises = raises  # {key: exc type}

    def same(self, o):
        return o is not None and self.kind == o.kind and \
            self.consumed == o.consumed and \
            set(self.raises) == set(o.raises)

    def instantiate(self, interp, fi, args, kwargs, state):
        raises = [(t, 'raised by a nested %s call' % fi.short)
                  for t in self.raises.values()]
        if self.kind == 'decoder':
            b = args[0] if args else Sym('param', '?')
            return (Sym('consumed', fi.short, I._as_term(b), self.consumed),
                    Sym('decval', fi.short, I._as_term(b))), raises
        return Sym('enc', fi.short, I._as_term(args[0]) if args else None), \
            raises


def symbolic_args(fi):
    a = fi.node.args
    names = [p.arg for p in a.posonlyargs + a.args]
    out = []
    for i, n in enumerate(names):
        if fi.module.name.endswith('.decode') and i == 0:
            out.append(buf(n))
        else:
            out.append(Sym('param', n))
    return out


def function_kind(fi):
    if fi.module.name.endswith('.decode'):
        return 'decoder'
    if fi.module.name.endswith('.encode'):
        return 'encoder'
    from .model import UnboundedRecursion
    raise UnboundedRecursion(
        'recursion through %s: no inductive summary form for functions '
        'outside encode/decode' % fi.short, fi.short, fi.module.relpath,
        getattr(fi.node, 'lineno', 0))


def summarise_outcomes(kind, outs, prev):
    consumed = prev.consumed if prev is not None else None
    raises = dict(prev.raises) if prev is not None else {}
    for o in outs:
        if o.kind == 'raise':
            raises[exc_key(o.exc.type)] = o.exc.type
        elif o.kind == 'return' and kind == 'decoder':
            v = o.value
            if not (isinstance(v, tuple) and len(v) == 2):
                raise AnalysisError('decoder does not return a (consumed, '
                                    'value) pair: %s' % T.show(v)[:80])
            iv = o.state.kn.lin_interval(v[0]) if isinstance(
                v[0], (Sym, int)) else (None, None)
            consumed = iv if consumed is None else T._iv_union(consumed, iv)
    if kind == 'decoder' and consumed is None:
        return None if not raises else RecSummary(kind, None, raises)
    return RecSummary(kind, consumed, raises)


def rec_summary(prog, fi, policy=None, outer=None):
    """Inductive summary of the recursive function fi (least fixpoint of
    its consumed interval and exception set).  `outer`: the assumptions of
    the interpreter that asks -- non-empty when this summary is computed
    inside the summary computation of another function of the same strongly
    connected component (two cycles sharing a function, e.g. field_array
    dispatching through the table itself as well as through field_table ->
    embedded_value).  The nested computation then takes the outer functions
    at their current iterate, is not cached (it is only valid for that
    iterate), and the outer iteration -- monotone in both components --
    carries the joint fixpoint."""
    cache = prog.__dict__.setdefault('_rec_summaries', {})
    key = (fi.qualname, type(policy).__name__ if policy else 'Policy')
    outer = dict(outer or {})
    outer.pop(fi.qualname, None)
    if outer:
        return _rec_fixpoint(prog, fi, policy, outer)
    if key in cache:
        if cache[key] == 'computing':
            raise AnalysisError('nested recursion summary for ' + fi.short)
        return cache[key]
    cache[key] = 'computing'
    try:
        cur = _rec_fixpoint(prog, fi, policy, {})
    finally:
        cache.pop(key, None)
    cache[key] = cur
    return cur


def _rec_fixpoint(prog, fi, policy, outer):
    kind = function_kind(fi)
    cur = None
    for _ in range(10):
        it = I.Interp(prog, policy)
        it.rec_assume = dict(outer)
        it.rec_assume[fi.qualname] = cur
        it.rec_inherited = frozenset(outer)
        st = I.State({}, {}, T.Knowledge())
        outs = it.run_function(fi, symbolic_args(fi), {}, st)
        new = summarise_outcomes(kind, outs, cur)
        if new is None and cur is None:
            break
        if new is not None and new.same(cur):
            break
        cur = new
    else:
        raise AnalysisError('recursion summary of %s did not converge' %
                            fi.short)
    if cur is not None and cur.kind == 'decoder' and cur.consumed is None:
        cur = RecSummary(kind, (None, None), cur.raises)
    return cur


def run(ctx_or_prog, fi, args=None, policy=None, state=None, hook=None):
    """Interpret fi once (recursive callees use their inductive summaries).
    Returns (interp, outcomes)."""
    prog = getattr(ctx_or_prog, 'prog', ctx_or_prog)
    it = I.Interp(prog, policy)
    if state is None:
        state = I.State({}, {}, T.Knowledge())
    outs = it.run_function(fi, symbolic_args(fi) if args is None else args,
                           {}, state)
    return it, outs


# ---------------------------------------------------------------------------
# frame-level policy: primitives are summarised


class FramePolicy(I.Policy):
    """Summarise the primitive encoders / decoders (DESIGN appendix E lesson
    5): the frame-level layout is then a sequence of Enc / Dec terms, the
    primitives are analysed on their own by the Pair rules."""

    def __init__(self, prog):
        self.prog = prog
        it = I.Interp(prog)
        self.enc_funcs = {}
        self.dec_funcs = {}
        self.func_objs = {}
        emod, dmod = prog.module('encode'), prog.module('decode')
        for mod, table in ((emod, self.enc_funcs), (dmod, self.dec_funcs)):
            if 'METHODS' not in mod.bindings:
                raise AnalysisError('anchor vanished: %s.METHODS' % mod.name)
            v = it.global_value(mod, 'METHODS')
            o = it.obj(I.State({}, {}, T.Knowledge()), v)
            if o.kind != 'dict' or o.more:
                raise AnalysisError('%s.METHODS is not a literal dict' %
                                    mod.name)
            for k, fn in o.items:
                if isinstance(fn, FuncInfo):
                    table.setdefault(fn.qualname, []).append(k)
                    self.func_objs[fn.qualname] = fn
        # the bit decoder is part of the layout logic, not a primitive
        bit = dmod.functions.get('bit')
        if bit is not None:
            self.dec_funcs.pop(bit.qualname, None)
        self._raises = prog.__dict__.setdefault('_prim_cache', {})

    def primitive_raises(self, fi):
        if fi.qualname not in self._raises:
            it, outs = run(self.prog, fi)
            r = {}
            for o in outs:
                if o.kind == 'raise':
                    r[exc_key(o.exc.type)] = o.exc.type
            iv = None
            vtypes = None
            if fi.qualname in self.dec_funcs:
                for o in outs:
                    if o.kind == 'return':
                        v = o.value
                        if not (isinstance(v, tuple) and len(v) == 2):
                            raise AnalysisError(
                                'decoder %s does not return a pair' %
                                fi.short)
                        a = o.state.kn.lin_interval(v[0])
                        iv = a if iv is None else T._iv_union(iv, a)
            self._raises[fi.qualname] = (r, iv)
        return self._raises[fi.qualname]

    def summarise(self, interp, fi, args, kwargs, state):
        if fi.qualname in self.enc_funcs and len(args) == 1 and not kwargs:
            r, _ = self.primitive_raises(fi)
            return Sym('enc', fi.short, I._as_term(args[0])), \
                [(t, 'refused by %s' % fi.short) for t in r.values()]
        if fi.qualname in self.dec_funcs and len(args) == 1 and not kwargs:
            r, iv = self.primitive_raises(fi)
            b = I._as_term(args[0])
            return (Sym('consumed', fi.short, b, iv),
                    Sym('decval', fi.short, b)), \
                [(t, 'raised by %s' % fi.short) for t in r.values()]
        return None
