"""Composed round trip by term rewriting (deepening of C01 / C02 / C18).

The decode side of a frame kind is available as residual terms over an
abstract buffer D (what frame.unmarshal returns and under which path
conditions); the encode side as the residual byte-string term W that
frame.marshal produces for symbolic argument values.  Substituting D := W
and rewriting with
  * slicing / indexing / length of concatenations at part boundaries
    (symbolic lengths compared as linear normal forms),
  * unpack(pack(x)) = x for layout-equal formats (re-interpretation when only
    the signedness differs),
  * decval(D, enc(E, v) ++ rest) = v and consumed(D, enc(E, v) ++ rest) =
    len(enc(E, v)) for the primitive pairs that Pair(E, D) has established,
  * the bit algebra of or-sets of shifted 0/1 values,
must turn every decoded attribute into the original argument, the consumed
count into len(W), the channel into the channel argument, and every path
condition of the successful return into True: the decoder accepts exactly
what its own encoder emits and gives the values back.  No input is executed
and no path is enumerated; this is equational reasoning over the two
residual programs.
"""
import struct as _struct

from . import terms as T
from .terms import Sym


class Axioms:
    """What the rewriter may assume about summarised primitives."""

    def __init__(self):
        self.pairs = {}  # dec short -> set of enc shorts with Pair holding
        self.enc_size = {}  # enc short -> constant size (fixed-width)
        self.enc_u8 = set()  # enc shorts that emit exactly one u8 of operand
        self.bit_fields = set()  # field names known to be 0/1 on encode


def parts_of(x):
    if isinstance(x, Sym) and x.op == 'concat':
        return list(x.args)
    if isinstance(x, bytes) and not x:
        return []
    return [x]


class Rewriter:
    def __init__(self, data, wire, axioms, kn=None):
        self.data = data
        self.wire = wire
        self.ax = axioms
        self.kn = kn or T.Knowledge()
        self.memo = {}
        self.data = None
        self.wire = self.norm_wire(wire)
        self.data = data

    def norm_wire(self, w):
        """Lengths inside the wire term (size fields, prefixes) in the
        rewriter's own normal form (fixed encoder sizes folded)."""
        from . import layout as _L
        parts = []
        for p in parts_of(_L.canon(w)):
            if isinstance(p, Sym) and p.op == 'pack':
                parts.append(Sym('pack', p.args[0],
                                 tuple(self.rw(a) for a in p.args[1])))
            elif isinstance(p, Sym) and p.op == 'enc' and \
                    p.args[0] in self.ax.enc_u8:
                parts.append(Sym('enc', p.args[0], self.rw(p.args[1])))
            else:
                parts.append(p)
        return T.concat(*parts) if parts else b''

    # -- lengths -----------------------------------------------------------
    def length(self, x, facts):
        if isinstance(x, (bytes, str)):
            return len(x)
        if isinstance(x, Sym):
            if x.op == 'concat':
                tot = 0
                for p in x.args:
                    tot = T.add(tot, self.length(p, facts))
                return tot
            if x.op == 'pack':
                return T.fmt(x.args[0]).size
            if x.op == 'enc':
                sz = self.ax.enc_size.get(x.args[0])
                if sz is not None:
                    return sz
                return Sym('len', x)
            if x.op == 'opt':
                g = x.args[0]
                if not isinstance(g, Sym):
                    return self._sum(x.args[1] if g else x.args[2], facts)
                if g in facts:
                    return self._sum(x.args[1], facts)
                ng = T.not_(g)
                if isinstance(ng, Sym) and ng in facts:
                    return self._sum(x.args[2], facts)
                return T.cond(g, self._sum(x.args[1], facts),
                              self._sum(x.args[2], facts))
        return T.length(x)

    def _sum(self, items, facts):
        tot = 0
        for p in items:
            tot = T.add(tot, self.length(p, facts))
        return tot

    def flat_parts(self, x, facts):
        """Parts of a byte-string term with optional parts resolved by the
        facts where possible."""
        out = []
        for p in parts_of(x):
            if isinstance(p, Sym) and p.op == 'opt':
                g = p.args[0]
                if not isinstance(g, Sym):
                    out.extend(p.args[1] if g else p.args[2])
                    continue
                ng = T.not_(g)
                if g in facts:
                    out.extend(p.args[1])
                    continue
                if isinstance(ng, Sym) and ng in facts:
                    out.extend(p.args[2])
                    continue
            out.append(p)
        return out

    # -- slicing -----------------------------------------------------------
    def slice(self, base, lo, hi, facts):
        if lo is None:
            lo = 0
        if isinstance(base, bytes) and isinstance(lo, int) and \
                (hi is None or isinstance(hi, int)):
            return base[lo:hi]
        parts = self.flat_parts(base, facts)
        if not parts:
            return b''
        # cumulative boundaries
        bounds = [0]
        for p in parts:
            bounds.append(T.add(bounds[-1], self.length(p, facts)))
        total = bounds[-1]
        if hi is None:
            hi = total

        def locate(off):
            """-> (part index, offset inside the part) or None"""
            for i, b in enumerate(bounds):
                if T.sub(off, b) == 0:
                    return i, 0
            # inside a part of constant size?
            for i, p in enumerate(parts):
                d = T.sub(off, bounds[i])
                sz = self.length(p, facts)
                if isinstance(d, int) and isinstance(sz, int) and \
                        0 < d < sz:
                    return i, d
            return None

        a, b = locate(lo), locate(hi)
        if a is None or b is None:
            # an upper bound beyond the end clamps
            d = T.sub(hi, total)
            if a is not None and isinstance(d, int) and d >= 0:
                b = (len(parts), 0)
            else:
                return T.slice_(self._concat(parts), lo, hi)
        (ia, oa), (ib, ob) = a, b
        if (ia, oa) == (ib, ob) or ia > ib:
            return b''
        out = []
        for i in range(ia, min(ib + 1, len(parts))):
            p = parts[i]
            s = oa if i == ia else 0
            e = ob if i == ib else None
            if i == ib and ob == 0:
                break
            if s == 0 and e is None:
                out.append(p)
            else:
                out.append(self.cut(p, s, e))
        return self._concat(out)

    def cut(self, p, s, e):
        if isinstance(p, bytes):
            return p[s:e]
        if isinstance(p, Sym) and p.op == 'pack':
            f = T.fmt(p.args[0])
            end = f.size if e is None else e
            # whole fields only
            fields = []
            vi = 0
            ok = True
            for off, fld in f.offsets():
                is_val = fld[3] != 'pad'
                arg = p.args[1][vi] if is_val else None
                if is_val:
                    vi += 1
                if off >= s and off + fld[1] <= end:
                    fields.append((fld, arg))
                elif off + fld[1] <= s or off >= end:
                    continue
                else:
                    ok = False
            if ok and fields:
                code = ''.join('x' if fl[3] == 'pad' else fl[0]
                               for fl, _ in fields)
                order = f.order_char if f.order_char != '@' else ''
                return Sym('pack', order + code,
                           tuple(a for fl, a in fields if fl[3] != 'pad'))
        return T.slice_(p, s, e)

    def _concat(self, parts):
        return T.concat(*parts) if parts else b''

    # -- unpack ------------------------------------------------------------
    def unpack(self, fmt, buf, facts):
        f = T.fmt(fmt)
        if isinstance(buf, bytes):
            try:
                return _struct.unpack(fmt, buf)
            except _struct.error:
                return Sym('unpack', fmt, buf)
        parts = self.flat_parts(buf, facts)
        # constants / packs in sequence supplying exactly the fields
        vals = []
        need = [fl for fl in f.fields]
        pos = 0
        stream = []
        for p in parts:
            if isinstance(p, bytes):
                stream.append(('const', p))
            elif isinstance(p, Sym) and p.op == 'pack':
                pf = T.fmt(p.args[0])
                vi = 0
                for fld in pf.fields:
                    if fld[3] == 'pad':
                        stream.append(('const', b'\x00' * fld[1]))
                    else:
                        stream.append(('fld', fld, p.args[1][vi],
                                       pf.order))
                        vi += 1
            elif isinstance(p, Sym) and p.op == 'enc' and \
                    p.args[0] in self.ax.enc_u8:
                stream.append(('fld', ('B', 1, False, 'int'), p.args[1],
                               'any'))
            else:
                stream.append(('other', p))
        out = []
        si = 0
        carry = b''
        for fld in need:
            size = fld[1]
            if si >= len(stream) and not carry:
                return Sym('unpack', fmt, buf)
            if carry or (si < len(stream) and stream[si][0] == 'const'):
                # gather constant bytes
                while len(carry) < size and si < len(stream) and \
                        stream[si][0] == 'const':
                    carry += stream[si][1]
                    si += 1
                if len(carry) < size:
                    return Sym('unpack', fmt, buf)
                raw, carry = carry[:size], carry[size:]
                if fld[3] == 'pad':
                    continue
                code = fld[0]
                order = '>' if f.order in ('big',) else \
                    '<' if f.order == 'little' else '>'
                try:
                    out.append(_struct.unpack(order + code, raw)[0])
                except _struct.error:
                    return Sym('unpack', fmt, buf)
                continue
            kind = stream[si]
            si += 1
            if kind[0] != 'fld' or fld[3] == 'pad':
                return Sym('unpack', fmt, buf)
            wfld, arg, worder = kind[1], kind[2], kind[3]
            if wfld[1] != size or wfld[3] != fld[3]:
                return Sym('unpack', fmt, buf)
            if size > 1 and not (worder == f.order == 'big' or
                                 worder == f.order):
                return Sym('unpack', fmt, buf)
            if wfld[2] == fld[2] or fld[3] != 'int':
                out.append(arg)
            else:
                out.append(Sym('reinterp', arg, size, bool(fld[2])))
        if carry or si != len(stream):
            return Sym('unpack', fmt, buf)
        return tuple(out)

    # -- the rewriting walk ------------------------------------------------
    def rw(self, x, facts=frozenset()):
        if isinstance(x, tuple):
            return tuple(self.rw(e, facts) for e in x)
        if not isinstance(x, Sym):
            return x
        key = (x, facts)
        if key in self.memo:
            return self.memo[key]
        r = self._rw(x, facts)
        if facts:
            r = self.resolve(r, facts)
        self.memo[key] = r
        return r

    def resolve(self, x, facts, memo=None):
        """Resolve conds whose guard (or its negation) is among the facts
        assumed on the current branch."""
        if memo is None:
            memo = {}
        if isinstance(x, tuple):
            return tuple(self.resolve(e, facts, memo) for e in x)
        if not isinstance(x, Sym) or not T.has_choice(x):
            return x
        if x in memo:
            return memo[x]
        if x.op == 'cond':
            g = x.args[0]
            ng = T.not_(g)
            if g in facts:
                r = self.resolve(x.args[1], facts, memo)
            elif isinstance(ng, Sym) and ng in facts:
                r = self.resolve(x.args[2], facts, memo)
            else:
                r = T.cond(g, self.resolve(x.args[1], facts, memo),
                           self.resolve(x.args[2], facts, memo))
        elif x.op == 'lin':
            c, terms = x.args
            r = c
            for t, k in terms:
                r = T.add(r, T.mul(k, self.resolve(t, facts, memo)))
        elif x.op in T.BOOL_OPS and x in facts:
            r = True
        else:
            new = tuple(self.resolve(a, facts, memo) for a in x.args)
            r = x if all(n is o for n, o in zip(new, x.args)) else \
                T.rebuild(x.op, new)
        memo[x] = r
        return r

    def _rw(self, x, facts):
        op = x.op
        if x is self.data:
            return self.wire
        if op == 'field' and x.args[0] in self.ax.bit_fields:
            return Sym('typed', x, ('int',), (0, 1))
        if op == 'cond':
            g = self.rw(x.args[0], facts)
            if not isinstance(g, Sym):
                return self.rw(x.args[1] if g else x.args[2], facts)
            if g in facts:
                return self.rw(x.args[1], facts)
            ng = T.not_(g)
            if isinstance(ng, Sym) and ng in facts:
                return self.rw(x.args[2], facts)
            # facts only enable simplifications; the context is capped at
            # two assumptions so that the number of distinct (term,
            # context) pairs stays quadratic in the number of optional
            # parts instead of exponential
            outer = facts if len(facts) < 2 else frozenset()
            a = self.rw(x.args[1], outer | {g})
            b = self.rw(x.args[2], outer | ({ng} if isinstance(ng, Sym)
                                            else set()))
            return T.cond(g, a, b)
        if op == 'lin':
            c, terms = x.args
            r = c
            for t, k in terms:
                r = T.add(r, T.mul(k, self.rw(t, facts)))
            return r
        if op == 'slice':
            base = self.rw(x.args[0], facts)
            lo = self.rw(x.args[1], facts)
            hi = self.rw(x.args[2], facts)
            return self.slice(base, lo, hi, facts)
        if op == 'len':
            return self.length(self.rw(x.args[0], facts), facts)
        if op == 'unpack':
            return self.unpack(x.args[0], self.rw(x.args[1], facts), facts)
        if op == 'index':
            base = self.rw(x.args[0], facts)
            i = self.rw(x.args[1], facts)
            if isinstance(base, tuple) and isinstance(i, int):
                return base[i] if -len(base) <= i < len(base) else \
                    Sym('index', base, i)
            if isinstance(base, (bytes,)) and isinstance(i, int):
                return base[i]
            if isinstance(base, Sym) and base.op == 'concat':
                one = self.slice(base, i, T.add(i, 1), facts)
                if isinstance(one, bytes) and len(one) == 1:
                    return one[0]
            return T.index(base, i)
        if op in ('decval', 'consumed'):
            dshort = x.args[0]
            buf = self.rw(x.args[1], facts)
            parts = self.flat_parts(buf, facts)
            if parts and isinstance(parts[0], Sym) and \
                    parts[0].op == 'enc' and \
                    parts[0].args[0] in self.ax.pairs.get(dshort, ()):
                if op == 'decval':
                    return parts[0].args[1]
                return self.length(parts[0], facts)
            return Sym(op, dshort, buf, *x.args[2:])
        if op == 'ok':
            return self.ok(x, facts)
        if op == 'reinterp':
            return Sym('reinterp', self.rw(x.args[0], facts), *x.args[1:])
        if op == 'bitand':
            args = [self.rw(a, facts) for a in x.args]
            # masking a re-interpreted word below its width is the word
            for i, a in enumerate(args):
                o = args[1 - i] if len(args) == 2 else None
                if isinstance(a, Sym) and a.op == 'reinterp' and \
                        isinstance(o, int) and 0 <= o < (1 << (8 *
                                                               a.args[1])):
                    args[i] = a.args[0]
            r = args[0]
            for a in args[1:]:
                r = T.bitop('bitand', r, a)
            return r
        new = tuple(self.rw(a, facts) for a in x.args)
        if op in ('eq', 'ne') and len(new) == 2:
            d = self.bytes_compare(new[0], new[1])
            if d is not None:
                return d if op == 'eq' else (not d)
        r = T.rebuild(op, new)
        if isinstance(r, Sym) and r.op in T.BOOL_OPS:
            if r in facts:
                return True
            nr = T.not_(r)
            if isinstance(nr, Sym) and nr in facts:
                return False
            d = self.kn.decide(r)
            if d is not None:
                return d
        return r

    def known_prefix(self, x):
        """Leading bytes of a byte-string term that are compile-time
        constants."""
        if isinstance(x, bytes):
            return x
        if isinstance(x, Sym):
            if x.op == 'concat':
                out = b''
                for p in x.args:
                    kp = self.known_prefix(p)
                    out += kp
                    ln = T.length(p) if not isinstance(p, bytes) else len(p)
                    if not (isinstance(ln, int) and len(kp) == ln):
                        break
                return out
            if x.op == 'pack':
                f = T.fmt(x.args[0])
                out = b''
                vi = 0
                for fld in f.fields:
                    if fld[3] == 'pad':
                        out += b'\x00' * fld[1]
                        continue
                    a = x.args[1][vi]
                    vi += 1
                    if isinstance(a, int) and not isinstance(a, bool) and \
                            fld[3] == 'int':
                        try:
                            out += _struct.pack(
                                ('>' if f.order != 'little' else '<') +
                                fld[0], a)
                        except _struct.error:
                            break
                    else:
                        break
                return out
            if x.op == 'slice' and isinstance(x.args[1], int) and \
                    (x.args[2] is None or isinstance(x.args[2], int)):
                return self.known_prefix(x.args[0])[x.args[1]:x.args[2]]
        return b''

    def bytes_compare(self, a, b):
        """Equality of a byte-string term and a constant decided from the
        known leading bytes: False when a known byte differs."""
        if isinstance(b, Sym) and isinstance(a, bytes):
            a, b = b, a
        if not (isinstance(a, Sym) and isinstance(b, bytes)):
            return None
        t = T.typeof(a)
        if t is not None and not t <= {'bytes', 'bytearray'}:
            return None
        kp = self.known_prefix(a)
        n = min(len(kp), len(b))
        if n and kp[:n] != b[:n]:
            return False
        return None

    def ok(self, x, facts):
        kind = x.args[0]
        if kind == 'unpack':
            buf = self.rw(x.args[2], facts)
            ln = self.length(buf, facts)
            size = T.fmt(x.args[1]).size
            if isinstance(ln, int):
                return ln == size
            return Sym('ok', kind, x.args[1], buf)
        if kind == 'unpack_from':
            buf = self.rw(x.args[2], facts)
            off = self.rw(x.args[3], facts)
            need = T.add(off, T.fmt(x.args[1]).size)
            ln = self.length(buf, facts)
            d = T.sub(ln, need)
            lo = self.kn.lin_interval(d)[0] if not isinstance(d, int) else d
            if lo is not None and lo >= 0:
                return True
            return Sym('ok', kind, x.args[1], buf, off)
        if kind == 'utf8':
            buf = self.rw(x.args[1], facts)
            if isinstance(buf, Sym) and buf.op == 'utf8':
                return True
            return Sym('ok', kind, buf)
        return x


def build_axioms(ctx):
    """What the round-trip rewriter may assume of the summarised
    primitives: the pairs C01.P / C10.P establish, fixed encoder sizes and
    the single-octet encoders."""
    from . import pairs
    ax = Axioms()
    enc, dec = pairs.methods_tables(ctx)
    for t in set(enc) & set(dec):
        e, d = enc[t], dec[t]
        if e.name == '<lambda>':
            continue
        E, D = pairs.enc_desc(ctx, e), pairs.dec_desc(ctx, d)
        res = pairs.pair(E, D)
        # containers: framing clauses are decided by C03.C
        clauses = [r for r in res if not (t == 'table' and
                                          r[0] in ('read', 'consumed',
                                                   'view', 'layout'))]
        if clauses and all(r[1] is True for r in clauses):
            ax.pairs.setdefault(d.short, set()).add(e.short)
        sizes = set()
        u8 = True
        for p in E.paths:
            tot = 0
            for sg in p.segs:
                if sg.kind in ('fld', 'pad', 'const'):
                    tot += sg.size
                else:
                    tot = None
                    break
            sizes.add(tot)
            if not (len(p.segs) == 1 and p.segs[0].kind == 'fld' and
                    p.segs[0].size == 1 and p.segs[0].signed is False and
                    p.segs[0].operand == ('value',)):
                u8 = False
        if len(sizes) == 1 and None not in sizes:
            ax.enc_size[e.short] = sizes.pop()
        if u8 and E.paths:
            ax.enc_u8.add(e.short)
    return ax
