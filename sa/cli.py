"""Command line driver: ./check <ID> [--tier quick|thorough] [--repo DIR]."""
import argparse
import importlib
import json
import os
import sys
import traceback

from . import report
from .model import AnalysisError

PROPS = ['C%02d' % i for i in range(1, 21)]


def load_titles():
    out = {}
    p = os.path.join(report.VERIF, 'properties.jsonl')
    if os.path.exists(p):
        for line in open(p):
            line = line.strip()
            if line:
                d = json.loads(line)
                out[d['id']] = d['title']
    return out


def run_one(pid, tier, repo, replay=None):
    titles = load_titles()
    chk = report.Check(pid, tier, repo, titles.get(pid, ''))
    try:
        mod = importlib.import_module('sa.rules.' + pid.lower())
    except ModuleNotFoundError:
        print('ANALYSIS-ERROR property=%s no checker implemented' % pid)
        return 2
    try:
        from .context import Context
        ctx = Context(repo, tier)
        chk.prog = ctx.prog
        chk.units['files'] = ctx.prog.files()
        mod.run(chk, ctx)
        second_reading(chk, ctx, mod, repo, tier)
        if replay:
            return replay_one(chk, replay)
        if tier == 'thorough':
            from . import thorough
            thorough.run_extras(chk, ctx, pid, mod)
        return chk.finish()
    except AnalysisError as err:
        hook = getattr(mod, 'on_unbounded_recursion', None)
        if hook is not None and type(err).__name__ == 'UnboundedRecursion':
            hook(chk, err)
        if any(not o.ok for o in chk.obligations):
            # violations already established stay violations; the part that
            # could not be analysed is reported as undecided
            chk.undecide('analysis', 'remaining rules',
                         '%s: %s' % (type(err).__name__, err))
            return chk.finish()
        print('ANALYSIS-ERROR property=%s %s: %s' %
              (pid, type(err).__name__, err))
        return 2
    except Exception:  # a crash of the analyser is never a violation
        tb = traceback.format_exc()
        print('ANALYSIS-ERROR property=%s internal error in the analyser\n%s'
              % (pid, tb))
        return 2


def second_reading(chk, ctx, mod, repo, tier):
    """`assert` statements are compiled away under python -O /
    PYTHONOPTIMIZE: a guard, a bound or a side effect that lives in an
    assert is not there in that mode.  When the package has any, the rules
    are run a second time on the program without them and whatever differs
    from the first reading is added to the verdict."""
    import ast
    from . import interp as I
    from .context import Context
    if chk.pid in ('C07', 'C09', 'C20'):
        # which exception types can escape also depends on -b / -bb:
        # str() of a bytes value raises BytesWarning there
        I.BYTES_WARNINGS = True
        try:
            sr = report.SecondReading(chk, '[python -bb: str() of bytes '
                                      'raises BytesWarning]')
            mod.run(sr, Context(repo, tier))
            chk.units['bytes_warning_reading_differences'] = \
                sr.extra_obligations
        finally:
            I.BYTES_WARNINGS = False
    nas = sum(isinstance(n, ast.Assert)
              for mi in ctx.prog.modules.values() for n in ast.walk(mi.tree))
    chk.units['assert_statements'] = nas
    if not nas:
        return
    I.ASSERTS_REMOVED = True
    try:
        sr = report.SecondReading(chk, '[python -O: asserts removed]')
        mod.run(sr, Context(repo, tier))
        chk.units['second_reading_differences'] = sr.extra_obligations
    finally:
        I.ASSERTS_REMOVED = False
    chk.assume('assert statements are analysed both as executed and as '
               'removed (python -O)')


def replay_one(chk, path):
    """Re-evaluate the one obligation recorded in a violation file on the
    current tree and print the same diagnosis (no evidence is written)."""
    with open(path) as fh:
        rp = json.load(fh)
    key = rp['key']
    hits = [o for o in chk.obligations if o.key == key]
    same_construct = [o for o in chk.obligations
                      if o.rule == rp['obligation']['rule'] and
                      o.construct == rp['obligation']['construct']]
    bad = [o for o in (hits or same_construct) if not o.ok]
    if bad:
        o = bad[0]
        print('VIOLATION property=%s replay=%s' % (chk.pid, path))
        print('  rule      %s %s' % (o.rule, chk.rule_texts.get(o.rule, '')))
        print('  construct %s' % o.construct)
        if o.site:
            print('  site      %s' % o.site)
        print('  fact      %s' % o.fact)
        if isinstance(o.detail, dict):
            for k, v in o.detail.items():
                print('  %-9s %s' % (k, v))
        return 1
    if same_construct:
        print('replay: obligation %s / %s now holds: %s' %
              (same_construct[0].rule, same_construct[0].construct,
               same_construct[0].fact))
        return 0
    print('replay: the construct %r no longer exists on this tree' %
          rp['obligation']['construct'])
    return 0


def self_check():
    """setup_cmd: import every rule module and validate the spec tables."""
    from . import spec
    spec.validate_all()
    for pid in PROPS:
        try:
            importlib.import_module('sa.rules.' + pid.lower())
        except ModuleNotFoundError:
            pass
    print('self-check ok')
    return 0


def main(argv=None):
    ap = argparse.ArgumentParser()
    ap.add_argument('ids', nargs='*')
    ap.add_argument('--tier', default=os.environ.get('VERIF_TIER', 'quick'),
                    choices=['quick', 'thorough'])
    ap.add_argument('--repo', default=os.environ.get('VERIF_REPO', '/repo'))
    ap.add_argument('--replay')
    ap.add_argument('--self-check', action='store_true')
    a = ap.parse_args(argv)
    if a.self_check:
        return self_check()
    ids = a.ids
    if a.replay:
        with open(a.replay) as fh:
            rp = json.load(fh)
        ids = [rp['property']]
    if not ids or ids == ['all']:
        ids = PROPS
    worst = 0
    for pid in ids:
        code = run_one(pid.upper(), a.tier, a.repo, a.replay)
        if code == 1 or (code == 2 and worst == 0):
            worst = code if worst != 1 else 1
    return worst


if __name__ == '__main__':
    sys.exit(main())
