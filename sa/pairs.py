"""Pair(E, D): writer/reader agreement of one primitive encoder and one
primitive decoder (DESIGN.md section 5).  Works on the residual terms the
abstract interpreter produces for the two functions; struct formats are
compared in normal form (struct-format algebra), so spelling ('B' vs '>B',
unpack vs unpack_from, Struct object vs inline format) is immaterial."""
from . import codec
from . import interp as I
from . import terms as T
from .model import AnalysisError, FuncInfo
from .terms import Sym


class Seg:
    """One piece of an encoder's output."""

    def __init__(self, kind, **kw):
        self.kind = kind  # const fld pad utf8 raw elems enc other
        self.__dict__.update(kw)

    def __repr__(self):
        d = {k: (T.show(v)[:60] if isinstance(v, (Sym, tuple)) else v)
             for k, v in self.__dict__.items() if k != 'kind'}
        return '%s%r' % (self.kind, d)


def operand_desc(arg, P):
    if arg is P:
        return ('value',)
    if isinstance(arg, bool):
        return ('const', int(arg))
    if isinstance(arg, int):
        return ('const', arg)
    if isinstance(arg, Sym):
        if arg.op == 'len':
            return ('len', arg.args[0])
        if arg.op == 'lin':
            return ('expr', arg)
        if arg.op == 'int' and len(arg.args) == 1:
            inner = arg.args[0]
            if inner is P:
                return ('int(value)',)
            return ('int', inner)
        if arg.op == 'ne' and arg.args[0] is P and arg.args[1] == 0:
            return ('bool(value)',)
    return ('expr', arg)


def segments(term, P):
    segs = []
    parts = term.args if isinstance(term, Sym) and term.op == 'concat' else \
        ([] if term == b'' else [term])
    for p in parts:
        if isinstance(p, bytes):
            segs.append(Seg('const', data=p, size=len(p)))
        elif isinstance(p, Sym) and p.op == 'pack':
            f = T.fmt(p.args[0])
            vi = 0
            for ch, size, signed, kind in f.fields:
                if kind == 'pad':
                    segs.append(Seg('pad', size=size))
                    continue
                arg = p.args[1][vi]
                vi += 1
                order = f.order if size > 1 else 'any'
                segs.append(Seg('fld', size=size, signed=signed, fkind=kind,
                                order=order, operand=operand_desc(arg, P),
                                arg=arg, fmt=p.args[0]))
        elif isinstance(p, Sym) and p.op == 'cond' and \
                isinstance(p.args[1], bytes) and \
                isinstance(p.args[2], bytes) and \
                len(p.args[1]) == len(p.args[2]) == 1:
            # one of two constant octets chosen by a condition: an unsigned
            # octet field whose value is cond(g, a, b)
            g, a, b = p.args
            arg = T.cond(g, a[0], b[0])
            truth = isinstance(g, Sym) and (
                (g.op == 'truthy' and g.args[0] is P) or g is P or
                (g.op == 'ne' and g.args[0] is P and g.args[1] == 0))
            op_ = ('bool(value)',) if truth and (a[0], b[0]) == (1, 0) \
                else ('expr', arg)
            segs.append(Seg('fld', size=1, signed=False, fkind='int',
                            order='any', operand=op_, arg=arg, fmt='B'))
        elif isinstance(p, Sym) and p.op == 'utf8':
            segs.append(Seg('utf8', of=p.args[0], term=p,
                            errors=p.args[1] if len(p.args) > 1
                            else 'strict'))
        elif p is P:
            segs.append(Seg('raw', of=p, term=p))
        elif isinstance(p, Sym) and p.op == 'more':
            segs.append(Seg('elems', term=p))
        elif isinstance(p, Sym) and p.op == 'enc':
            segs.append(Seg('enc', short=p.args[0], of=p.args[1], term=p))
        else:
            segs.append(Seg('other', term=p))
    return segs


class EncPath:
    def __init__(self, kn, term, P):
        self.kn = kn
        self.term = term
        self.P = P
        self.segs = segments(term, P)
        self.guard_types = None
        for a in kn.known:
            if isinstance(a, Sym) and a.op == 'isinstance' and \
                    a.args[0] is P:
                ts = set(a.args[1])
                self.guard_types = ts if self.guard_types is None else \
                    (self.guard_types & ts)
        if self.guard_types is None and isinstance(P, Sym) and \
                kn.types.get(P):
            # a disjunction of isinstance tests (joined branches)
            self.guard_types = set(kn.types[P])
        self.range = kn.bounds.get(P)


class EncDesc:
    def __init__(self, prog, fi, policy=None):
        self.fi = fi
        args = codec.symbolic_args(fi)
        self.P = args[0] if args else None
        self.interp, outs = codec.run(prog, fi, args, policy)
        self.paths = []
        for o in outs:
            if o.kind == 'return':
                ep = EncPath(o.state.kn, o.value, self.P)
                ep.store = o.state.store
                self.paths.append(ep)
        self.raises = [o for o in outs if o.kind == 'raise']

    def raise_types(self):
        return sorted({o.exc.type_name for o in self.raises})


class Read:
    def __init__(self, term, fmt, idx, lo, his):
        self.term = term
        self.fmt = fmt
        f = T.fmt(fmt)
        off, (ch, size, signed, kind) = [
            x for x in f.offsets() if x[1][3] != 'pad'][idx]
        self.size = size
        self.signed = signed
        self.fkind = kind
        self.order = f.order if size > 1 else 'any'
        self.offset = T.add(lo, off)  # absolute offset of this field
        self.unpack_lo = lo
        self.unpack_size = f.size
        self.his = his

    def __repr__(self):
        return 'read(%s@%s %d bytes %s %s)' % (
            self.fmt, T.show(self.offset), self.size,
            'signed' if self.signed else 'unsigned', self.order)


def find_reads(x, B):
    out = {}
    for t in T.subterms(x):
        if t.op == 'index' and isinstance(t.args[0], Sym) and \
                t.args[0].op == 'unpack' and isinstance(t.args[1], int):
            from .layout import abs_range
            r = abs_range(t.args[0].args[1], B)
            if r is not None:
                out[t] = Read(t, t.args[0].args[0], t.args[1], r[0], r[1])
        elif t.op == 'index' and isinstance(t.args[1], int) and \
                t.args[1] >= 0 and T.typeof(t.args[0]) == {'bytes'}:
            # buffer[k]: one unsigned octet
            from .layout import abs_range
            r = abs_range(t.args[0], B)
            if r is not None:
                lo = T.add(r[0], t.args[1])
                out[t] = Read(t, 'B', 0, lo, list(r[1]) + [T.add(lo, 1)])
    return out


class DecPath:
    def __init__(self, kn, consumed, value, B, store, interp):
        self.kn = kn
        self.cursor = None
        # a decoder that reports its loop cursor: the loop ran until the
        # cursor reached the declared end E (path fact not(cursor < E));
        # on encoder-produced data the elements end exactly at E (their own
        # pairs), so the count reported is E
        if isinstance(consumed, Sym) and consumed.op == 'typed' and \
                isinstance(consumed.args[0], Sym) and \
                consumed.args[0].op in ('loopvar', 'loopattr'):
            for a in kn.atoms:
                e_ = None
                if isinstance(a, Sym) and a.op == 'not' and \
                        isinstance(a.args[0], Sym) and \
                        a.args[0].op == 'lt' and \
                        a.args[0].args[0] is consumed:
                    e_ = a.args[0].args[1]
                elif isinstance(a, Sym) and a.op == 'ge' and \
                        a.args[0] is consumed:
                    e_ = a.args[1]
                elif isinstance(a, Sym) and a.op == 'le' and \
                        a.args[1] is consumed:
                    e_ = a.args[0]
                if e_ is not None:
                    self.cursor = consumed
                    consumed = e_
                    break
        self.consumed = consumed
        self.value = value
        self.B = B
        self.reads = find_reads((consumed, value), B)
        self.store = store
        self.interp = interp

    def value_kind(self):
        """Python type name(s) of the decoded value, when determinable."""
        v = self.value
        if isinstance(v, T.Ref):
            return {v.kind}
        t = T.typeof(v)
        if t is not None:
            return t
        if isinstance(v, Sym) and v.op == 'extcall':
            p = v.args[0]
            if p.startswith('datetime.datetime.'):
                return {'datetime'}
            if p == 'decimal.Decimal':
                return {'Decimal'}
        if isinstance(v, Sym) and v.op == 'mul' and any(
                isinstance(a, Sym) and a.op == 'extcall' and
                a.args[0] == 'decimal.Decimal' for a in v.args):
            return {'Decimal'}
        return None


class DecDesc:
    def __init__(self, prog, fi, policy=None):
        self.fi = fi
        args = codec.symbolic_args(fi)
        self.B = args[0]
        self.interp, outs = codec.run(prog, fi, args, policy)
        self.paths = []
        for o in outs:
            if o.kind == 'return':
                v = o.value
                if not (isinstance(v, tuple) and len(v) == 2):
                    raise AnalysisError('decoder %s does not return a pair'
                                        % fi.short)
                self.paths.append(DecPath(o.state.kn, v[0], v[1], self.B,
                                          o.state.store, self.interp))
        self.raises = [o for o in outs if o.kind == 'raise']

    def raise_types(self):
        return sorted({o.exc.type_name for o in self.raises})


# ---------------------------------------------------------------------------


def _fld_text(s):
    return '%d-byte %s %s (%s)' % (
        s.size, {True: 'signed', False: 'unsigned', None: ''}[s.signed],
        s.fkind, s.order)


def field_agreement(seg, rd, accepted):
    """Clauses (1) width/order and (2) signedness of Pair for one field.
    ``accepted``: interval of values that can reach the encoder field."""
    res = []
    same_w = seg.size == rd.size and seg.fkind == rd.fkind and \
        (seg.size == 1 or seg.order == rd.order == 'big')
    res.append(('width/order', same_w,
                'written as %s, read as %d-byte %s %s (%s)' %
                (_fld_text(seg), rd.size,
                 {True: 'signed', False: 'unsigned', None: ''}[rd.signed],
                 rd.fkind, rd.order)))
    if seg.fkind == 'int' and rd.fkind == 'int':
        if seg.signed == rd.signed:
            res.append(('signedness', True, 'same signedness'))
        else:
            bits = 8 * seg.size
            common = (0, (1 << (bits - 1)) - 1)
            inside = accepted is not None and accepted[0] is not None and \
                accepted[1] is not None and accepted[0] >= common[0] and \
                accepted[1] <= common[1]
            res.append(('signedness', inside,
                        'written %s, read %s; values that can be written: '
                        '%s; both readings agree only on [%d, %d]' %
                        ('signed' if seg.signed else 'unsigned',
                         'signed' if rd.signed else 'unsigned',
                         _iv_text(accepted), common[0], common[1])))
    return res


def _iv_text(iv):
    if iv is None:
        return 'unbounded'
    return '[%s, %s]' % ('-inf' if iv[0] is None else iv[0],
                         '+inf' if iv[1] is None else iv[1])


def fmt_range(seg):
    if seg.fkind != 'int':
        return None
    bits = 8 * seg.size
    if seg.signed:
        return (-(1 << (bits - 1)), (1 << (bits - 1)) - 1)
    return (0, (1 << bits) - 1)


def accepted_interval(path, seg):
    """Values that can flow into the field: explicit guard ∩ format range."""
    r = fmt_range(seg)
    if r is None:
        return None
    g = path.range
    if seg.operand[0] != 'value' or g is None:
        if seg.operand[0] == 'len':
            return (0, r[1])
        if seg.operand[0] in ('int(value)',) and path.guard_types == \
                {'bool'}:
            return (0, 1)
        return r
    return T._iv_meet(r, g)


def strip_tag(path):
    """(tag bytes, remaining segs) when the output starts with a constant."""
    segs = path.segs
    if segs and segs[0].kind == 'const':
        return segs[0].data, segs[1:]
    return b'', segs


def pair(E, D, skip_prefix=0, reach=None):
    """Generic Pair judgement.  ``skip_prefix``: number of leading constant
    bytes of the encoder output that the caller's dispatcher consumes (the
    type tag).  Returns list of (clause, ok (True/False/None), text)."""
    res = []
    if not E.paths:
        return [('encoder', None, 'encoder has no normal return')]
    if not D.paths:
        return [('decoder', None, 'decoder has no normal return')]
    if all(ep.term is None for ep in E.paths):
        # the encoder emits nothing (void): the decoder reads nothing and
        # gives None back
        okv = all(dp.consumed == 0 and dp.value is None for dp in D.paths)
        return [('void', okv, 'nothing is written; the decoder consumes %s '
                 'and returns %s' % (
                     sorted({T.show(dp.consumed) for dp in D.paths}),
                     sorted({T.show(dp.value) for dp in D.paths})))]
    for ep in E.paths:
        segs = list(ep.segs)
        skip = skip_prefix
        while skip and segs and segs[0].kind == 'const':
            take = min(skip, segs[0].size)
            if take == segs[0].size:
                segs.pop(0)
            else:
                segs[0] = Seg('const', data=segs[0].data[take:],
                              size=segs[0].size - take)
            skip -= take
        if skip:
            res.append(('tag', None, 'encoder output does not start with '
                        'the expected constant tag'))
            continue
        res.extend(_pair_path(ep, segs, D, reach))
        res.extend(_type_clause(ep, D))
    res.extend(_domain_clause(E))
    return res


def _domain_clause(E):
    """Pair clause (6): an encoder that writes its integer argument into
    one fixed-width field accepts every integer of that field's range (the
    wire type's domain) - a value the explicit guards of every return path
    exclude can never be encoded, so it cannot round-trip.  The accepted
    set is an over-approximation (guards that are not interval-shaped count
    as 'any value'), so a reported gap is a definite refusal."""
    from . import isets
    P = E.P
    if not E.paths or not isinstance(P, Sym):
        return []
    rng = None
    accept = isets.ISet.empty()
    for p in E.paths:
        flds = [s_ for s_ in p.segs if s_.kind == 'fld']
        if len(p.segs) != 1 or len(flds) != 1 or \
                flds[0].fkind != 'int' or flds[0].operand != ('value',):
            return []
        r = fmt_range(flds[0])
        if rng is not None and r != rng:
            return []
        rng = r
        a_ = isets.ISet.all()
        for a in p.kn.atoms:
            if isinstance(a, Sym) and not isets.is_type_atom(a):
                a_ = a_.inter(isets.superset(a, P))
        if p.range is not None:
            a_ = a_.inter(isets.ISet.range(*p.range))
        accept = accept.union(a_)
    missing = isets.ISet.range(*rng).minus(accept)
    return [('domain', missing.is_empty(),
             'every integer of [%d, %d] has a return path' % rng
             if missing.is_empty() else
             'integers %r of the field range [%d, %d] are refused by the '
             'encoder\'s own guards' % (missing, rng[0], rng[1]))]


_TYPE_COMPAT = {'struct_time': 'datetime'}


def _type_clause(ep, D):
    """Pair clause (5): the Python type the decoder returns for
    well-formed data is the type the encoder's guard requires."""
    gt = ep.guard_types
    if not gt:
        return []
    prim = set()
    unknown = False
    for dp in D.paths:
        fallback = any(isinstance(a, Sym) and a.op == 'not' and
                       isinstance(a.args[0], Sym) and
                       a.args[0].op == 'ok' and a.args[0].args[0] == 'utf8'
                       for a in dp.kn.atoms)
        if fallback:
            continue
        k = dp.value_kind()
        if k is None:
            unknown = True
        else:
            prim |= k
    if unknown or not prim:
        return []
    want = {_TYPE_COMPAT.get(g, g) for g in gt}
    okk = want <= prim
    return [('type', okk, 'encoder accepts %s, decoder returns %s for '
             'well-formed data' % (sorted(gt), sorted(prim)))]


def _pair_path(ep, segs, D, reach=None):
    res = []
    # absolute offsets of encoder segments
    off = 0
    placed = []
    for s in segs:
        placed.append((off, s))
        if s.kind in ('fld', 'pad', 'const'):
            off = T.add(off, s.size)
        elif s.kind in ('utf8', 'raw', 'elems', 'enc', 'other'):
            off = T.add(off, T.length(s.term))
    total = off
    if any(s.kind == 'other' for s in segs):
        return [('layout', None, 'unrecognised piece in encoder output: %r'
                 % ([s for s in segs if s.kind == 'other'][:1],))]
    for s in segs:
        if s.kind == 'utf8':
            of_ = getattr(s, 'of', None)
            while isinstance(of_, Sym) and of_.op == 'typed' and of_.args:
                of_ = of_.args[0]
            p_ = ep.P
            while isinstance(p_, Sym) and p_.op == 'typed' and p_.args:
                p_ = p_.args[0]
            res.append(('text', of_ is p_,
                        'the text written is the argument itself'
                        if of_ is p_ else
                        'the text written is %s, not the argument: what '
                        'comes back differs from what was passed (in value '
                        'or type)' % T.show(getattr(s, 'of', None))[:100]))
            dec_err = set()
            other = set()
            for dp in D.paths:
                for t in T.subterms(dp.value):
                    if t.op == 'decode_utf8':
                        dec_err.add(t.args[1] if len(t.args) > 1
                                    else 'strict')
                    elif t.op == 'decode':
                        other.add(str(t.args[1]))
            okc = s.errors == 'strict' and dec_err == {'strict'} and \
                not other
            res.append(('codec', okc,
                        'text written with UTF-8 errors=%r, read with '
                        '%s: %s' % (
                            s.errors,
                            'UTF-8 errors=%r' % sorted(map(str, dec_err))
                            if not other else 'codec %s' % sorted(other),
                            'same strict codec on both sides' if okc else
                            'the two sides do not use the same strict '
                            'codec, so some text does not come back')))
    for dp in D.paths:
        reads = list(dp.reads.values())
        used = set()
        prefix_read = None
        # reads that fall inside constant bytes the encoder emits: the value
        # read is that constant
        cmap = {}
        for r in reads:
            for o, s_ in placed:
                if s_.kind == 'const' and isinstance(o, int) and \
                        isinstance(r.offset, int) and o <= r.offset and \
                        r.offset + r.size <= o + s_.size:
                    import struct as _st
                    code = {(1, True): 'b', (1, False): 'B', (2, True): 'h',
                            (2, False): 'H', (4, True): 'i', (4, False): 'I',
                            (8, True): 'q', (8, False): 'Q'}.get(
                                (r.size, r.signed))
                    if code and r.fkind == 'int' and r.order in ('big',
                                                                 'any'):
                        raw = s_.data[r.offset - o:r.offset - o + r.size]
                        cmap[r.term] = _st.unpack('>' + code, raw)[0]
                        used.add(r.term)
        consumed = T.subst(dp.consumed, cmap) if cmap else dp.consumed
        for o, s in placed:
            if s.kind != 'fld':
                continue
            match = [r for r in reads if T.sub(r.offset, o) == 0]
            if not match:
                res.append(('read', False, 'encoder writes %s at offset %s '
                            'but the decoder never reads it' %
                            (_fld_text(s), T.show(o))))
                continue
            for r in match:
                used.add(r.term)
                acc = accepted_interval(ep, s)
                if reach is not None and s.operand[0] == 'value' and \
                        acc is not None:
                    acc = T._iv_meet(acc, reach)
                for c, okk, text in field_agreement(s, r, acc):
                    res.append((c, okk, text))
                if s.operand[0] == 'len' and (
                        any(getattr(x, 'term', None) is s.operand[1]
                            for _o, x in placed) or
                        T.mentions(dp.consumed, lambda t: t is r.term)):
                    # a length prefix: the encoder writes a len() and the
                    # decoder uses the value read there as a length
                    prefix_read = (s, r, o)
                elif s.operand[0] not in ('len', 'const') and \
                        T.mentions(dp.consumed, lambda t: t is r.term):
                    # the decoder takes the field as a length, the encoder
                    # writes something that is not the length of what follows
                    res.append(('prefix', False, 'the decoder uses the %s at '
                                'offset %s as a length, the encoder writes '
                                '%s there' % (_fld_text(s), T.show(o),
                                              T.show(s.arg)[:80])))
        for r in reads:
            if r.term not in used:
                res.append(('read', False, 'decoder reads %r which is not a '
                            'field the encoder writes' % (r,)))
        # consumed = emitted
        if prefix_read is None:
            c_ok = T.sub(consumed, total) == 0 if isinstance(
                total, int) else None
            if isinstance(total, int):
                res.append(('consumed', c_ok, 'decoder reports %s consumed, '
                            'encoder emits %s bytes' %
                            (T.show(consumed), T.show(total))))
        else:
            s, r, o = prefix_read
            after = T.add(o, s.size)
            want = T.add(after, r.term)
            c_ok = T.sub(dp.consumed, want) == 0
            # the prefix must be the length of exactly what follows
            following = [x for oo, x in placed
                         if T.sub(oo, after) == 0 and x.kind != 'fld'
                         or (isinstance(oo, Sym) and x.kind != 'fld')]
            tail = [x for oo, x in placed if x is not s and
                    not (isinstance(oo, int) and isinstance(o, int) and
                         oo < o)]
            tail_len = 0
            for x in tail:
                if x.kind in ('fld', 'pad', 'const'):
                    tail_len = T.add(tail_len, x.size)
                else:
                    tail_len = T.add(tail_len, T.length(x.term))
            n_ok = T.sub(tail_len, T.length(s.operand[1])) == 0
            res.append(('prefix', n_ok, 'length prefix counts %s; bytes '
                        'emitted after it: %s' %
                        (T.show(Sym('len', s.operand[1]))[:80],
                         T.show(tail_len)[:80])))
            res.append(('consumed', c_ok, 'decoder reports %s consumed; '
                        'prefix size + prefix value = %s' %
                        (T.show(dp.consumed)[:80], T.show(want)[:80])))
            del following
            # the payload view
            views = [t for t in T.subterms(dp.value)
                     if t.op == 'slice']
            from .layout import abs_range
            v_ok = None
            for v in views:
                rr = abs_range(v, dp.B)
                if rr is None:
                    continue
                lo, his = rr
                if T.sub(lo, after) == 0 and any(
                        T.sub(h, want) == 0 for h in his):
                    v_ok = True
                    break
                v_ok = False
            if views:
                res.append(('view', v_ok, 'decoder takes the payload as '
                            'buffer[%s : %s]' % (T.show(after),
                                                 T.show(want)[:80])))
    return res


# ---------------------------------------------------------------------------
# drivers used by rules


def methods_tables(ctx):
    pol = codec.FramePolicy(ctx.prog)
    enc = {}
    for q, names in pol.enc_funcs.items():
        for n in names:
            enc[n] = pol.func_objs[q]
    dec = {}
    for q, names in pol.dec_funcs.items():
        for n in names:
            dec[n] = pol.func_objs[q]
    return enc, dec


_DESC_CACHE = {}


def enc_desc(ctx, fi):
    k = ('e', id(ctx.prog), fi.qualname)
    hit = _DESC_CACHE.get(k)
    if hit is None or hit[0] is not ctx.prog:
        hit = _DESC_CACHE[k] = (ctx.prog, EncDesc(ctx.prog, fi))
    return hit[1]


def dec_desc(ctx, fi):
    k = ('d', id(ctx.prog), fi.qualname)
    hit = _DESC_CACHE.get(k)
    if hit is None or hit[0] is not ctx.prog:
        hit = _DESC_CACHE[k] = (ctx.prog, DecDesc(ctx.prog, fi))
    return hit[1]


def report_pair(chk, rule, construct, results, site=None):
    """Turn clause results into obligations."""
    for clause, okk, text in results:
        cons = '%s %s' % (construct, clause)
        if okk is None:
            chk.undecide(rule, cons, text)
        else:
            chk.ob(rule, cons, okk, text, site=site)


def check_method_types(chk, ctx, rule, types):
    enc, dec = methods_tables(ctx)
    for t in types:
        if t == 'bit':
            continue
        e, d = enc.get(t), dec.get(t)
        if e is None or d is None:
            chk.ob(rule, 'type ' + repr(t), False,
                   'wire type has no %s in METHODS' %
                   ('encoder' if e is None else 'decoder'))
            continue
        E, D = enc_desc(ctx, e), dec_desc(ctx, d)
        res = pair(E, D)
        site = '%s:%d / %s:%d' % (e.module.relpath, e.node.lineno,
                                  d.module.relpath, d.node.lineno)
        report_pair(chk, rule, 'Pair(%s, %s)' % (e.short, d.short), res,
                    site=site)
