"""Verdict protocol (DESIGN.md section 2): obligations, evidence files,
violation replays, known findings, instance floors."""
import json
import os
import sys
import time

VERIF = os.path.dirname(os.path.dirname(os.path.abspath(__file__)))
EVIDENCE_DIR = os.environ.get('VERIF_EVIDENCE_DIR') or \
    os.path.join(VERIF, 'evidence')
KNOWN_FILE = os.path.join(VERIF, 'known_findings.json')


class Undecided(Exception):
    """A rule could not decide an obligation (fail closed: exit 2)."""


class Obligation:
    __slots__ = ('rule', 'construct', 'ok', 'fact', 'detail', 'site',
                 'nontrivial')

    def __init__(self, rule, construct, ok, fact, detail, site, nontrivial):
        self.rule = rule
        self.construct = construct
        self.ok = ok
        self.fact = fact
        self.detail = detail
        self.site = site
        self.nontrivial = nontrivial

    @property
    def key(self):
        return '%s/%s/%s' % (self.rule, self.construct, self.fact)

    def as_dict(self):
        d = {'rule': self.rule, 'construct': self.construct,
             'verdict': 'holds' if self.ok else 'VIOLATED',
             'fact': self.fact}
        if self.site:
            d['site'] = self.site
        if self.detail:
            d['detail'] = self.detail
        return d


class SecondReading:
    """The checker as seen by a second analysis of the same code under
    another reading of it (python -O: assert statements removed).  Only what
    differs from the first reading is recorded: an obligation with the same
    rule, construct and verdict as one of the first run is dropped, the
    others are kept with the reading's tag on the construct."""

    def __init__(self, chk, tag):
        self._chk, self._tag = chk, tag
        self._first = {(o.rule, o.construct, o.ok) for o in chk.obligations}
        self._und = {(u['rule'], u['construct']) for u in chk.undecided}
        self.extra_obligations = 0

    def __getattr__(self, name):
        return getattr(self._chk, name)

    def ob(self, rule, construct, ok, fact='', detail=None, site=None,
           nontrivial=True):
        if (rule, str(construct), bool(ok)) in self._first:
            return bool(ok)
        self.extra_obligations += 1
        return self._chk.ob(rule, '%s %s' % (construct, self._tag), ok,
                            fact, detail, site, nontrivial)

    def undecide(self, rule, construct, why):
        if (rule, str(construct)) in self._und:
            return None
        return self._chk.undecide(rule, '%s %s' % (construct, self._tag),
                                  why)

    def floor(self, rule, floor, what, count=None):
        return None  # floors were checked in the first reading


class Check:
    def __init__(self, pid, tier, repo, title=''):
        self.pid = pid
        self.tier = tier
        self.repo = repo
        self.title = title
        self.t0 = time.time()
        self.obligations = []
        self.rule_texts = {}
        self.rule_counts = {}
        self.floors = []
        self.assumptions = []
        self.trusted_base = []
        self.units = {}
        self.notes = []
        self.extra = {}
        self.undecided = []
        self.exhaustive = False
        self.explanation = ''
        self.prog = None

    # -- recording --------------------------------------------------------
    def rule(self, rid, text):
        self.rule_texts[rid] = text
        self.rule_counts.setdefault(rid, 0)

    def ob(self, rule, construct, ok, fact='', detail=None, site=None,
           nontrivial=True):
        o = Obligation(rule, str(construct), bool(ok), str(fact), detail,
                       site, nontrivial)
        self.obligations.append(o)
        self.rule_counts[rule] = self.rule_counts.get(rule, 0) + 1
        return o.ok

    def floor(self, rule, floor, what, count=None):
        """The rule must have matched at least ``floor`` instances."""
        c = self.rule_counts.get(rule, 0) if count is None else count
        self.floors.append({'rule': rule, 'what': what, 'floor': floor,
                            'count': c})

    def undecide(self, rule, construct, why):
        self.undecided.append({'rule': rule, 'construct': str(construct),
                               'why': why})

    def note(self, text):
        if text not in self.notes:
            self.notes.append(text)

    def assume(self, text):
        if text not in self.assumptions:
            self.assumptions.append(text)

    def trust(self, text):
        if text not in self.trusted_base:
            self.trusted_base.append(text)

    # -- finishing --------------------------------------------------------
    def finish(self):
        known = load_known()
        viol = [o for o in self.obligations if not o.ok]
        listed, new = [], []
        seen = set()
        for o in viol:
            if o.key in seen:
                continue
            seen.add(o.key)
            entry = known.get((self.pid, o.key))
            if entry is not None and entry.get('status') == 'known':
                listed.append((o, entry))
            else:
                new.append(o)
        floor_fail = [f for f in self.floors if f['count'] < f['floor']]
        code = 0
        lines = []
        for o, entry in listed:
            lines.append('KNOWN-FINDING: property=%s %s %s' %
                         (self.pid, o.key, entry.get('what', o.detail or '')))
        vdir = os.path.join(EVIDENCE_DIR, 'violations')
        if new:
            os.makedirs(vdir, exist_ok=True)
            code = 1
            for n, o in enumerate(new, 1):
                path = os.path.join(vdir, '%s.%d.json' % (self.pid, n))
                with open(path, 'w') as fh:
                    json.dump({'property': self.pid, 'key': o.key,
                               'obligation': o.as_dict(),
                               'repo': self.repo}, fh, indent=1,
                              default=str)
                lines.append('VIOLATION property=%s replay=%s' %
                             (self.pid, path))
                lines.append('  rule      %s %s' %
                             (o.rule, self.rule_texts.get(o.rule, '')))
                lines.append('  construct %s' % o.construct)
                if o.site:
                    lines.append('  site      %s' % o.site)
                lines.append('  fact      %s' % o.fact)
                if o.detail:
                    for k, v in (o.detail.items() if isinstance(
                            o.detail, dict) else [('detail', o.detail)]):
                        lines.append('  %-9s %s' % (k, v))
        if (self.undecided or floor_fail) and code == 0:
            code = 2
        for u in self.undecided:
            lines.append('ANALYSIS-ERROR property=%s undecided %s %s: %s' %
                         (self.pid, u['rule'], u['construct'], u['why']))
        for f in floor_fail:
            lines.append('ANALYSIS-ERROR property=%s rule %s matched %d %s, '
                         'floor is %d' % (self.pid, f['rule'], f['count'],
                                          f['what'], f['floor']))
        self.write_evidence(len(new), listed)
        ndis = sum(1 for o in self.obligations if o.ok)
        lines.append('%s %s: %d obligations, %d discharged, %d known '
                     'findings, %d new violations, %d undecided [%s tier, '
                     '%.2fs]' % (self.pid, 'OK' if code == 0 else
                                 ('VIOLATED' if code == 1 else 'UNDECIDED'),
                                 len(self.obligations), ndis, len(listed),
                                 len(new), len(self.undecided), self.tier,
                                 time.time() - self.t0))
        for r in sorted(self.rule_counts):
            lines.append('  %-8s %4d  %s' % (r, self.rule_counts[r],
                                             self.rule_texts.get(r, '')))
        try:
            print('\n'.join(lines))
            sys.stdout.flush()
        except BrokenPipeError:
            # the reader went away (e.g. `| head`): the verdict is the exit
            # code and the evidence file, both unaffected
            try:
                sys.stdout = open(os.devnull, 'w')
            except OSError:
                pass
        return code

    def write_evidence(self, nviol, listed):
        os.makedirs(EVIDENCE_DIR, exist_ok=True)
        distinct = set()
        for o in self.obligations:
            if o.nontrivial:
                distinct.add((o.rule, o.construct, o.fact))
        samples = []
        per_rule = {}
        for o in self.obligations:
            per_rule.setdefault(o.rule, [])
            if len(per_rule[o.rule]) < 3 or not o.ok:
                per_rule[o.rule].append(o.as_dict())
        for r in sorted(per_rule):
            samples.extend(per_rule[r])
        cov = {
            'explanation': self.explanation,
            'obligations': len(self.obligations),
            'discharged': sum(1 for o in self.obligations if o.ok),
            'evaluations': len(self.obligations),
            'distinct_nontrivial': len(distinct),
            'rule': 'one obligation = one rule instance on one construct of '
                    'the current source; distinct = distinct (rule, '
                    'construct, fact) triples whose decision used at least '
                    'one fact extracted from the repo source. Rules: ' +
                    '; '.join('%s: %s' % kv for kv in
                              sorted(self.rule_texts.items())),
            'samples': samples[:120],
            'rule_instances': dict(sorted(self.rule_counts.items())),
            'instance_floors': self.floors,
            'exhaustive': self.exhaustive,
            'trusted_base': self.trusted_base,
            'analysed_units': self.units,
            'known_findings_echoed': [o.key for o, _ in listed],
            'undecided': self.undecided,
            'notes': self.notes,
            'checker_cmd': './check %s --tier %s' % (self.pid, self.tier),
        }
        cov.update(self.extra)
        ev = {
            'property_id': self.pid,
            'tier': self.tier,
            'seed': int(os.environ.get('VERIF_SEED', '0') or 0),
            'level': 'other',
            'coverage': cov,
            'assumptions': self.assumptions,
            'wall_s': round(time.time() - self.t0, 3),
            'violations': nviol,
        }
        path = os.path.join(EVIDENCE_DIR, self.pid + '.json')
        tmp = path + '.tmp'
        with open(tmp, 'w') as fh:
            json.dump(ev, fh, indent=1, default=str)
        os.replace(tmp, path)


def load_known():
    out = {}
    if not os.path.exists(KNOWN_FILE):
        return out
    with open(KNOWN_FILE) as fh:
        data = json.load(fh)
    for e in data.get('findings', []):
        out[(e['property'], e['key'])] = e
    return out
