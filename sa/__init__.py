"""Static analysis engine for gmr/pamqp (see /verif/DESIGN.md).

Nothing in this package imports or executes pamqp: every module works on the
syntax trees of <repo>/pamqp/*.py.
"""
