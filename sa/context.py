"""Shared analysis context: parsed program, spec tables, helpers used by
several rules."""
from . import interp as I
from . import spec as S
from . import terms as T
from .model import AnalysisError, ClassInfo, Program
from .terms import Sym


class Context:
    def __init__(self, repo, tier='quick'):
        self.repo = repo
        self.tier = tier
        self.prog = Program(repo)
        self.spec = S.load()
        self._static = None

    def interp(self, policy=None):
        return I.Interp(self.prog, policy)

    def static(self):
        """A shared interpreter used only for scope-level constants."""
        if self._static is None:
            self._static = I.Interp(self.prog)
        return self._static

    def new_state(self):
        return I.State({}, {}, T.Knowledge())

    # -- catalogue helpers ------------------------------------------------
    def list_value(self, it, state, v, what):
        """Python list of a ListObj reference (fail closed)."""
        if isinstance(v, T.Ref):
            o = it.obj(state, v)
            if o.kind == 'list' and not o.more:
                return list(o.items)
        if isinstance(v, tuple):
            return list(v)
        raise AnalysisError('%s is not a literal list' % what)

    def dict_value(self, it, state, v, what):
        if isinstance(v, T.Ref):
            o = it.obj(state, v)
            if o.kind == 'dict' and not o.more:
                return list(o.items)
        raise AnalysisError('%s is not a literal dict' % what)

    def index_mapping(self):
        """[(key, ClassInfo)] of commands.INDEX_MAPPING."""
        it = self.static()
        mod = self.prog.module('commands')
        if 'INDEX_MAPPING' not in mod.bindings:
            raise AnalysisError('anchor vanished: commands.INDEX_MAPPING')
        v = it.global_value(mod, 'INDEX_MAPPING')
        return self.dict_value(it, self.new_state(), v,
                               'commands.INDEX_MAPPING')

    def envelope_function(self):
        """The function of pamqp.frame that writes the frame envelope:
        `frame._marshal` by name (through aliases), else the one function of
        the module other than the reader that packs a 7-octet, 3-field
        struct format (it may have been renamed)."""
        import ast
        from . import terms as T
        try:
            return self.prog.function('frame._marshal')
        except AnalysisError:
            pass
        cands = []
        fmod = self.prog.module('frame')
        for fi in fmod.functions.values():
            if fi.name in ('frame_parts', 'unmarshal', 'marshal'):
                continue
            for n in ast.walk(fi.node):
                if isinstance(n, ast.Call) and isinstance(
                        n.func, ast.Attribute) and n.func.attr == 'pack':
                    fmt = None
                    if n.args and isinstance(n.args[0], ast.Constant) and \
                            isinstance(n.args[0].value, str):
                        fmt = n.args[0].value
                    else:
                        try:
                            v = self.static().eval_static(
                                n.func.value, fmod, fmod)
                            fmt = getattr(v, 'fmt', None)
                        except Exception:
                            fmt = None
                    try:
                        f = T.fmt(fmt) if isinstance(fmt, str) else None
                    except Exception:
                        f = None
                    if f is not None and f.size == 7 and \
                            len(f.values) == 3 and fi not in cands:
                        cands.append(fi)
        if len(cands) == 1:
            return cands[0]
        raise AnalysisError('anchor vanished: the envelope writer of '
                            'pamqp.frame (frame._marshal)')

    def method_classes(self):
        """All classes deriving from base.Frame (the method classes)."""
        frame = self.prog.cls('base.Frame')
        out = []
        for ci in self.prog.classes.values():
            if ci is frame:
                continue
            try:
                if self.prog.is_subclass(ci, frame):
                    out.append(ci)
            except AnalysisError:
                raise
        return out

    def slots_of(self, ci):
        it = self.static()
        v = it.class_attr(ci, '__slots__')
        return self.list_value(it, self.new_state(), v,
                               ci.short + '.__slots__')

    def symbolic_instance(self, it, state, ci, prefix='field'):
        """Instance of ci whose slots hold arbitrary run-time values."""
        attrs = {s: Sym(prefix, s) for s in self.slots_of(ci)}
        return it.alloc(state, I.InstObj(ci, attrs, open_=True))

    def constructed(self, cls_short, args, policy=None):
        """Abstractly run cls.__init__(self, *args) on a fresh instance.
        -> (attrs of the instance after the constructor, raise outcomes)."""
        it = self.interp(policy)
        self.last_interp = it
        st = self.new_state()
        ci = self.prog.cls(cls_short)
        ref = it.alloc(st, I.InstObj(ci, {}))
        init = self.prog.find_method(ci, '__init__')
        if init is None:
            return {}, []
        outs = it.run_function(init, [ref] + list(args), {}, st)
        done = [o for o in outs if o.kind != 'raise']
        raises = [o for o in outs if o.kind == 'raise']
        if not done:
            raise AnalysisError('%s.__init__ never completes' % cls_short)
        j = it.join_outcomes(done, 0) if len(done) > 1 else done[0]
        ob = it.obj(j.state, ref)
        attrs = dict(ob.attrs)
        # what a reader of the attribute gets (descriptors / properties on
        # the class are honoured): read back through the attribute protocol
        for nm in list(attrs) + [a.arg for a in init.node.args.args[1:]
                                 if a.arg not in attrs]:
            try:
                it.pending = []
                v = it.get_attr(ref, nm, j.state, init.node)
                attrs[nm] = v
            except Exception:
                pass
        it.pending = []
        return attrs, raises
