"""C08 - decoding any byte string terminates with bounded work and memory.
Variant / size-change arguments over every data-dependent loop and every
recursive cycle reachable from the decoders."""
import ast

from .. import codec
from .. import framepaths as F
from .. import interp as I
from .. import terms as T
from ..interp import _walk_own_nodes as I_walk_own
from ..model import AnalysisError
from ..terms import Sym

RULES = {
    'C08.W': 'every data-dependent loop has an integer cursor that every '
             'continuing iteration advances by >= 1 and that is bounded by '
             'the buffer: an iteration can only continue after a successful '
             'read at a cursor position below len(buffer)',
    'C08.R': 'recursion is well-founded: every recursive decoder call '
             'receives a strict suffix of its caller\'s buffer',
    'C08.A': 'arithmetic objects built from wire data have input-bounded '
             'size (exponent from a narrow unsigned field)',
    'C08.Q': 'no data-dependent loop is nested in another within one '
             'activation (at most quadratic work: iterations x slice '
             'copies)',
    'C08.F': 'all other loops on the decode side iterate over compile-time '
             'sequences',
}


def buffers_of(loop):
    """Base buffers visible at the loop: bytes-typed values of the start
    environment (slice bases)."""
    out = []
    for v in loop['start_env'].values():
        if isinstance(v, Sym) and T.typeof(v) is not None and \
                T.typeof(v) <= {'bytes', 'bytearray'}:
            b = v
            while isinstance(b, Sym) and b.op == 'slice':
                b = b.args[0]
            if b not in out:
                out.append(b)
    # ... and buffers kept in an attribute of an object the loop works on
    # (a reader / cursor object: self.data)
    st0 = loop.get('start')
    if st0 is not None:
        for ob in st0.store.values():
            if getattr(ob, 'kind', None) != 'inst':
                continue
            for v in ob.attrs.values():
                if isinstance(v, Sym) and T.typeof(v) is not None and \
                        T.typeof(v) <= {'bytes', 'bytearray'}:
                    b = v
                    while isinstance(b, Sym) and b.op == 'slice':
                        b = b.args[0]
                    if b not in out:
                        out.append(b)
    return out


def _same_start(a1, a2):
    """Both arguments are views of the same buffer starting at the same
    offset."""
    def norm(a):
        if isinstance(a, Sym) and a.op == 'slice':
            return a.args[0], a.args[1]
        return a, 0
    b1, s1 = norm(a1)
    b2, s2 = norm(a2)
    if b1 is None or b2 is None:
        return False
    same_base = b1 is b2 or (isinstance(b1, Sym) and isinstance(b2, Sym)
                             and b1 == b2)
    return same_base and (s1 is s2 or s1 == s2 or
                          (isinstance(s1, (Sym, int)) and
                           isinstance(s2, (Sym, int)) and
                           T.sub(s1, s2) == 0))


def _exclusive(k1, k2):
    """The two path-atom lists belong to different branches."""
    n = 0
    while n < len(k1) and n < len(k2) and k1[n] == k2[n]:
        n += 1
    if n >= len(k1) or n >= len(k2):
        return False  # one path continues the other
    x, y = k1[n], k2[n]
    if x == T.not_(y) or y == T.not_(x):
        return True
    if isinstance(x, Sym) and isinstance(y, Sym) and x.op == y.op == 'eq' \
            and x.args[0] == y.args[0] and x.args[1] != y.args[1] and \
            T.is_const(x.args[1]) and T.is_const(y.args[1]):
        return True
    return False


def analyse_loop(chk, loop, seen):
    fi = loop['func']
    node = loop['node']
    key = (fi.qualname if fi else '?', node.lineno)
    if key in seen:
        return
    seen.add(key)
    cons = '%s loop' % (fi.short if fi else '?')
    site = loop['site']
    conts = loop['conts']
    if isinstance(node, ast.For):
        chk.ob('C08.W', cons, False, 'for loop over a run-time iterable on '
               'the decode side: trip count is not tied to the buffer',
               site=site)
        return
    if not conts:
        chk.ob('C08.W', cons, True, 'no iteration can continue (the body '
               'always exits)', site=site)
        return
    cursors = [k for k, v in loop['start_env'].items()
               if isinstance(v, Sym) and v.op == 'typed' and
               'int' in v.args[1]]
    # integer attributes of objects assigned in the body (a cursor object)
    attr_cursors = dict(loop.get('start_attrs') or {})
    bufs = buffers_of(loop)
    best = None
    reports = []
    for k in cursors + sorted(attr_cursors, key=repr):
        attr = isinstance(k, tuple)
        v0 = attr_cursors[k] if attr else loop['start_env'][k]
        prog_ok = True
        bound_ok = False
        dmin = None
        for o in conts:
            if attr:
                ob1 = o.state.store.get(k[0])
                v1 = getattr(ob1, 'attrs', {}).get(k[1])
            else:
                v1 = o.state.env.get(k)
            if v1 is None:
                prog_ok = False
                break
            d = T.sub(v1, v0)
            lo = o.state.kn.lin_interval(d)[0] if not isinstance(d, int) \
                else d
            if lo is None or lo < 1:
                prog_ok = False
            dmin = lo if dmin is None or (lo is not None and lo < dmin) \
                else dmin
        for b in bufs:
            allb = True
            for o in conts:
                d = T.sub(T.length(b), v0)
                lo = o.state.kn.lin_interval(d)[0]
                if lo is None or lo < 1:
                    allb = False
            if allb:
                bound_ok = True
        reports.append('%s: min advance %s, %s' %
                       (k, dmin, 'bounded by a buffer' if bound_ok else
                        'NOT bounded by any buffer'))
        if prog_ok and bound_ok:
            best = k
    # exit condition invariance diagnosis
    chk.ob('C08.W', cons, best is not None,
           'cursor %r advances >= 1 per continuing iteration and each such '
           'iteration has read below len(buffer)' % (best,) if best else
           'no cursor is both progressing and bounded by the buffer (%s)' %
           '; '.join(reports),
           detail={'candidates': reports, 'continuing_paths': len(conts)},
           site=site)
    same_act = [e for e in loop['enclosing'] if e[2] == loop['depth']]
    chk.ob('C08.Q', cons, not same_act,
           'not nested in another data-dependent loop of the same '
           'activation', site=site)


def run(chk, ctx):
    _analyse(chk, ctx)


def _analyse(chk, ctx):
    for r, t in RULES.items():
        chk.rule(r, t)
    chk.explanation = (
        'Every loop whose trip count depends on data is summarised by the '
        'abstract interpreter (one abstract iteration over havocked '
        'variables with inferred intervals); for each, a cursor must exist '
        'whose increment has lower bound >= 1 on every continuing path '
        '(consumed counts of callees come from their return terms / '
        'inductive summaries, through the dispatch tables) and whose start '
        'value is provably below len(buffer) on every continuing path (from '
        'the success facts of size-checked reads or an explicit end <= '
        'len guard). Recursive calls must receive a strict suffix. This is '
        'a variant argument over all inputs, not a measurement.')
    prog = ctx.prog
    seen = set()
    loops = []
    static_loops = {}
    runs = []
    rec_calls = []
    entry_funcs = []
    dmod = prog.module('decode')
    for fi in dmod.functions.values():
        entry_funcs.append(fi)
    hci = prog.cls('header.ContentHeader')
    for name in ('_get_flags', 'unmarshal'):
        m = prog.find_method(hci, name)
        if m is not None:
            entry_funcs.append(m)
    for fi in entry_funcs:
        if fi.name == 'by_type':
            continue
        args = codec.symbolic_args(fi)
        if fi.owner is not None:
            a = fi.node.args
            names = [p.arg for p in a.posonlyargs + a.args]
            args = []
            for n in names:
                if n in ('self', 'cls'):
                    it0 = ctx.interp()
                    continue
                args.append(codec.buf(n))
            it = ctx.interp()
            st = ctx.new_state()
            if names and names[0] == 'self':
                it.cur_module = fi.module
                it.pending, it.stack = [], []
                ref = it.instantiate(fi.owner, [], {}, st, fi.node)
                it.flush_pending()
                args = [ref] + args
            outs = it.run_function(fi, args, {}, st)
        else:
            it, outs = codec.run(prog, fi, args)
        loops.extend(it.loops)
        rec_calls.extend(it.rec_calls)
        it.last_outs = {fi.qualname: outs}
        runs.append(it)
        for k_, n_ in it.static_loops.items():
            static_loops[k_] = max(static_loops.get(k_, 0), n_)
    keys = [k for k, _ in ctx.index_mapping()]
    f = F.UnmarshalFacts(ctx, keys[0] if keys else None)
    loops.extend(f.it.loops)
    rec_calls.extend(f.it.rec_calls)
    runs.append(f.it)
    f_hdr = F.UnmarshalFacts(ctx, None)
    for it_ in (f.it, f_hdr.it):
        for k_, n_ in it_.static_loops.items():
            static_loops[k_] = max(static_loops.get(k_, 0), n_)
    # a loop is judged in the activation where its function is analysed on
    # its own (callees inlined, so the conditional behaviour of the element
    # decoder on non-empty input is visible), not through a recursion
    # summary of an enclosing analysis
    best = {}
    for lp in loops:
        k = (lp['func'].qualname if lp['func'] else '?', lp['node'].lineno)
        if k not in best or len(lp['chain']) < len(best[k]['chain']):
            best[k] = lp
    for k in sorted(best):
        analyse_loop(chk, best[k], seen)
    chk.floor('C08.W', 3, 'data-dependent loops')
    # recursion
    rseen = set()
    for fi, args, chain, site, kn in rec_calls:
        if not fi.module.name.endswith('.decode'):
            continue
        k = (fi.short, site)
        if k in rseen:
            continue
        rseen.add(k)
        a = args[0] if args else None
        lo = None
        okk = False
        if isinstance(a, Sym) and a.op == 'slice':
            base = a
            total = 0
            while isinstance(base, Sym) and base.op == 'slice':
                total = T.add(total, base.args[1])
                base = base.args[0]
            lo = kn.lin_interval(total)[0] if not isinstance(total, int) \
                else total
            okk = lo is not None and lo >= 1 and T.typeof(base) is not None
        chk.ob('C08.R', 'recursive call of %s at %s' % (fi.short, site), okk,
               'argument is buffer[%s:...] of the outer activation, offset '
               '>= %s' % (T.show(a.args[1])[:60] if isinstance(a, Sym) and
                          a.op == 'slice' else '?', lo),
               detail={'chain': ' <- '.join(reversed(chain))}, site=site)
    chk.floor('C08.R', 2, 'recursive call sites')
    # single descent: within one activation step the recursive decoders are
    # entered at most once per buffer position
    cyc = set()
    for fi, args, chain, site, kn in rec_calls:
        if fi.short in chain:
            cyc.update(chain[chain.index(fi.short):])
        cyc.add(fi.short)
    ndesc = 0
    dseen = set()
    dseen2 = set()
    for it_ in runs:
        groups = {}
        for short, chain, seq, _d in it_.calls:
            name = short.split(' ')[0]
            if name not in cyc or seq not in it_.call_info:
                continue
            # the activation of a recursive decoder this call belongs to:
            # helper frames between it and the callee do not matter
            up = list(chain[:-1])
            while up and up[-1].split(' ')[0] not in cyc:
                up.pop()
            caller = tuple(up) if up else tuple(chain[:-1])
            groups.setdefault(caller, []).append((seq, name))
        for caller, cs in groups.items():
            ndesc += len(cs)
            cs.sort()
            for i in range(len(cs)):
                for j in range(i + 1, len(cs)):
                    a1, k1 = it_.call_info[cs[i][0]]
                    a2, k2 = it_.call_info[cs[j][0]]
                    if not _same_start(a1, a2) or _exclusive(k1, k2):
                        continue
                    key = (caller[-1] if caller else '?', cs[i][1],
                           cs[j][1])
                    if key in dseen:
                        continue
                    dseen.add(key)
                    chk.ob('C08.R', 'descents from %s' % key[0], False,
                           '%s and then %s are both entered at buffer '
                           'position %s on one path: the work doubles with '
                           'every nesting level' % (
                               cs[i][1], cs[j][1],
                               T.show(a1.args[1])[:60] if isinstance(
                                   a1, Sym) and a1.op == 'slice' else '0'),
                           site='pamqp/decode.py')
    # two loops of one activation that both walk the same region (each
    # entering the recursive decoders from the same start): the region is
    # decoded twice per level - sizing a result by iterating it first, say
    for it_ in runs:
        pre_of = {}
        for lp_ in it_.loops:
            for nm_, pv_ in (lp_.get('pre') or {}).items():
                pre_of[(lp_['id'], nm_)] = pv_
        walks = {}
        for short, chain, seq, _d in it_.calls:
            name = short.split(' ')[0]
            if name not in cyc or seq not in it_.call_info:
                continue
            a1, _k1 = it_.call_info[seq]
            if not (isinstance(a1, Sym) and a1.op == 'slice'):
                continue
            base_, cur_ = a1.args[0], a1.args[1]
            lvs = [t for t in T.subterms(cur_) if t.op == 'loopvar'] \
                if isinstance(cur_, Sym) else []
            if len(lvs) != 1:
                continue
            lid, lname = lvs[0].args[0], lvs[0].args[1]
            start_ = pre_of.get((lid, lname))
            if start_ is None or isinstance(start_, type(I.ABSENT)):
                continue
            up = list(chain[:-1])
            while up and up[-1].split(' ')[0] not in cyc:
                up.pop()
            key_ = (tuple(up), base_, T.show(start_))
            walks.setdefault(key_, set()).add(lid)
        for key_, lids in walks.items():
            if len(lids) > 1 and ('walks', key_[0][-1:] if key_[0] else '')\
                    not in dseen:
                dseen.add(('walks', key_[0][-1:] if key_[0] else ''))
                chk.ob('C08.R', 'walks of one region in %s' % (
                    key_[0][-1] if key_[0] else '?'), False,
                       '%d loops of one activation enter the recursive '
                       'decoders over the same buffer from the same start '
                       '(%s): every nesting level decodes its content '
                       'that many times' % (len(lids), key_[2][:40]),
                       site='pamqp/decode.py')
    # a decoder that walks the buffer reports at least as far as it walked:
    # otherwise its caller resumes inside the region already decoded and
    # decodes it again (with nesting, the work doubles per level)
    for it_ in runs:
        for lp in it_.loops:
            fi_ = lp['func']
            if fi_ is None or not fi_.module.name.endswith('.decode') or \
                    not isinstance(lp['node'], ast.While):
                continue
            test = lp['test']
            if not (isinstance(test, Sym) and test.op == 'lt'):
                continue
            cur = test.args[0]
            key_ = ('covers', fi_.qualname, lp['node'].lineno)
            if key_ in dseen2:
                continue
            # the returns of the function that follow this loop
            for o in (x for x in getattr(it_, 'last_outs', {}).get(
                    fi_.qualname, [])
                      if x.kind == 'return'):
                v = o.value
                if not (isinstance(v, tuple) and len(v) == 2):
                    continue
                rep = v[0]
                if not T.mentions(tuple(a for a in o.state.kn.atoms
                                        if isinstance(a, Sym)),
                                  lambda t: t is cur):
                    continue
                dseen2.add(key_)
                d_ = T.sub(rep, cur)
                lo_ = o.state.kn.lin_interval(d_)[0] if not isinstance(
                    d_, int) else d_
                okk = lo_ is not None and lo_ >= 0
                chk.ob('C08.R', '%s reported count' % fi_.short, okk,
                       'reports %s consumed, the loop cursor ended at %s: '
                       '%s' % (T.show(rep)[:50], T.show(cur)[:50],
                               'the count covers everything that was read'
                               if okk else 'the last element may have been '
                               'read past the reported count, so the caller '
                               'decodes those bytes again'),
                       site='%s:%d' % (fi_.module.relpath,
                                       lp['node'].lineno))
    chk.ob('C08.R', 'single descent', not dseen,
           '%d entries into the recursive decoders %s examined; no two on '
           'one path start at the same buffer position' %
           (ndesc, sorted(cyc)))
    # arithmetic blow-up
    dec = dmod.functions.get('decimal')
    n_pow = 0
    if dec is not None:
        it, outs = codec.run(prog, dec)
        for o in outs:
            if o.kind != 'return':
                continue
            for t in T.subterms(o.value):
                if t.op == 'pow':
                    n_pow += 1
                    e = t.args[1]
                    iv = o.state.kn.lin_interval(e) if isinstance(
                        e, (Sym, int)) else (None, None)
                    okk = iv[0] is not None and iv[1] is not None and \
                        -255 <= iv[0] and iv[1] <= 255
                    chk.ob('C08.A', 'decode.decimal exponent', okk,
                           'power with exponent in [%s, %s]' % iv,
                           site='pamqp/decode.py')
    chk.floor('C08.A', 1, 'exponentiations checked', count=n_pow)
    # allocations sized by a decoded integer must be bounded by the buffer
    # (a length field is not checked against the data before it is used)
    nalloc = 0
    aseen = set()
    for it_ in runs:
        for e_ in it_.effects:
            if e_.kind != 'alloc-sized':
                continue
            n_, (what_, kn_) = e_.target, e_.detail
            if (e_.site, n_) in aseen:
                continue
            aseen.add((e_.site, n_))
            nalloc += 1
            hi_ = kn_.lin_interval(n_)[1]
            bounded = hi_ is not None and hi_ <= (1 << 16)
            if not bounded:
                for a_ in kn_.atoms:
                    # a path fact  n <= len(buffer) - k  /  n + k <= len(..)
                    if isinstance(a_, Sym) and T.mentions(
                            a_, lambda t: t is n_) and T.mentions(
                                a_, lambda t: t.op == 'len'):
                        for b_ in [t for t in T.subterms(a_)
                                   if t.op == 'len']:
                            d_ = T.sub(b_, n_)
                            lo_ = kn_.lin_interval(d_)[0] if not isinstance(
                                d_, int) else d_
                            if lo_ is not None and lo_ >= 0:
                                bounded = True
            chk.ob('C08.A', '%s at %s' % (what_, e_.site), bounded,
                   'allocates %s with n = %s: %s' % (
                       what_, T.show(n_)[:60],
                       'n is bounded by the length of the buffer' if bounded
                       else 'n comes from the wire and is not checked '
                       'against the data available'), site=e_.site)
    # an error message that re-quotes the message of the nested failure
    # (repr of the caught exception) inside a recursive decoder doubles its
    # escapes with every nesting level
    rseen_ = set()
    for it_ in runs:
        for e_ in it_.effects:
            if e_.kind != 'repr-of-caught' or e_.site in rseen_:
                continue
            fn_ = e_.detail
            if fn_ not in cyc:
                continue
            rseen_.add(e_.site)
            chk.ob('C08.A', 'error message at %s' % e_.site, False,
                   '%s re-raises with the repr() of the exception it caught '
                   'from a nested decode: every nesting level re-quotes and '
                   're-escapes the inner message, so its size grows by a '
                   'factor per level (a few hundred bytes of nested tables '
                   'allocate without bound)' % fn_, site=e_.site)
    # the depth of the recursive decoders (and with it the copies of the
    # remaining buffer they hold) is bounded by the interpreter's recursion
    # limit: the package must not raise it
    lifted = []
    for mi in prog.modules.values():
        for n_ in ast.walk(mi.tree):
            if not isinstance(n_, ast.Call):
                continue
            try:
                tgt = prog.resolve_static(mi, n_.func, mi)
            except Exception:
                tgt = None
            path = tgt[1] if isinstance(tgt, tuple) and tgt and \
                tgt[0] == 'ext' else None
            if path in ('sys.setrecursionlimit', 'threading.stack_size',
                        'resource.setrlimit'):
                lifted.append('%s at %s:%d' % (path, mi.relpath,
                                               n_.lineno))
    chk.ob('C08.R', 'interpreter limits', not lifted,
           'the package leaves the recursion limit alone' if not lifted
           else 'the package changes an interpreter limit (%s): nesting '
           'depth, and the memory held per level, is no longer bounded by '
           'the default limit' % '; '.join(lifted))
    # regular expressions reachable from the decode side: a repeat inside
    # an unbounded repeat (star height >= 2, e.g. (a+|b+)*) backtracks
    # exponentially on a near-miss - 30 octets of a table key suffice
    import re._parser as _rp
    import re._constants as _rc

    def star_height(tree):
        best = 0
        for op, av in tree:
            if op in (_rc.MAX_REPEAT, _rc.MIN_REPEAT):
                lo_, hi_, sub = av
                inner = star_height(sub)
                unbounded = hi_ == _rc.MAXREPEAT or (
                    isinstance(hi_, int) and hi_ > 64)
                best = max(best, inner + (1 if unbounded else 0))
            elif op is _rc.SUBPATTERN:
                best = max(best, star_height(av[3]))
            elif op is _rc.BRANCH:
                for alt in av[1]:
                    best = max(best, star_height(alt))
            elif op in (_rc.ASSERT, _rc.ASSERT_NOT):
                best = max(best, star_height(av[1]))
        return best
    nre = 0
    for mi in prog.modules.values():
        if not mi.name.endswith(('.decode', '.frame', '.header', '.body',
                                 '.heartbeat', '.base', '.common')):
            continue
        for n_ in ast.walk(mi.tree):
            if not isinstance(n_, ast.Call) or not n_.args or \
                    not isinstance(n_.args[0], ast.Constant) or \
                    not isinstance(n_.args[0].value, (str, bytes)):
                continue
            try:
                tgt = prog.resolve_static(mi, n_.func, mi)
            except Exception:
                tgt = None
            path = tgt[1] if isinstance(tgt, tuple) and tgt and \
                tgt[0] == 'ext' else ''
            if not path.startswith('re.'):
                continue
            nre += 1
            try:
                h_ = star_height(_rp.parse(n_.args[0].value))
            except Exception as err:
                chk.undecide('C08.A', 'pattern at %s:%d' % (
                    mi.relpath, n_.lineno), 'does not parse: %s' % err)
                continue
            chk.ob('C08.A', 'pattern at %s:%d' % (mi.relpath, n_.lineno),
                   h_ <= 1, 'repeats are not nested' if h_ <= 1 else
                   'an unbounded repeat inside an unbounded repeat (%r): '
                   'matching a near-miss takes time exponential in its '
                   'length' % n_.args[0].value[:60],
                   site='%s:%d' % (mi.relpath, n_.lineno))
    chk.units['decode_side_patterns'] = nre
    # a decoded value is built from the octets the decoder consumed: a
    # result that is an open-ended view of the buffer (value[4:]) holds a
    # copy of everything that follows it - k such values in one frame hold
    # k/2 frames
    from .. import pairs as _pairs
    for fi_ in dmod.functions.values():
        if fi_.name.startswith('_') or fi_.name in ('by_type',
                                                    'embedded_value'):
            continue
        try:
            D_ = _pairs.dec_desc(ctx, fi_)
        except Exception:
            continue
        for dp_ in D_.paths:
            opens = [t for t in T.subterms(dp_.value)
                     if t.op == 'slice' and t.args[2] is None and
                     T.mentions(t.args[0], lambda x: x is D_.B)] \
                if isinstance(dp_.value, (Sym, tuple)) else []
            if opens:
                chk.ob('C08.A', '%s result' % fi_.short, False,
                       'the decoded value contains %s, an open-ended view '
                       'of the buffer: it holds everything that follows the '
                       'value, not only the %s octets consumed' % (
                           T.show(opens[0])[:60],
                           T.show(dp_.consumed)[:30]),
                       site='%s:%d' % (fi_.module.relpath,
                                       fi_.node.lineno))
    # the property-flag accumulator grows 16 bits per flag word read
    from .. import tsrules as _ts
    for cons_, okk_, why_ in _ts.flag_word_rule(ctx):
        if okk_ is False and 'accumulation' in cons_:
            chk.ob('C08.A', cons_, False, why_ + ' - the integer then grows '
                   'faster than the input', site='pamqp/header.py')
    # memory kept across calls: no caching wrapper on the decode side
    from .. import models
    dfuncs = [fi for fi in prog.functions.values()
              if fi.module.name.endswith(('.decode', '.frame', '.header',
                                          '.body', '.heartbeat', '.base'))]
    caching, unknown_deco = models.wrappers(prog, dfuncs)
    from .. import controls
    controls.caching_wrappers_control(chk)
    chk.rule('C08.M', 'no caching wrapper on the decode side: what a call '
             'allocates is released with its result')
    chk.ob('C08.M', 'decode side wrappers', not caching,
           '%d functions, none cached' % len(dfuncs) if not caching else
           'cached: %s (arguments - the remaining buffer - and results are '
           'retained for the life of the process)' % caching)
    if unknown_deco:
        chk.undecide('C08.M', 'decorators without a model',
                     '; '.join(unknown_deco[:3]))
    # remaining (static) loops on the decode side: For loops that the
    # interpreter unrolled are bounded by literal sequences; list them
    nstatic = 0
    reached = {}
    for fi in list(dmod.functions.values()) + [
            prog.find_method(prog.cls('base.Frame'), 'unmarshal'),
            prog.find_method(prog.cls('base.BasicProperties'), 'unmarshal')]:
        if fi is not None:
            reached[fi.qualname] = fi
    for it_ in (f.it, f_hdr.it):
        for short, _chain, _seq, _d in it_.calls:
            fi = prog.functions.get('pamqp.' + short.split(' ')[0])
            if fi is not None:
                reached[fi.qualname] = fi
    for q in sorted(reached):
        fi = reached[q]
        if isinstance(fi.node, ast.Lambda):
            continue
        for n in I_walk_own(fi.node):
            if isinstance(n, (ast.For, ast.While)):
                k = (fi.qualname, n.lineno)
                if k in seen:
                    continue
                nstatic += 1
                site = '%s:%d' % (fi.module.relpath, n.lineno)
                if k in static_loops:
                    chk.ob('C08.F', '%s loop at line %d' % (fi.short,
                                                            n.lineno), True,
                           'unrolled by the analysis: at most %d iterations '
                           'over a compile-time sequence / statically '
                           'decided exit' % static_loops[k], site=site)
                else:
                    chk.undecide('C08.F', '%s loop at line %d' %
                                 (fi.short, n.lineno),
                                 'the loop is neither summarised as '
                                 'data-dependent nor unrolled in any '
                                 'abstract run of the decode side')
    chk.units['loops'] = len(seen)
    chk.units['entry_functions'] = len(entry_funcs) + 1
    chk.assume('slice copies and struct reads cost time linear in their '
               'length (CPython)')

