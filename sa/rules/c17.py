"""C17 - reply-code exceptions and protocol constants match the specification
(exhaustive catalogue comparison)."""
import struct

from .. import interp as I
from .. import terms as T
from ..model import AnalysisError, ClassInfo

RULES = {
    'C17.M': 'CLASS_MAPPING keys are exactly the 18 reply codes, each mapping '
             'to a distinct class whose value/name are the specification\'s',
    'C17.H': 'soft codes derive from AMQPSoftError, hard codes from '
             'AMQPHardError, never both; all reach AMQPError -> '
             'PAMQPException -> Exception',
    'C17.C': 'protocol constants equal the protocol values and agree with '
             'each other and with the envelope format used by frame.py',
}


def ext_base_names(prog, ci):
    return [c[1] for c in prog.mro(ci) if isinstance(c, tuple)]


def run(chk, ctx):
    for r, t in RULES.items():
        chk.rule(r, t)
    chk.exhaustive = True
    chk.explanation = (
        'Static catalogue comparison: CLASS_MAPPING, the exception class '
        'hierarchy (from ClassDef bases) and the constants of '
        'pamqp/constants.py are extracted from the syntax trees by constant '
        'folding and compared with the transcribed tables of /verif/spec; '
        'the finite space (18 codes x 4 facts + constants) is enumerated '
        'completely.')
    chk.trust('/verif/spec/tables.json reply_codes and constants')
    prog, spec, it = ctx.prog, ctx.spec, ctx.static()
    emod = prog.module('exceptions')
    if 'CLASS_MAPPING' not in emod.bindings:
        raise AnalysisError('anchor vanished: exceptions.CLASS_MAPPING')
    mapping = ctx.dict_value(it, ctx.new_state(),
                             it.global_value(emod, 'CLASS_MAPPING'),
                             'exceptions.CLASS_MAPPING')
    codes = {int(k): v for k, v in spec.tables['reply_codes'].items()}
    seen = {}
    for k, v in mapping:
        if k in seen:
            chk.ob('C17.M', 'CLASS_MAPPING[%r]' % (k,), False,
                   'duplicate key')
        seen[k] = v
    soft = prog.cls('exceptions.AMQPSoftError')
    hard = prog.cls('exceptions.AMQPHardError')
    amqp = prog.cls('exceptions.AMQPError')
    root = prog.cls('exceptions.PAMQPException')
    classes_used = []
    for code, (name, kind) in sorted(codes.items()):
        cons = 'CLASS_MAPPING[%d]' % code
        ci = seen.get(code)
        if not isinstance(ci, ClassInfo):
            chk.ob('C17.M', cons, False, 'missing or not a class: %r' %
                   (ci,))
            continue
        site = '%s:%d' % (ci.module.relpath, ci.node.lineno)
        classes_used.append(ci.qualname)
        val = it.class_attr(ci, 'value')
        nm = it.class_attr(ci, 'name')
        chk.ob('C17.M', cons + '.value', val == code and type(val) is int,
               '%s.value = %r' % (ci.short, val), detail={'expected': code},
               site=site)
        if isinstance(nm, T.Sym):
            chk.undecide('C17.M', cons + '.name', 'the name is computed at '
                         'class creation and does not fold: %s' %
                         T.show(nm)[:80])
        else:
            chk.ob('C17.M', cons + '.name', nm == name,
                   '%s.name = %r' % (ci.short, nm),
                   detail={'expected': name}, site=site)
        is_soft = prog.is_subclass(ci, soft)
        is_hard = prog.is_subclass(ci, hard)
        chk.ob('C17.H', cons + '.kind',
               (is_soft, is_hard) == (kind == 'soft', kind == 'hard'),
               '%s soft=%s hard=%s' % (ci.short, is_soft, is_hard),
               detail={'expected': kind}, site=site)
        chain_ok = prog.is_subclass(ci, amqp) and \
            prog.is_subclass(ci, root) and \
            'builtins.Exception' in ext_base_names(prog, ci)
        chk.ob('C17.H', cons + '.bases', chain_ok,
               '%s reaches AMQPError, PAMQPException, Exception' % ci.short,
               site=site)
    for k in sorted(set(seen) - set(codes), key=repr):
        chk.ob('C17.M', 'CLASS_MAPPING[%r]' % (k,), False,
               'key is not a specified reply code')
    chk.ob('C17.M', 'CLASS_MAPPING distinct classes',
           len(set(classes_used)) == len(classes_used),
           '%d codes map to %d classes' % (len(classes_used),
                                           len(set(classes_used))))
    # hierarchy of the bases themselves
    for ci, parent in ((soft, amqp), (hard, amqp), (amqp, root)):
        chk.ob('C17.H', ci.short, prog.is_subclass(ci, parent),
               '%s derives from %s' % (ci.short, parent.short))
    chk.ob('C17.H', 'soft/hard disjoint',
           not prog.is_subclass(soft, hard) and
           not prog.is_subclass(hard, soft), 'bases are unrelated')
    chk.ob('C17.H', root.short, 'builtins.Exception' in
           ext_base_names(prog, root), 'PAMQPException derives from '
           'Exception')
    ue = prog.cls('exceptions.UnmarshalingException')
    chk.ob('C17.H', ue.short, prog.is_subclass(ue, root),
           'UnmarshalingException derives from PAMQPException')
    chk.floor('C17.M', 18 * 2, 'reply-code facts')
    chk.floor('C17.H', 18 * 2, 'hierarchy facts')

    # constants
    cmod = prog.module('constants')

    def const(name):
        if name not in cmod.bindings:
            return I.ABSENT
        return it.global_value(cmod, name)

    for name, want in sorted(spec.tables['constants'].items()):
        v = const(name)
        chk.ob('C17.C', 'constants.' + name, v == want and type(v) is int,
               '%s = %r' % (name, None if v is I.ABSENT else v),
               detail={'expected': want})
    oth = spec.tables['constants_other']
    v = const('VERSION')
    chk.ob('C17.C', 'constants.VERSION', v == tuple(oth['VERSION']),
           'VERSION = %r' % (v,), detail={'expected': tuple(oth['VERSION'])})
    v = const('AMQP')
    chk.ob('C17.C', 'constants.AMQP', v == bytes.fromhex(oth['AMQP_hex']),
           'AMQP = %r' % (v,))
    fe, fec = const('FRAME_END'), const('FRAME_END_CHAR')
    chk.ob('C17.C', 'constants.FRAME_END_CHAR',
           fec == bytes.fromhex(oth['FRAME_END_CHAR_hex']),
           'FRAME_END_CHAR = %r' % (fec,))
    chk.ob('C17.C', 'FRAME_END ~ FRAME_END_CHAR',
           isinstance(fe, int) and isinstance(fec, bytes) and
           bytes([fe & 0xFF]) == fec and 0 <= fe <= 255,
           'FRAME_END %r and FRAME_END_CHAR %r denote the same octet' %
           (fe, fec))
    # header size agrees with the envelope format frame.py really uses
    fmts = envelope_formats(ctx)
    hs = const('FRAME_HEADER_SIZE')
    for where, f in fmts:
        chk.ob('C17.C', 'FRAME_HEADER_SIZE ~ ' + where,
               isinstance(hs, int) and struct.calcsize(f) == hs,
               'calcsize(%r) = %d, FRAME_HEADER_SIZE = %r' %
               (f, struct.calcsize(f), hs))
    # the constants are what the module says for the whole life of the
    # process: no function of the package rebinds or stores into them
    from .c16 import syntactic_writes
    writers = []
    for fi in prog.functions.values():
        for site_, what in syntactic_writes(prog, fi):
            if 'constants.' in what or (fi.module.name.endswith(
                    '.constants') and 'module' in what):
                writers.append('%s at %s (%s)' % (what, site_, fi.short))
    dyn = ctx.static().dynamic_globals
    for (mod, name), fis in dyn.items():
        if mod.endswith('.constants') or mod.endswith('.exceptions'):
            writers.append('global %s.%s rebound by %s' % (
                mod, name, ', '.join(f.short for f in fis)))
    writers.extend(import_time_writers(prog))
    # positive control: the import-time scan must find the stores of a
    # small package that has them
    from .. import controls
    nctl = controls.with_control_package(
        ['import_writers/constants.py', 'import_writers/overrides.py'],
        lambda cprog: len(import_time_writers(cprog)))
    if nctl < 8:
        raise AnalysisError('positive control: only %d of 8 import-time '
                            'stores into the constants were flagged' % nctl)
    chk.extra['positive_control'] = {
        'files': 'selftest/controls/import_writers/', 'flagged': nctl}
    chk.ob('C17.C', 'run-time writers of the constants', not writers,
           'no function stores into pamqp.constants' if not writers else
           '; '.join(writers[:3]))
    chk.floor('C17.C', 12, 'constant facts')
    chk.units['reply_codes'] = len(codes)


def import_time_writers(prog):
    """Statements executed while the package is imported (module and
    class level, any module) that store into pamqp.constants or
    pamqp.exceptions from outside their own plain assignments: the values
    those modules spell out are then not the values the package has."""
    import ast
    out = []

    def is_target_module(mi, node):
        if isinstance(node, ast.Call) and isinstance(node.func, ast.Name) \
                and node.func.id == 'vars' and node.args:
            node = node.args[0]
        if isinstance(node, ast.Attribute) and node.attr == '__dict__':
            node = node.value
        if isinstance(node, ast.Call) and isinstance(node.func, ast.Name) \
                and node.func.id == 'globals':
            return mi.name.endswith(('.constants', '.exceptions'))
        try:
            r = prog.resolve_static(mi, node, mi)
        except Exception:
            return False
        return hasattr(r, 'tree') and r.name.endswith(
            ('.constants', '.exceptions'))

    def res(mi, node):
        try:
            return prog.resolve_static(mi, node, mi)
        except Exception:
            return None

    def top_level(body):
        for st in body:
            if isinstance(st, (ast.FunctionDef, ast.AsyncFunctionDef)):
                continue
            yield st
            for f_ in ('body', 'orelse', 'finalbody', 'handlers'):
                for sub in getattr(st, f_, []) or []:
                    if isinstance(sub, ast.ExceptHandler):
                        yield from top_level(sub.body)
                    elif isinstance(sub, ast.stmt):
                        yield from top_level([sub])

    for mi in prog.modules.values():
        for st in top_level(mi.tree.body):
            site = '%s:%d' % (mi.relpath, st.lineno)
            # only this statement's own expressions (nested statements are
            # yielded separately)
            exprs = [n for f_, n in ast.iter_fields(st)
                     if f_ not in ('body', 'orelse', 'finalbody',
                                   'handlers')]
            nodes = []
            for e in exprs:
                for x in (e if isinstance(e, list) else [e]):
                    if isinstance(x, ast.AST):
                        nodes.extend(ast.walk(x))
            for n in nodes:
                if isinstance(n, ast.Call) and isinstance(
                        n.func, ast.Name) and n.func.id in (
                            'setattr', 'delattr') and n.args and \
                        is_target_module(mi, n.args[0]):
                    out.append('%s(%s, ...) while importing, at %s' % (
                        n.func.id, ast.unparse(n.args[0]), site))
                elif isinstance(n, ast.Call) and isinstance(
                        n.func, ast.Attribute) and n.func.attr in (
                            'update', 'setdefault', 'pop', 'clear',
                            '__setitem__', '__setattr__') and \
                        is_target_module(mi, n.func.value) and not (
                            hasattr(res(mi, n.func.value), 'tree') and
                            n.func.attr != '__setattr__'):
                    out.append('%s while importing, at %s' % (
                        ast.unparse(n.func), site))
                elif isinstance(n, (ast.Attribute, ast.Subscript)) and \
                        isinstance(n.ctx, (ast.Store, ast.Del)) and \
                        is_target_module(mi, n.value) and (
                            isinstance(n, ast.Attribute) or not hasattr(
                                res(mi, n.value), 'tree')):
                    out.append('store %s while importing, at %s' % (
                        ast.unparse(n), site))
    return out


def envelope_formats(ctx):
    """Literal struct formats used by frame.frame_parts / frame._marshal."""
    import ast
    out = []
    for fi in (ctx.prog.function('frame.frame_parts'),
               ctx.envelope_function()):
        fname = fi.short
        for n in ast.walk(fi.node):
            if isinstance(n, ast.Call) and isinstance(n.func, ast.Attribute) \
                    and n.func.attr in ('pack', 'unpack', 'unpack_from') \
                    and n.args and isinstance(n.args[0], ast.Constant) and \
                    isinstance(n.args[0].value, str):
                out.append((fname, n.args[0].value))
    return out
