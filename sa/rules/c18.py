"""C18 - body, heartbeat and protocol-header frames round-trip on every
channel."""
from .. import codec
from .. import framepaths as F
from .. import interp as I
from .. import layout as L
from .. import terms as T
from ..model import AnalysisError
from ..terms import Sym

RULES = {
    'C18.B': 'body identity: the stored value is emitted unchanged inside '
             'the envelope, the decoder stores the payload view '
             'buffer[7:n-1] unchanged; len(body) is the byte length; no '
             'branch on the body path depends on payload bytes',
    'C18.K': 'heartbeat: the literal is the fixed 8 octets; the decoder '
             'produces a Heartbeat under type == 8 and size == 0',
    'C18.R': 'composed round trip by rewriting: substituting the encoder\'s '
             'residual output for the buffer, the decoded body value is the '
             'original value, consumed = encoded length, channel = channel '
             'argument and all path conditions hold (for non-empty bodies); '
             'likewise the protocol-header version triple and the heartbeat',
    'C18.V': 'protocol header: written as b"AMQP", 0, major, minor, '
             'revision (octets); read back from offsets 5, 6, 7 into the '
             'same attributes; 8 consumed on channel 0',
}


def run(chk, ctx):
    for r, t in RULES.items():
        chk.rule(r, t)
    chk.explanation = (
        'Abstract interpretation of frame.marshal / frame.unmarshal for '
        'the body, heartbeat and protocol-header kinds with symbolic '
        'content: the body value term must pass through both directions '
        'unchanged, branch conditions on the body path may only mention '
        'the 7-byte header, the first four bytes, the end octet and '
        'len(buffer) (information flow), and the protocol-header octets '
        'are compared field by field.')
    prog = ctx.prog
    pol = codec.FramePolicy(prog)
    st_it = ctx.static()

    def marshal_of(cls_short, attrs):
        it = ctx.interp(pol)
        st = ctx.new_state()
        ref = it.alloc(st, I.InstObj(prog.cls(cls_short), attrs))
        outs = it.run_function(prog.function('frame.marshal'),
                               [ref, Sym('param', 'channel_id')], {}, st)
        j = L.joined_return(it, outs)
        return (None if j is None else j.value), it, outs

    # ---- body encode
    v, it, outs = marshal_of('body.ContentBody',
                             {'value': Sym('field', 'value')})
    env = L.parse_envelope(v) if v is not None else None
    okk = env is not None and len(env['payload']) == 1 and \
        env['payload'][0] is Sym('field', 'value') and env['type'] == 3 and \
        env['channel'] is Sym('param', 'channel_id') and \
        env['size'] is T.length(Sym('field', 'value'))
    chk.ob('C18.B', 'body encode', okk, 'marshal -> %s' % T.show(v)[:120],
           detail={'expected': 'header(3, channel, len(value)) ++ value ++ '
                   '0xCE'}, site='pamqp/body.py / pamqp/frame.py')
    okc, whyc = L.channel_acceptance(outs)
    chk.ob('C18.B', 'body channels', okc, whyc,
           site='pamqp/frame.py::marshal')
    # ... and no guard on the encode side refuses a body length up to the
    # maximum frame size
    from .. import isets
    fmax_ = st_it.global_value(prog.module('constants'), 'FRAME_MAX_SIZE')
    ln_ = T.length(Sym('field', 'value'))
    acc_ = L.accepted_values(outs, ln_)
    miss_ = isets.ISet.range(1, fmax_ if isinstance(fmax_, int)
                             else 131072).inter(acc_.complement())
    chk.ob('C18.B', 'body lengths accepted by the encoder', miss_.is_empty(),
           'no guard excludes a body length in 1..%s' % fmax_
           if miss_.is_empty() else 'body lengths %s are refused by an '
           'explicit guard' % miss_, site='pamqp/frame.py::marshal')
    # __len__
    bci = prog.cls('body.ContentBody')
    lm = prog.find_method(bci, '__len__')
    if lm is None:
        chk.ob('C18.B', 'body length', False, 'no __len__')
    else:
        it2 = ctx.interp()
        st2 = ctx.new_state()
        fv = Sym('typed', Sym('field', 'value'), ('bytes',), None)
        ref = it2.alloc(st2, I.InstObj(bci, {'value': fv}))
        outs2 = it2.run_function(lm, [ref], {}, st2)
        j = L.joined_return(it2, outs2)
        val = j.value if j is not None else None
        ln = T.length(fv)
        good = val is ln or (isinstance(val, Sym) and val.op == 'cond' and
                             val.args[1] is ln and val.args[2] == 0 and
                             isinstance(val.args[0], Sym) and
                             val.args[0].op in ('truthy', 'ne', 'gt'))
        chk.ob('C18.B', 'body length', good, '__len__ -> %s' %
               T.show(val)[:100], detail={'expected': 'len(value)'},
               site='pamqp/body.py')
    # ---- decode side
    keys = [k for k, _ in ctx.index_mapping()]
    f = F.UnmarshalFacts(ctx, keys[0] if keys else None)
    data = f.data
    if not F.header_or_violation(chk, 'C18.B', f):
        return
    hsize = f.header.size
    size_t = f.hfield(2)
    seen = set()
    for r in f.rets:
        kind = f.kind_of(r)
        seen.add(kind)
        site = 'pamqp/frame.py::unmarshal'
        if kind == 'body':
            val = r.obj.attrs.get('value')
            rr = L.slice_of(val, data) if isinstance(val, Sym) else None
            okk = rr is not None and rr[0] == hsize and rr[1] is not None \
                and not isinstance(rr[1], tuple) and \
                T.sub(rr[1], T.add(size_t, hsize)) == 0
            chk.ob('C18.B', 'body decode', okk,
                   'value = %s' % T.show(val)[:120],
                   detail={'expected': 'buffer[7 : 7 + size]'}, site=site)
            acc = r.kn.lin_interval(size_t)
            a_lo = acc[0] if acc[0] is not None else 0
            a_hi = acc[1] if acc[1] is not None else (1 << 32) - 1
            fmax = st_it.global_value(prog.module('constants'),
                                      'FRAME_MAX_SIZE')
            chk.ob('C18.B', 'body sizes', a_lo <= 1 and
                   isinstance(fmax, int) and a_hi >= fmax,
                   'decoder accepts body sizes [%d, %d]; every non-empty '
                   'body up to FRAME_MAX_SIZE = %r must be accepted' %
                   (a_lo, a_hi, fmax), site=site)
            # information flow: no atom reads payload bytes
            bad = []
            for a in r.kn.atoms:
                if not isinstance(a, Sym):
                    continue
                for ukind, lo, hi, t in F.data_uses([a], data):
                    if ukind == 'len':
                        continue
                    if ukind == 'slice':
                        if isinstance(hi, int) and hi <= hsize:
                            continue
                        if T.sub(lo, T.add(size_t, hsize)) == 0 and \
                                hi is not None and \
                                T.sub(hi, T.add(size_t, hsize + 1)) == 0:
                            continue  # the end octet as a one-byte slice
                        bad.append(T.show(t)[:60])
                    elif ukind == 'index':
                        if T.sub(lo, T.add(size_t, hsize)) == 0:
                            continue
                        bad.append(T.show(t)[:60])
                    else:
                        bad.append(T.show(t)[:60])
            chk.ob('C18.B', 'body path conditions', not bad,
                   'conditions depend only on the 7-byte header, the end '
                   'octet and len(buffer)' if not bad else
                   'conditions read payload bytes: %r' % bad[:3], site=site)
        elif kind == 'heartbeat':
            k8 = r.kn.decide(T.compare('eq', f.hfield(0), 8)) is True
            s0 = r.kn.decide(T.compare('eq', size_t, 0)) is True
            chk.ob('C18.K', 'heartbeat decode', k8 and s0 and
                   r.ch is f.hfield(1),
                   'Heartbeat returned under type == 8: %s, size == 0: %s'
                   % (k8, s0), site=site)
        elif kind == 'protocol':
            want = {'major_version': 5, 'minor_version': 6, 'revision': 7}
            okk = r.n == 8 and r.ch == 0
            desc = {}
            for name, off in want.items():
                rd = L.parse_unpack_read(r.obj.attrs.get(name), data)
                if rd is None:
                    okk = False
                    continue
                fmt, idx, lo, hi = rd
                ff = T.fmt(fmt)
                o_, fld = [x for x in ff.offsets()
                           if x[1][3] != 'pad'][idx]
                desc[name] = '%r@%s' % (fmt, T.show(T.add(lo, o_)))
                okk = okk and T.sub(T.add(lo, o_), off) == 0 and \
                    fld[1] == 1 and fld[2] is False
            chk.ob('C18.V', 'protocol header decode', okk,
                   'consumed %s channel %s reads %r' %
                   (T.show(r.n), T.show(r.ch), desc), site=site)
    # no refusal of a body frame depends on the payload bytes
    size_ok = True
    nref = 0
    refused = []
    for o in f.raises:
        kn_ = o.state.kn
        try:
            is_body = kn_.decide(T.compare('eq', f.hfield(0), 3)) is True
        except Exception:
            is_body = False
        if not is_body:
            continue
        nref += 1
        for a in kn_.atoms:
            if not isinstance(a, Sym):
                continue
            for ukind, lo, hi, t in F.data_uses([a], data):
                if ukind == 'len':
                    continue
                if ukind == 'slice' and isinstance(hi, int) and hi <= hsize:
                    continue
                if ukind in ('slice', 'index') and \
                        T.sub(lo, T.add(size_t, hsize)) == 0:
                    continue  # the end octet
                if ukind == 'slice' and isinstance(lo, int) and lo == 0 and \
                        isinstance(hi, int) and hi <= 8:
                    continue  # protocol-header look-ahead on the first bytes
                refused.append('%s at %s depends on %s' % (
                    o.exc.type_name, o.exc.site, T.show(t)[:60]))
    del size_ok
    chk.ob('C18.B', 'body refusals', not refused,
           '%d refusal paths of body frames, none depends on payload bytes'
           % nref if not refused else '; '.join(sorted(set(refused))[:2]),
           site='pamqp/frame.py::unmarshal')
    for k in ('body', 'heartbeat', 'protocol'):
        if k not in seen:
            chk.ob('C18.B' if k == 'body' else 'C18.K' if k == 'heartbeat'
                   else 'C18.V', k + ' decode', False,
                   'frame.unmarshal never returns this kind')
    # heartbeat literal
    hb = st_it.class_attr(prog.cls('heartbeat.Heartbeat'), 'value')
    v, _, _ = marshal_of('heartbeat.Heartbeat', {})
    chk.ob('C18.K', 'heartbeat encode', hb == bytes.fromhex(
        '08000000000000ce') and v == hb,
        'Heartbeat.value = %r, marshal -> %r' % (hb, v),
        site='pamqp/heartbeat.py')
    # protocol header encode
    v, _, outs = marshal_of('header.ProtocolHeader',
                            {k: Sym('field', k) for k in
                             ('major_version', 'minor_version', 'revision')})
    okv = False
    items = L.flat(v) if v is not None else []
    if items and items[0][0] == 'const' and items[0][1] == b'AMQP\x00' \
            and len(items) == 4:
        okv = all(it[0] == 'fld' and it[1] == 1 and it[2] is False and
                  it[4] == 'int' and it[5] is Sym('field', nm)
                  for it, nm in zip(items[1:], ('major_version',
                                                'minor_version',
                                                'revision')))
    chk.ob('C18.V', 'protocol header encode', okv,
           'marshal -> %s' % T.show(v)[:100], site='pamqp/header.py')
    # constructors: what the caller passes is what is stored (the frames
    # above are analysed from the stored attributes)
    names = ('major_version', 'minor_version', 'revision')
    ps = [Sym('typed', Sym('param', k), ('int',), (0, 255)) for k in names]
    attrs, raises = ctx.constructed('header.ProtocolHeader', ps)
    badn = [k for k, p_ in zip(names, ps)
            if attrs.get(k) is not p_ and attrs.get(k) is not p_.args[0]]
    chk.ob('C18.V', 'protocol header constructor', not badn and not raises,
           'ProtocolHeader(major, minor, revision) stores %s%s' % (
               ', '.join('%s=%s' % (k, T.show(attrs.get(k))[:50])
                         for k in names),
               '; may raise %s' % raises[0].exc if raises else ''),
           detail={'expected': 'each argument stored unchanged for every '
                   'octet 0..255'}, site='pamqp/header.py')
    pv = Sym('typed', Sym('param', 'value'), ('bytes',), None)
    attrs, raises = ctx.constructed('body.ContentBody', [pv])
    chk.ob('C18.B', 'body constructor',
           (attrs.get('value') is pv or attrs.get('value') is pv.args[0])
           and not raises,
           'ContentBody(value) stores value=%s%s' % (
               T.show(attrs.get('value'))[:60],
               '; may raise %s' % raises[0].exc if raises else ''),
           site='pamqp/body.py')
    # the three frame kinds keep their state in the object itself: nothing
    # their constructors, encoders or decoders do writes a class-level or
    # module-level object (two live headers must not share their octets)
    from .c16 import shared_effects
    chk.rule('C18.S', 'constructing, encoding and decoding a body, heartbeat '
             'or protocol-header frame writes no class-level or module-level '
             'object')
    sh = []
    for cshort, cargs in (('header.ProtocolHeader', ps),
                          ('body.ContentBody', [pv]),
                          ('heartbeat.Heartbeat', [])):
        try:
            ctx.constructed(cshort, cargs)
        except AnalysisError:
            continue
        for e_ in shared_effects(ctx.last_interp):
            sh.append('%s(): %s %s at %s' % (cshort, e_.kind,
                                             str(e_.detail)[:40], e_.site))
    for nm_, it_ in (('frame.unmarshal', f.it),):
        for e_ in shared_effects(it_):
            sh.append('%s: %s %s at %s' % (nm_, e_.kind,
                                           str(e_.detail)[:40], e_.site))
    for cshort, attrs_ in (
            ('body.ContentBody', {'value': Sym('field', 'value')}),
            ('heartbeat.Heartbeat', {}),
            ('header.ProtocolHeader',
             {k: Sym('field', k) for k in names})):
        _v, it_, _o = marshal_of(cshort, attrs_)
        for e_ in shared_effects(it_):
            sh.append('frame.marshal(%s): %s %s at %s' % (
                cshort, e_.kind, str(e_.detail)[:40], e_.site))
    chk.ob('C18.S', 'state of the three frame kinds', not sh,
           '7 abstract runs, no write to shared objects' if not sh else
           '; '.join(sorted(set(sh))[:3]))
    composed(chk, ctx, f, marshal_of)
    chk.floor('C18.B', 8, 'body facts')
    chk.floor('C18.V', 3, 'protocol header facts')
    chk.floor('C18.K', 2, 'heartbeat facts')
    chk.assume('a 131 072-byte body fits in memory')


def composed(chk, ctx, f, marshal_of):
    from .. import wire
    prog = ctx.prog
    ax = wire.build_axioms(ctx)
    data = f.data
    site = 'pamqp/frame.py::marshal / unmarshal'
    # ---- body (non-empty)
    bval = Sym('typed', Sym('field', 'value'), ('bytes',), None)
    w, _it, _outs = marshal_of('body.ContentBody', {'value': bval})
    kn = T.Knowledge()
    kn.assume(T.compare('gt', T.length(bval), 0))  # non-empty body
    rets = [r for r in f.rets if f.kind_of(r) == 'body']
    if w is None or len(rets) != 1:
        chk.undecide('C18.R', 'body', 'no single encode term / decode '
                     'return for the body kind')
    else:
        r = rets[0]
        rw = wire.Rewriter(data, w, ax, kn)
        total = rw.length(rw.wire, frozenset())
        n2, ch2 = rw.rw(r.n), rw.rw(r.ch)
        v2 = rw.rw(r.obj.attrs.get('value'))
        badc = []
        for a in r.kn.atoms:
            if isinstance(a, Sym):
                v = rw.rw(a)
                if v is not True:
                    badc.append('%s -> %s' % (T.show(a)[:60],
                                              T.show(v)[:60]))
        chk.ob('C18.R', 'body', T.sub(n2, total) == 0 and
               ch2 is Sym('param', 'channel_id') and v2 is bval and
               not badc,
               'decode(encode(body, ch)): value %s, consumed %s of %s, '
               'channel %s%s' % (
                   'unchanged' if v2 is bval else T.show(v2)[:60],
                   T.show(n2)[:40], T.show(total)[:40], T.show(ch2)[:30],
                   '; conditions not established: %s' % badc[:2]
                   if badc else ''), site=site)
    # ---- protocol header
    names = ('major_version', 'minor_version', 'revision')
    w, _it, _outs = marshal_of('header.ProtocolHeader', {
        k: Sym('typed', Sym('field', k), ('int',), (0, 255))
        for k in names})
    rets = [r for r in f.rets if f.kind_of(r) == 'protocol']
    if w is None or len(rets) != 1:
        chk.undecide('C18.R', 'protocol header', 'no single term / return')
    else:
        r = rets[0]
        rw = wire.Rewriter(data, w, ax, T.Knowledge())
        total = rw.length(rw.wire, frozenset())
        vals = [rw.rw(r.obj.attrs.get(k)) for k in names]
        want = [Sym('typed', Sym('field', k), ('int',), (0, 255))
                for k in names]
        badc = [T.show(a)[:60] for a in r.kn.atoms
                if isinstance(a, Sym) and rw.rw(a) is not True]
        chk.ob('C18.R', 'protocol header',
               all(v is w_ for v, w_ in zip(vals, want)) and
               rw.rw(r.n) == total == 8 and rw.rw(r.ch) == 0 and not badc,
               'decode(encode(major, minor, revision)) = (%s), consumed %s '
               'of %s%s' % (', '.join(T.show(v)[:30] for v in vals),
                            T.show(rw.rw(r.n)), T.show(total),
                            '; conditions not established: %s' % badc[:2]
                            if badc else ''), site=site)
    # the header's own unmarshal() reports the 8 octets it read (the frame
    # layer passes its own constant on, so this is the direct API)
    pum = prog.find_method(prog.cls('header.ProtocolHeader'), 'unmarshal')
    if pum is not None:
        it_p = ctx.interp()
        st_p = ctx.new_state()
        it_p.cur_module, it_p.pending, it_p.stack = pum.module, [], []
        ref_p = it_p.instantiate(prog.cls('header.ProtocolHeader'), [], {},
                                 st_p, pum.node)
        it_p.flush_pending()
        from .. import codec as _codec
        outs_p = it_p.run_function(pum, [ref_p, _codec.buf('data')], {},
                                   st_p)
        vals_p = sorted({T.show(o.value) for o in outs_p
                         if o.kind == 'return'})
        chk.ob('C18.V', 'ProtocolHeader.unmarshal consumed',
               vals_p == ['8'], 'returns %s' % ', '.join(vals_p),
               detail={'expected': '8 (AMQP, the zero octet and three '
                       'version octets)'},
               site='%s:%d' % (pum.module.relpath, pum.node.lineno))
    # ---- heartbeat
    w, _it, _outs = marshal_of('heartbeat.Heartbeat', {})
    rets = [r for r in f.rets if f.kind_of(r) == 'heartbeat']
    if not isinstance(w, bytes) or len(rets) != 1:
        chk.undecide('C18.R', 'heartbeat', 'no constant frame / return')
    else:
        r = rets[0]
        rw = wire.Rewriter(data, w, ax, T.Knowledge())
        badc = [T.show(a)[:60] for a in r.kn.atoms
                if isinstance(a, Sym) and rw.rw(a) is not True]
        chk.ob('C18.R', 'heartbeat', rw.rw(r.n) == len(w) and
               rw.rw(r.ch) == 0 and not badc,
               'decode(Heartbeat.marshal()) consumes %s of %d bytes on '
               'channel %s%s' % (T.show(rw.rw(r.n)), len(w),
                                 T.show(rw.rw(r.ch)),
                                 '; conditions not established: %s' %
                                 badc[:2] if badc else ''), site=site)
