"""C13 - argument validation accepts exactly the specified values, on send
only."""
import re._constants as rc
import re._parser as rp

from .. import codec
from .. import interp as I
from .. import terms as T
from ..model import AnalysisError, ClassInfo
from ..terms import Sym

RULES = {
    'C13.R': 'name alphabet: each DOMAIN_REGEX is an anchored star of one '
             'character class equal to the specified alphabet for all '
             '1,114,112 code points; the use site is fullmatch',
    'C13.C': 'constraint extraction: the reject condition of each validate() '
             'normalises, per attribute, to exactly the specified '
             'constraint (None allowed, max length, alphabet, fixed value, '
             'allowed set)',
    'C13.A': 'nothing else is refused: the attributes with a reachable raise '
             'are exactly the constrained ones; unconstrained classes have '
             'no validate override',
    'C13.I': 'on construction: every constrained class runs its validation '
             'on the final attribute values in __init__',
    'C13.M': 'on encode: Frame.marshal re-runs validate() before emitting '
             'anything; no command class overrides marshal',
}


def charset_of(items):
    """code-point set of an IN node (ranges/literals only)."""
    cps = set()
    for op, av in items:
        if op is rc.LITERAL:
            cps.add(av)
        elif op is rc.RANGE:
            cps.update(range(av[0], av[1] + 1))
        else:
            return None
    return cps


def regex_alphabet(pattern, flags):
    """-> (set of code points, problems) for ^[class]*$ shaped patterns."""
    try:
        tree = rp.parse(pattern, flags if isinstance(flags, int) else 0)
    except Exception as err:  # re.error
        return None, ['pattern does not parse: %s' % err]
    data = list(tree.data)
    problems = []
    eff = tree.state.flags
    if eff & (rc.SRE_FLAG_IGNORECASE | rc.SRE_FLAG_MULTILINE |
              rc.SRE_FLAG_VERBOSE | rc.SRE_FLAG_ASCII |
              rc.SRE_FLAG_DOTALL | rc.SRE_FLAG_LOCALE):
        problems.append('flags %#x change the meaning of the class' % eff)
    if data and data[0][0] is rc.AT and data[0][1] is rc.AT_BEGINNING:
        data = data[1:]
    if data and data[-1][0] is rc.AT and data[-1][1] in (
            rc.AT_END, rc.AT_END_STRING):
        data = data[:-1]
    if len(data) != 1 or data[0][0] is not rc.MAX_REPEAT:
        return None, problems + ['not a single repeated character class']
    lo, hi, sub = data[0][1]
    if lo != 0 or hi is not rc.MAXREPEAT:
        problems.append('repeat bounds {%s,%s} instead of *' % (lo, hi))
    sub = list(sub)
    if len(sub) != 1 or sub[0][0] is not rc.IN:
        return None, problems + ['repeated item is not a character class']
    items = list(sub[0][1])
    if items and items[0][0] is rc.NEGATE:
        return None, problems + ['negated class']
    cps = charset_of(items)
    if cps is None:
        return None, problems + ['class uses categories']
    return cps, problems


class Constraint:
    def __init__(self):
        self.none_guard = []  # per condition: guarded by "is not None"?
        self.max_length = None
        self.alphabet = None  # (pattern, flags, method)
        self.fixed = ()
        self.allowed = None
        self.unknown = []

    def as_spec(self):
        d = {}
        if self.max_length is not None:
            d['max_length'] = self.max_length
        if self.alphabet is not None:
            d['alphabet'] = True
        if self.fixed != ():
            d['fixed'] = self.fixed[0]
        if self.allowed is not None:
            d['allowed'] = sorted(self.allowed)
        return d


def field_of(t, prefix='field'):
    if isinstance(t, Sym) and t.op == prefix:
        return t.args[0]
    return None


def parse_condition(c, cons_by_attr, prefix='field'):
    """One reject condition (the atom guarding a raise ValueError)."""
    parts = list(c.args) if isinstance(c, Sym) and c.op == 'and' else [c]
    attr = None
    none_guard = False
    rest = []
    for p in parts:
        if isinstance(p, Sym) and p.op == 'isnot' and p.args[1] is None \
                and field_of(p.args[0], prefix):
            none_guard = True
            attr = attr or field_of(p.args[0], prefix)
        else:
            rest.append(p)
    if len(rest) != 1:
        return None, 'condition is not "[x is not None and] <one test>": ' \
            + T.show(c)[:100]
    x = rest[0]
    kind = None
    a2 = None
    if isinstance(x, Sym):
        if x.op in ('gt', 'ge') and isinstance(x.args[0], Sym) and \
                x.args[0].op == 'len' and isinstance(x.args[1], int):
            a2 = field_of(x.args[0].args[0], prefix)
            kind = ('max_length', x.args[1] if x.op == 'gt'
                    else x.args[1] - 1)
        elif x.op in ('lt', 'le') and isinstance(x.args[1], Sym) and \
                x.args[1].op == 'len' and isinstance(x.args[0], int):
            a2 = field_of(x.args[1].args[0], prefix)
            kind = ('max_length', x.args[0] if x.op == 'lt'
                    else x.args[0] - 1)
        elif x.op == 'not' and isinstance(x.args[0], Sym) and \
                (x.args[0].op == 'regex' or (
                    x.args[0].op == 'truthy' and
                    isinstance(x.args[0].args[0], Sym) and
                    x.args[0].args[0].op == 'regex')):
            rg = x.args[0] if x.args[0].op == 'regex' else \
                x.args[0].args[0]
            meth, pattern, flags, rargs = rg.args
            a2 = field_of(rargs[0], prefix) if rargs else None
            kind = ('alphabet', (pattern, flags, meth))
        elif x.op == 'ne' and field_of(x.args[0], prefix) and \
                T.is_const(x.args[1]):
            a2 = field_of(x.args[0], prefix)
            kind = ('fixed', x.args[1])
        elif x.op == 'isnot' and field_of(x.args[0], prefix) and \
                T.is_const(x.args[1]):
            a2 = field_of(x.args[0], prefix)
            kind = ('fixed', x.args[1])
        elif x.op == 'notin' and field_of(x.args[0], prefix) and \
                isinstance(x.args[1], tuple):
            a2 = field_of(x.args[0], prefix)
            kind = ('allowed', tuple(x.args[1]))
    if kind is None or a2 is None or (attr is not None and attr != a2):
        return None, 'condition outside the constraint logic: ' + \
            T.show(c)[:120]
    attr = a2
    con = cons_by_attr.setdefault(attr, Constraint())
    con.none_guard.append(none_guard)
    if kind[0] == 'max_length':
        con.max_length = kind[1] if con.max_length is None else \
            min(con.max_length, kind[1])
    elif kind[0] == 'alphabet':
        con.alphabet = kind[1]
    elif kind[0] == 'fixed':
        con.fixed = con.fixed + (kind[1],)
    elif kind[0] == 'allowed':
        s = set(kind[1])
        con.allowed = s if con.allowed is None else (con.allowed & s)
    return attr, None


def _earlier_check_passed(a, prefix):
    if isinstance(a, Sym) and a.op in ('is', 'isnot') and \
            a.args[1] is None and field_of(a.args[0], prefix):
        return True
    if isinstance(a, Sym) and a.op == 'isinstance':
        return True
    n = T.not_(a)
    if isinstance(n, Sym):
        if parse_condition(n, {}, prefix)[1] is None:
            return True
        if n.op == 'not' and isinstance(n.args[0], Sym) and \
                n.args[0].op == 'or':
            n = T.and_(*[T.not_(x) for x in n.args[0].args])
            if isinstance(n, Sym) and \
                    parse_condition(n, {}, prefix)[1] is None:
                return True
    if isinstance(a, Sym) and a.op == 'or':
        # not (x is not None and <test>)  ==  x is None or not <test>
        return all(_earlier_check_passed(x, prefix) or (
            isinstance(x, Sym) and x.op in ('is', 'isnot'))
            for x in a.args)
    if isinstance(a, Sym) and a.op == 'and':
        return all(_earlier_check_passed(x, prefix) for x in a.args)
    return False


def extract(ctx, ci, fi, args_builder, prefix):
    """Run fi and parse every explicit ValueError raise into constraints.
    Returns (constraints by attr, problems, outcomes, interp)."""
    it = ctx.interp()
    st = ctx.new_state()
    args = args_builder(it, st)
    outs = it.run_function(fi, args, {}, st)
    cons = {}
    problems = []
    for o in outs:
        if o.kind != 'raise' or o.exc.primitive:
            continue
        if o.exc.type_name != 'ValueError':
            problems.append('%s raised at %s' % (o.exc.type_name,
                                                 o.exc.site))
            continue
        atoms = [a for a in o.state.kn.atoms if isinstance(a, Sym)]
        if not atoms:
            problems.append('unconditional raise at ' + o.exc.site)
            continue
        before = {k: len(c.none_guard) for k, c in cons.items()}
        # what else the path to this raise assumes: only that the earlier
        # checks passed (or that a field is / is not None).  Anything else
        # means the constraint is enforced only some of the time.
        for a in atoms[:-1]:
            if not _earlier_check_passed(a, prefix):
                problems.append(
                    'VIOLATION the refusal at %s is reached only when %s: '
                    'values that break the constraint are accepted '
                    'otherwise' % (o.exc.site, T.show(a)[:100]))
        attr_, err = parse_condition(atoms[-1], cons, prefix)
        if err:
            problems.append(err)
        elif attr_ is not None:
            # "x is not None" may have been established earlier on the path
            # (an early continue / return) instead of in the same condition
            c_ = cons[attr_]
            if len(c_.none_guard) > before.get(attr_, 0) and \
                    not c_.none_guard[-1]:
                fs = Sym(prefix, attr_)
                if o.state.kn.decide(T.compare('isnot', fs, None)) is True:
                    c_.none_guard[-1] = True
    return cons, problems, outs, it


def same_constraint(got, want, prop=False):
    """Compare an extracted Constraint with the spec dict."""
    g = got.as_spec()
    w = dict(want)
    none_allowed = w.pop('none_allowed', True)
    if 'fixed' in g and len(set(map(repr, got.fixed))) != 1:
        return False
    if g != w:
        return False
    if none_allowed:
        return all(got.none_guard)
    return not any(got.none_guard)


def run(chk, ctx):
    for r, t in RULES.items():
        chk.rule(r, t)
    chk.explanation = (
        'Each generated validate() body is interpreted abstractly with '
        'symbolic attribute values; every reachable raise ValueError is '
        'translated, from the condition it is control-dependent on, into a '
        'constraint of a small logic (None allowed, max length, alphabet, '
        'fixed value, allowed set; interval normalisation makes > 127 and '
        '>= 128 equal) and compared with the transcribed specification '
        'constraints; the regex alphabets are compared as code-point sets '
        'through re._parser syntax trees; constructors and Frame.marshal '
        'must raise exactly those conditions on the final attribute values. '
        'Complete for the constraint logic; a condition outside it is '
        'reported as undecided.')
    prog, spec = ctx.prog, ctx.spec
    st_it = ctx.static()
    # ---- regexes
    cmod = prog.module('constants')
    want_alpha = {ord(c) for c in spec.tables['name_alphabet']}
    if 'DOMAIN_REGEX' not in cmod.bindings:
        raise AnalysisError('anchor vanished: constants.DOMAIN_REGEX')
    dr = ctx.dict_value(st_it, ctx.new_state(),
                        st_it.global_value(cmod, 'DOMAIN_REGEX'),
                        'constants.DOMAIN_REGEX')
    regex_ok = {}
    for name, rv in dr:
        if not isinstance(rv, I.RegexV):
            chk.ob('C13.R', 'DOMAIN_REGEX[%r]' % name, False,
                   'not a compiled literal pattern')
            continue
        cps, problems = regex_alphabet(rv.pattern, rv.flags)
        okk = cps is not None and not problems and cps == want_alpha
        regex_ok[(rv.pattern, rv.flags)] = okk
        diff = ''
        if cps is not None and cps != want_alpha:
            diff = ' extra %r missing %r' % (
                ''.join(map(chr, sorted(cps - want_alpha)))[:20],
                ''.join(map(chr, sorted(want_alpha - cps)))[:20])
        chk.ob('C13.R', 'DOMAIN_REGEX[%r]' % name, okk,
               'pattern %r accepts %s code points%s %s' %
               (rv.pattern, len(cps) if cps is not None else '?', diff,
                '; '.join(problems)),
               detail={'specified_alphabet': spec.tables['name_alphabet']},
               site='pamqp/constants.py')
    for dom in spec.tables['validation']['domains']:
        if dom not in dict(dr):
            chk.ob('C13.R', 'DOMAIN_REGEX[%r]' % dom, False,
                   'no pattern for a constrained domain')
    chk.floor('C13.R', 2, 'domain patterns')

    # ---- per class
    frame_ci = prog.cls('base.Frame')
    base_validate = prog.find_method(frame_ci, 'validate')
    base_marshal = prog.find_method(frame_ci, 'marshal')
    n_constrained = 0
    for m in spec.methods():
        q = 'commands.' + m.py_name
        ci = prog.classes.get('pamqp.' + q)
        if ci is None:
            continue
        site = '%s:%d' % (ci.module.relpath, ci.node.lineno)
        want = spec.validation_for(m)
        v = prog.find_method(ci, 'validate')
        own = v is not None and v.owner is ci
        mm = prog.find_method(ci, 'marshal')
        chk.ob('C13.M', q + '.marshal', mm is base_marshal,
               'marshal resolves to %s' % (mm.short if mm else None),
               site=site, nontrivial=False)
        if not want:
            # nothing may be refused
            cons, problems, outs, _ = extract(
                ctx, ci, v, lambda it, st: [ctx.symbolic_instance(it, st,
                                                                  ci)],
                'field')
            chk.ob('C13.A', q, not cons and not problems,
                   'no constraint specified; validate refuses %r %r' %
                   (sorted(cons), problems), site=site,
                   nontrivial=own)
            continue
        n_constrained += 1
        check_class(chk, ctx, ci, q, v, want, regex_ok, site)
    # Basic.Properties
    pci = prog.cls('commands.Basic.Properties')
    pv = prog.find_method(pci, 'validate')
    pwant = {}
    names = {sname: py for sname, py, _t, _b in spec.properties()}
    for sname, c in spec.tables['validation']['properties'].items():
        pwant[names[sname]] = dict(c)
    check_class(chk, ctx, pci, 'commands.Basic.Properties', pv, pwant,
                regex_ok, 'pamqp/commands.py / pamqp/base.py')
    chk.floor('C13.C', 21 + 2, 'constrained attributes',
              count=chk.rule_counts.get('C13.C', 0))
    chk.floor('C13.I', 22, 'constructors')
    chk.units['constrained_classes'] = n_constrained + 1
    # frame.marshal adds no ValueError of its own: the only ValueErrors of
    # the encode path are the validate() refusals
    from .. import codec as _codec
    from .. import layout as _L
    pol_ = _codec.FramePolicy(prog)
    fm_seen = set()
    fm_bad = []
    reps = [ci for _, ci in ctx.index_mapping()
            if isinstance(ci, ClassInfo)]
    for ci_ in reps[:: max(1, len(reps) // 6)]:
        e_ = _L.method_encode(ctx, pol_, ci_)
        for o_ in e_['outs']:
            if o_.kind != 'raise' or o_.exc.primitive or \
                    o_.exc.type_name != 'ValueError':
                continue
            vshorts = {m_.short for m_ in (
                prog.find_method(c_, 'validate')
                for c_ in prog.classes.values()) if m_ is not None}
            if any(c.endswith('.validate') or c in vshorts
                   for c in o_.exc.chain):
                continue
            if o_.exc.site in fm_seen:
                continue
            fm_seen.add(o_.exc.site)
            fm_bad.append('%s at %s via %s' % (
                o_.exc.type_name, o_.exc.site,
                '<-'.join(reversed(o_.exc.chain[-3:]))))
    chk.ob('C13.M', 'frame.marshal refusals', not fm_bad,
           'the encode path raises ValueError only inside validate()'
           if not fm_bad else 'ValueError raised on the encode path outside '
           'validate(): %s - a value that breaks no constraint is refused '
           'with the exception that means "constraint broken"' %
           '; '.join(fm_bad[:3]), site='pamqp/frame.py')
    # never on decode: who-may-call over frame.unmarshal
    from .. import framepaths as F
    chk.rule('C13.N', 'never on decode: validate() is reachable from '
             'frame.unmarshal only through the argument-less constructor '
             'and no decoded value is refused by a validation raise')
    nval, bad = F.validation_on_receive(ctx)
    chk.ob('C13.N', 'frame.unmarshal', not bad,
           '%d validate() activations on the receive path, all inside '
           'default construction' % nval if not bad else
           '; '.join(sorted(set(bad))[:3]), site='pamqp/frame.py')


def check_class(chk, ctx, ci, q, v, want, regex_ok, site):
    prog = ctx.prog
    cons, problems, outs, _ = extract(
        ctx, ci, v, lambda it, st: [ctx.symbolic_instance(it, st, ci)],
        'field')
    for p in problems:
        if p.startswith('VIOLATION '):
            chk.ob('C13.C', q + '.validate path', False, p[10:], site=site)
        else:
            chk.undecide('C13.C', q + '.validate', p)
    for attr in sorted(set(want) | set(cons)):
        w = want.get(attr)
        g = cons.get(attr)
        if w is None:
            chk.ob('C13.A', '%s.%s' % (q, attr), False,
                   'refuses values of an unconstrained argument: %r' %
                   (g.as_spec(),), site=site)
            continue
        if g is None:
            chk.ob('C13.C', '%s.%s' % (q, attr), False,
                   'specified constraint is not enforced',
                   detail={'specified': w}, site=site)
            continue
        okk = same_constraint(g, w)
        if g.alphabet is not None:
            pattern, flags, meth = g.alphabet
            okk = okk and meth == 'fullmatch' and \
                regex_ok.get((pattern, flags), False)
        chk.ob('C13.C', '%s.%s' % (q, attr), okk,
               'refused unless %r (None %s)%s' %
               (g.as_spec(), 'allowed' if all(g.none_guard) else
                'not allowed', ' via %s' % g.alphabet[2]
                if g.alphabet else ''),
               detail={'specified': w}, site=site)
    # construction: what is validated is what the caller passed - a
    # constrained argument is stored as given (None / empty may become the
    # empty value of its type), not replaced by an acceptable default
    from .. import ctors
    st_it_ = ctx.static()
    ptypes_ = {}
    for s_ in ctx.slots_of(ci):
        t_ = st_it_.class_attr(ci, '_' + s_)
        ptypes_[s_] = ctors.PY_OF_WIRE.get(t_, ('object',))[0]
    try:
        r_ = ctors.passthrough(ctx, ci, ptypes_)
    except (AnalysisError, I.Unsupported):
        r_ = None
    if r_ is not None:
        for nm_, ok_, text_ in r_[0]:
            if nm_ in want and not ok_:
                chk.ob('C13.I', '%s(%s)' % (q, nm_), False,
                       'the constrained argument is stored as %s: a value '
                       'that breaks the constraint is replaced before it is '
                       'validated' % text_, site=site)
    init = prog.find_method(ci, '__init__')
    if init is None:
        chk.ob('C13.I', q + '.__init__', False, 'no constructor', site=site)
    else:
        a = init.node.args
        pnames = [p.arg for p in (a.posonlyargs + a.args)[1:]]

        def build(it, st):
            ref = it.alloc(st, I.InstObj(ci, {}))
            return [ref] + [Sym('param', n) for n in pnames]
        iit = ctx.interp()
        ist = ctx.new_state()
        iargs = build(iit, ist)
        iouts = iit.run_function(init, iargs, {}, ist)
        self_ref = iargs[0]
        slots = ctx.slots_of(ci)
        vcalls = [c for c in iit.calls if c[0] == v.short and
                  len(c[1]) == 2 and c[1][0] == init.short]
        sets = [e for e in iit.effects if e.kind == 'setattr' and
                e.target == self_ref]
        okk = len(vcalls) >= 1
        why = '%d validate() call(s) from the constructor' % len(vcalls)
        if okk:
            vseq = max(c[2] for c in vcalls)
            before = {e.detail[0] for e in sets if e.seq < vseq}
            after = [e.detail[0] for e in sets if e.seq > vseq]
            missing = [sl for sl in slots if sl not in before]
            okk = not missing and not after
            why = 'validate() runs after all %d arguments are stored%s%s' % (
                len(slots),
                '; NOT yet stored: %r' % missing if missing else '',
                '; stored afterwards: %r' % after if after else '')
        # and its refusals surface: the constructor has an explicit
        # ValueError raise outcome per validate condition
        n_v = len([o for o in outs if o.kind == 'raise' and
                   not o.exc.primitive])
        n_i = len([o for o in iouts if o.kind == 'raise' and
                   not o.exc.primitive and
                   o.exc.type_name == 'ValueError'])
        okk = okk and n_i >= n_v
        chk.ob('C13.I', q + '.__init__', okk,
               why + '; %d refusal path(s) of %d surface' % (n_i, n_v),
               site=site)
    # marshal re-validates before emitting (method classes only)
    frame_ci = prog.cls('base.Frame')
    if prog.is_subclass(ci, frame_ci):
        mm = prog.find_method(ci, 'marshal')
        mcons, mprob, mouts, mit = extract(
            ctx, ci, mm,
            lambda it, st: [ctx.symbolic_instance(it, st, ci)], 'field')
        same = set(mcons) == set(cons) and all(
            mcons[k].as_spec() == cons[k].as_spec() for k in cons)
        # validate() is called from marshal unconditionally (no branch
        # taken before it) and before anything is encoded
        vcalls = [c for c in mit.calls if c[0] == v.short and
                  len(c[1]) == 2 and c[1][0] == mm.short]
        encs = [c for c in mit.calls if c[0].endswith('[summarised]') or
                c[0].startswith('encode.')]
        guarded = bool(vcalls) and all(c[3] == 0 for c in vcalls[:1]) and \
            (not encs or min(c[2] for c in vcalls) <
             min(c[2] for c in encs if c[2]))
        rets = [o for o in mouts if o.kind == 'return']
        guarded = guarded and bool(rets)
        # a ValueError raised while encoding that is not one of the
        # specified constraints refuses a value the protocol allows
        extra = [p_ for p_ in mprob if ' raised at ' not in p_]
        for p_ in sorted(set(extra))[:3]:
            chk.ob('C13.M', q + ' marshal refusals', False,
                   'marshal raises ValueError outside the specified '
                   'constraints: %s' % p_.replace('VIOLATION ', '')[:160],
                   site=site)
        chk.ob('C13.M', q + ' marshal validates', same and guarded,
               'marshal raises the validate() conditions; validate() is '
               'called unconditionally before anything is encoded'
               if same and guarded else
               'marshal refuses %r; validate() called first and '
               'unconditionally: %s' %
               ({k: c.as_spec() for k, c in mcons.items()}, guarded),
               site=site)
