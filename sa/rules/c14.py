"""C14 - method catalogue matches the AMQP 0-9-1 + RabbitMQ specification.

Exhaustive: syntax-tree extraction + constant folding (+ the abstract
interpreter for effective constructor defaults) against /verif/spec.
"""
import ast
import os
import re

from .. import interp as I
from .. import terms as T
from ..model import AnalysisError, ClassInfo
from ..spec import camel

RULES = {
    'C14.K': 'INDEX_MAPPING keys are exactly the 64 specified class<<16|method '
             'numbers and each maps to the class of that name',
    'C14.A': 'per class: frame_id, index, name, __slots__ order, _<attr> wire '
             'types, synchronous, valid_responses equal the specification',
    'C14.S': 'synchronous <=> valid_responses non-empty; every reply is a '
             'method class of the same AMQP class',
    'C14.N': 'class namespaces carry the AMQP class id and id<<16 index',
    'C14.P': 'Basic.Properties: 14 slots in order, wire types, flag bits 15..2',
    'C14.D': 'effective constructor default of every argument equals the '
             'specification default and the docstring Default: line',
}


def const_attr(ctx, ci, name):
    it = ctx.static()
    v = it.class_attr(ci, name)
    return v


def listify(ctx, v, what):
    it = ctx.static()
    if v is I.ABSENT:
        return None
    return ctx.list_value(it, ctx.new_state(), v, what)


CATALOGUE_ATTRS = {'frame_id', 'index', 'name', 'synchronous',
                   'valid_responses', '__slots__', 'flags',
                   '__annotations__'}
# distinctive enough to be flagged on a receiver of unknown type
DISTINCTIVE = {'frame_id', 'synchronous', 'valid_responses', '__slots__'}


def shadow_writes(prog, slotnames):
    """Stores / deletes / setattr of a catalogue attribute name.
    -> ([(site, what)], number of store sites looked at)"""
    frame_roots = [prog.classes.get('pamqp.base._AMQData'),
                   prog.classes.get('pamqp.base.Frame'),
                   prog.classes.get('pamqp.base.BasicProperties')]
    frame_roots = [c for c in frame_roots if c is not None]

    def is_frame_cls(ci):
        return isinstance(ci, ClassInfo) and any(
            prog.is_subclass(ci, r) for r in frame_roots)

    def catalogue(name):
        return name in CATALOGUE_ATTRS or (
            name.startswith('_') and not name.startswith('__') and
            name[1:] in slotnames)

    hits, n = [], 0
    for fi in prog.functions.values():
        a = getattr(fi.node, 'args', None)
        params = [x.arg for x in (a.posonlyargs + a.args)] if a else []
        in_frame = fi.owner is not None and is_frame_cls(fi.owner)
        first = params[0] if params and fi.kind != 'staticmethod' and \
            fi.owner is not None else None
        for node in ast.walk(fi.node):
            site = '%s:%d' % (fi.module.relpath, getattr(node, 'lineno', 0))
            if isinstance(node, ast.Attribute) and \
                    isinstance(node.ctx, (ast.Store, ast.Del)):
                n += 1
                if not catalogue(node.attr):
                    continue
                base = node.value
                r = prog.resolve_static(fi.module, base, fi.module)
                frame_recv = (in_frame and isinstance(base, ast.Name) and
                              base.id == first) or is_frame_cls(r) or (
                    isinstance(base, ast.Attribute) and
                    base.attr == '__class__') or (
                    isinstance(base, ast.Call) and
                    isinstance(base.func, ast.Name) and
                    base.func.id == 'type')
                unknown = not isinstance(r, ClassInfo) and \
                    not hasattr(r, 'tree') and not (
                        isinstance(base, ast.Name) and base.id == first
                        and not in_frame)
                if frame_recv or (unknown and (
                        node.attr in DISTINCTIVE or
                        node.attr.startswith('_'))):
                    hits.append((site, '%s in %s' % (
                        ast.unparse(node), fi.short)))
            elif isinstance(node, ast.Call) and \
                    isinstance(node.func, ast.Name) and \
                    node.func.id in ('setattr', 'delattr') and \
                    len(node.args) >= 2:
                n += 1
                nm = node.args[1]
                if isinstance(nm, ast.Constant) and \
                        isinstance(nm.value, str) and catalogue(nm.value):
                    hits.append((site, '%s in %s' % (
                        ast.unparse(node)[:60], fi.short)))
    return hits, n


def doc_defaults(ci):
    """{param: text} from ':param x: ...\\n - Default: ``text``' lines."""
    doc = ast.get_docstring(ci.node, clean=True) or ''
    out = {}
    cur = None
    for line in doc.splitlines():
        m = re.match(r'\s*:param\s+(?:[\w.\[\]:~`]+\s+)?(\w+):', line)
        if m:
            cur = m.group(1)
            continue
        if re.match(r'\s*:(type|raises|rtype|returns?)\b', line):
            cur = None
            continue
        m = re.match(r'\s*-\s*Default:\s*``(.*)``\s*$', line)
        if m and cur:
            out[cur] = m.group(1)
    return out


def doc_text(v):
    if isinstance(v, str):
        return v if v != '' else "''"
    return repr(v)


def show_default(it, state, v):
    if isinstance(v, T.Ref):
        o = it.obj(state, v)
        if o.shared or v.id not in state.store:
            return '<one object shared by all instances: %s>' % o.origin
        if o.kind == 'dict' and not o.more and not o.items:
            return {}
        if o.kind == 'list' and not o.more and not o.items:
            return []
        return '<object %s>' % o.kind
    if isinstance(v, T.Sym):
        return '<run-time %s>' % T.show(v)
    return v


def effective_defaults(ctx, ci):
    """Construct ci with no arguments in the abstract interpreter and read
    the attribute values.  Returns (attrs dict, problems list)."""
    it = ctx.interp()
    st = ctx.new_state()
    it.pending = []
    it.stack = []
    it.cur_module = ci.module
    problems = []
    try:
        ref = it.instantiate(ci, [], {}, st, ci.node)
    except I._NoReturn:
        return None, ['constructor cannot complete with no arguments'], it
    for o in it.flush_pending():
        problems.append('%s at %s: %s' % (o.exc.type_name, o.exc.site,
                                          o.exc.why))
    obj = it.obj(st, ref)
    return {k: show_default(it, st, v) for k, v in obj.attrs.items()}, \
        problems, it


def run(chk, ctx):
    for r, t in RULES.items():
        chk.rule(r, t)
    chk.exhaustive = True
    chk.explanation = (
        'Static catalogue comparison: every literal of the 64 generated '
        'method classes, the six class namespaces, Basic.Properties and '
        'INDEX_MAPPING is extracted from the syntax tree of '
        'pamqp/commands.py by constant folding (spelling-independent) and '
        'compared with the independently transcribed table in /verif/spec; '
        'constructor defaults are pushed through the constructor body by the '
        'abstract interpreter. The space (classes x attributes) is finite '
        'and enumerated completely.')
    chk.trust('/verif/spec/amqp091.txt and tables.json (hand-transcribed '
              'specification)')
    chk.trust('CPython ast parser; constant folding of literals')
    spec = ctx.spec
    prog = ctx.prog
    it = ctx.static()
    by_index = {m.index: m for m in spec.methods()}
    mapping = ctx.index_mapping()
    seen_keys = {}
    for k, v in mapping:
        if not isinstance(k, int) or isinstance(k, bool):
            chk.ob('C14.K', 'INDEX_MAPPING', False,
                   'key %r is not an integer' % (k,))
            continue
        if k in seen_keys:
            chk.ob('C14.K', 'INDEX_MAPPING[0x%08X]' % k, False,
                   'duplicate key')
        seen_keys[k] = v
    for idx, m in sorted(by_index.items()):
        cons = 'INDEX_MAPPING[0x%08X]' % idx
        v = seen_keys.get(idx)
        if v is None:
            chk.ob('C14.K', cons, False, 'missing key for ' + m.py_name)
            continue
        want = 'commands.' + m.py_name
        got = v.short if isinstance(v, ClassInfo) else repr(v)
        chk.ob('C14.K', cons, got == want, 'maps to ' + got,
               detail={'expected': want})
    for k in sorted(set(seen_keys) - set(by_index)):
        chk.ob('C14.K', 'INDEX_MAPPING[0x%08X]' % k, False,
               'key is not a specified method index')
    chk.floor('C14.K', 64, 'index-mapping entries')

    # every Frame subclass must be a specified method (no strays)
    spec_names = {'commands.' + m.py_name: m for m in spec.methods()}
    for ci in ctx.method_classes():
        if ci.short not in spec_names:
            chk.ob('C14.K', ci.short, False,
                   'method class not in the specification')

    # namespaces
    cmod = prog.module('commands')
    for c in spec.classes:
        nsname = camel(c.name)
        ns = cmod.classes.get(nsname)
        if ns is None:
            chk.ob('C14.N', 'commands.' + nsname, False, 'namespace missing')
            continue
        fid = const_attr(ctx, ns, 'frame_id')
        idx = const_attr(ctx, ns, 'index')
        chk.ob('C14.N', ns.short + '.frame_id', fid == c.id and
               type(fid) is int, 'frame_id = %r' % (fid,),
               detail={'expected': c.id})
        chk.ob('C14.N', ns.short + '.index', idx == c.id << 16 and
               type(idx) is int, 'index = %r' % (idx,),
               detail={'expected': c.id << 16})
    chk.floor('C14.N', 12, 'namespace facts')

    # per class
    for m in spec.methods():
        q = 'commands.' + m.py_name
        ci = prog.classes.get('pamqp.' + q)
        if ci is None:
            chk.ob('C14.A', q, False, 'class missing')
            continue
        site = '%s:%d' % (ci.module.relpath, ci.node.lineno)
        base_ok = prog.is_subclass(ci, prog.cls('base.Frame'))
        chk.ob('C14.A', q + '.bases', base_ok, 'derives from base.Frame',
               site=site)
        fid = const_attr(ctx, ci, 'frame_id')
        chk.ob('C14.A', q + '.frame_id', fid == m.id and type(fid) is int,
               'frame_id = %r' % (fid,), detail={'expected': m.id},
               site=site)
        idx = const_attr(ctx, ci, 'index')
        chk.ob('C14.A', q + '.index', idx == m.index and type(idx) is int,
               'index = %r' % (idx,), detail={'expected': m.index},
               site=site)
        nm = const_attr(ctx, ci, 'name')
        chk.ob('C14.A', q + '.name', nm == m.py_name, 'name = %r' % (nm,),
               detail={'expected': m.py_name}, site=site)
        slots = listify(ctx, const_attr(ctx, ci, '__slots__'),
                        q + '.__slots__')
        want_slots = [a.py_name for a in m.args]
        chk.ob('C14.A', q + '.__slots__', slots == want_slots,
               '__slots__ = %r' % (slots,), detail={'expected': want_slots},
               site=site)
        for a in m.args:
            t = it.class_attr_own(ci, '_' + a.py_name)
            chk.ob('C14.A', '%s._%s' % (q, a.py_name), t == a.type,
                   'wire type = %r' % (None if t is I.ABSENT else t,),
                   detail={'expected': a.type}, site=site)
        sync = const_attr(ctx, ci, 'synchronous')
        chk.ob('C14.A', q + '.synchronous', sync is m.sync,
               'synchronous = %r' % (sync,), detail={'expected': m.sync},
               site=site)
        vr = listify(ctx, const_attr(ctx, ci, 'valid_responses'),
                     q + '.valid_responses')
        if vr is None:
            chk.ob('C14.A', q + '.valid_responses', False,
                   'no valid_responses attribute is bound in the class or '
                   'any base (reading it raises AttributeError)',
                   detail={'expected': ['%s.%s' % (camel(m.cls.name),
                                                   camel(r))
                                        for r in m.replies]}, site=site)
            vr = []
        want_vr = ['%s.%s' % (camel(m.cls.name), camel(r))
                   for r in m.replies]
        chk.ob('C14.A', q + '.valid_responses',
               sorted(map(str, vr)) == sorted(want_vr) and
               len(set(map(str, vr))) == len(vr),
               'valid_responses = %r' % (vr,), detail={'expected': want_vr},
               site=site)
        # internal consistency of the class itself
        chk.ob('C14.S', q + '.sync<=>replies', bool(sync) == bool(vr),
               'synchronous=%r, %d replies' % (sync, len(vr)), site=site)
        for r in vr:
            okr = isinstance(r, str) and ('pamqp.commands.' + r) in \
                prog.classes and r.split('.')[0] == camel(m.cls.name) and \
                prog.is_subclass(prog.classes['pamqp.commands.' + r],
                                 prog.cls('base.Frame'))
            chk.ob('C14.S', '%s.valid_responses[%s]' % (q, r), okr,
                   'reply is a method class of the same AMQP class',
                   site=site)
        # defaults
        attrs, problems, _ = effective_defaults(ctx, ci)
        docd = doc_defaults(ci)
        if attrs is None or problems:
            chk.ob('C14.D', q + '()', False,
                   'not constructible without arguments',
                   detail={'problems': problems}, site=site)
            continue
        for a in m.args:
            got = attrs.get(a.py_name, '<unset>')
            want = a.default if a.has_default else None
            okd = type(got) is type(want) and got == want
            chk.ob('C14.D', '%s(%s)' % (q, a.py_name), okd,
                   'effective default = %r' % (got,),
                   detail={'expected': want}, site=site)
            if a.has_default:
                dt = docd.get(a.py_name)
                chk.ob('C14.D', '%s.__doc__[%s]' % (q, a.py_name),
                       dt == doc_text(want),
                       'docstring Default: %r' % (dt,),
                       detail={'expected': doc_text(want)}, site=site)
            else:
                chk.ob('C14.D', '%s.__doc__[%s]' % (q, a.py_name),
                       a.py_name not in docd,
                       'no Default: line for an argument without a '
                       'specified default (found %r)' %
                       (docd.get(a.py_name),), site=site)
    chk.floor('C14.A', 64 * 6, 'class attribute facts')
    chk.floor('C14.D', 100, 'default facts')

    # Basic.Properties
    pq = 'commands.Basic.Properties'
    pci = prog.classes.get('pamqp.' + pq)
    if pci is None:
        chk.ob('C14.P', pq, False, 'class missing')
    else:
        site = '%s:%d' % (pci.module.relpath, pci.node.lineno)
        props = spec.properties()
        slots = listify(ctx, const_attr(ctx, pci, '__slots__'),
                        pq + '.__slots__')
        want = [p[1] for p in props]
        chk.ob('C14.P', pq + '.__slots__', slots == want,
               '__slots__ = %r' % (slots,), detail={'expected': want},
               site=site)
        flags_v = const_attr(ctx, pci, 'flags')
        flags = dict(ctx.dict_value(it, ctx.new_state(), flags_v,
                                    pq + '.flags'))
        chk.ob('C14.P', pq + '.flags.keys', list(flags) == want or
               sorted(flags) == sorted(want),
               'flag table keys = %r' % (list(flags),), site=site)
        for spec_name, py, wtype, bit in props:
            t = it.class_attr_own(pci, '_' + py)
            chk.ob('C14.P', '%s._%s' % (pq, py), t == wtype,
                   'wire type = %r' % (None if t is I.ABSENT else t,),
                   detail={'expected': wtype}, site=site)
            f = flags.get(py)
            chk.ob('C14.P', '%s.flags[%s]' % (pq, py),
                   f == bit and type(f) is int, 'flag = %r' % (f,),
                   detail={'expected': bit}, site=site)
        vals = [v for v in flags.values() if isinstance(v, int)]
        chk.ob('C14.P', pq + '.flags distinct single bits',
               len(set(vals)) == len(vals) and
               all(v > 0 and v & (v - 1) == 0 for v in vals),
               'flag values %r' % (vals,), site=site)
        for nm_, wantv in (('frame_id', 60), ('index', 0x003C),
                           ('name', 'Basic.Properties')):
            v = const_attr(ctx, pci, nm_)
            chk.ob('C14.P', '%s.%s' % (pq, nm_), v == wantv,
                   '%s = %r' % (nm_, v), detail={'expected': wantv},
                   site=site)
        attrs, problems, _ = effective_defaults(ctx, pci)
        if attrs is None or problems:
            chk.ob('C14.D', pq + '()', False,
                   'not constructible without arguments',
                   detail={'problems': problems}, site=site)
        else:
            pdef = spec.tables['property_defaults']
            for spec_name, py, wtype, bit in props:
                wantd = pdef.get(spec_name)
                got = attrs.get(py, '<unset>')
                chk.ob('C14.D', '%s(%s)' % (pq, py),
                       type(got) is type(wantd) and got == wantd,
                       'effective default = %r' % (got,),
                       detail={'expected': wantd}, site=site)
        chk.floor('C14.P', 14 * 2, 'property facts')
    # the catalogue stays what the literals say: nobody writes it at run time
    from .c16 import syntactic_writes
    writes = []
    for fi in prog.functions.values():
        for site_, what in syntactic_writes(prog, fi):
            if 'commands.' in what or 'INDEX_MAPPING' in what or \
                    'class table' in what or 'class attribute' in what:
                writes.append('%s at %s (%s)' % (what, site_, fi.short))
    chk.rule('C14.W', 'the catalogue (INDEX_MAPPING, class tables) is not '
             'modified by any function at run time')
    chk.ob('C14.W', 'run-time writers of the catalogue', not writes,
           'no function stores into INDEX_MAPPING or a class table'
           if not writes else '; '.join(writes[:3]))
    # the catalogue accessors (attributes(), amqp_type()) answer from the
    # class alone: they neither write nor consult module-level state
    from .c16 import shared_effects
    acc_bad = []
    nacc = 0
    for m_ in spec.methods():
        ci_ = prog.classes.get('pamqp.commands.' + m_.py_name)
        if ci_ is None:
            continue
        for mname in ('attributes', 'amqp_type'):
            mf = prog.find_method(ci_, mname)
            if mf is None:
                continue
            it_ = ctx.interp()
            st_ = ctx.new_state()
            ref_ = ctx.symbolic_instance(it_, st_, ci_)
            recv = ci_ if mf.kind == 'classmethod' else ref_
            argv = [recv] if mf.kind != 'staticmethod' else []
            if mname == 'amqp_type':
                sl = ctx.slots_of(ci_)
                if not sl:
                    continue
                argv.append(sl[0])
            outs_ = it_.run_function(mf, argv, {}, st_)
            nacc += 1
            for e_ in shared_effects(it_):
                acc_bad.append('%s.%s: %s %s at %s' % (
                    ci_.short, mname, e_.kind, str(e_.detail)[:40], e_.site))
            for o_ in outs_:
                for a_ in o_.state.kn.atoms:
                    if isinstance(a_, T.Sym) and T.mentions(
                            a_, lambda t: t.op == 'global'):
                        acc_bad.append('%s.%s depends on run-time module '
                                       'state: %s' % (ci_.short, mname,
                                                      T.show(a_)[:60]))
    from .c16 import data_model_effects
    dm_, dm_runs_ = data_model_effects(ctx)
    nacc += dm_runs_
    for where_, e_ in dm_:
        acc_bad.append('%s: %s %s at %s' % (
            where_, e_.kind, str(e_.detail)[:40], e_.site))
    seen_acc = sorted(set(x.split(': ', 1)[1] for x in acc_bad))
    chk.ob('C14.W', 'catalogue accessors', not acc_bad,
           '%d abstract runs of attributes() / amqp_type(): no module-level '
           'state written or consulted' % nacc if not acc_bad else
           '; '.join(seen_acc[:3]))
    # ... and no instance shadows a catalogue attribute of its class
    chk.rule('C14.I', 'catalogue attributes (frame_id, index, name, '
             'synchronous, valid_responses, __slots__, flags, _<argument> '
             'wire types) are never stored on or deleted from a frame '
             'object, a frame class or cls by any function, and the dynamic '
             'setattr sites reached from marshal / unmarshal write argument '
             'names only')
    slotnames = set()
    for m in spec.methods():
        slotnames.update(a.py_name for a in m.args)
    slotnames.update(p[1] for p in spec.properties())
    hits, nstores = shadow_writes(prog, slotnames)
    chk.ob('C14.I', 'attribute stores', not hits,
           '%d attribute stores / deletes / setattr calls scanned in %d '
           'functions' % (nstores, len(prog.functions)) if not hits else
           '; '.join('%s at %s' % h[::-1] for h in hits[:3]))
    for site_, what in hits:
        chk.ob('C14.I', what, False, 'shadows a catalogue attribute',
               site=site_)
    # dynamic sites: effects of the abstract marshal / unmarshal runs
    from .. import codec
    from .. import framepaths as F
    from .. import layout as L
    pol = codec.FramePolicy(prog)
    dyn_bad = []
    nruns = 0
    for k, ci in ctx.index_mapping():
        if not isinstance(ci, ClassInfo):
            continue
        slots = set(ctx.slots_of(ci))
        e = L.method_encode(ctx, pol, ci)
        f = F.UnmarshalFacts(ctx, k, assume_type=1)
        nruns += 2
        for where, it_ in (('marshal', e['interp']), ('unmarshal', f.it)):
            for ef in it_.effects:
                if ef.kind == 'setattr' and isinstance(ef.detail, tuple):
                    nm_ = ef.detail[0]
                    if nm_ in slots:
                        continue
                    if nm_ in CATALOGUE_ATTRS or (
                            isinstance(nm_, str) and nm_.startswith('_')
                            and nm_[1:] in slotnames):
                        dyn_bad.append('%s(%s) sets .%s at %s' % (
                            where, ci.short, nm_, ef.site))
                elif ef.kind in ('setattr-dynamic', 'setattr-sym'):
                    dyn_bad.append('%s(%s): %s %s at %s' % (
                        where, ci.short, ef.kind, ef.detail, ef.site))
    chk.ob('C14.I', 'setattr effects of marshal / unmarshal', not dyn_bad,
           '%d abstract runs, every attribute written is an argument name'
           % nruns if not dyn_bad else '; '.join(sorted(set(dyn_bad))[:3]))
    # positive control: the scan must flag a file with known writers
    ctl = os.path.join(os.path.dirname(os.path.dirname(os.path.dirname(
        os.path.abspath(__file__)))), 'selftest', 'controls')
    tmp = None
    try:
        import shutil
        import tempfile
        from ..model import Program
        tmp = tempfile.mkdtemp(prefix='c14ctl-')
        shutil.copytree(prog.pkg_dir,
                        os.path.join(tmp, 'pamqp'))
        shutil.copy(os.path.join(ctl, 'shadow_writes.py'),
                    os.path.join(tmp, 'pamqp', 'shadow_writes.py'))
        cprog = Program(tmp)
        chits, _n = shadow_writes(cprog, slotnames)
    except Exception as err:
        raise AnalysisError('positive control could not be analysed: %s' %
                            err)
    finally:
        if tmp is not None:
            shutil.rmtree(tmp, ignore_errors=True)
    chits = [h for h in chits if 'shadow_writes.py' in h[0]]
    if len(chits) < 5:
        raise AnalysisError('positive control: only %d of 5 shadowing '
                            'stores were flagged' % len(chits))
    chk.extra['positive_control'] = {
        'file': 'selftest/controls/shadow_writes.py', 'flagged': len(chits)}
    chk.units['classes'] = len(list(spec.methods())) + 1 + len(spec.classes)
    chk.assume('the transcribed specification table is correct (it was '
               'written from the AMQP 0-9-1 / RabbitMQ documents, not from '
               'the repository)')
