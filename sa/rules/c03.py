"""C03 - field tables and arrays round-trip with value and type preserved
(structural part: dispatch order, tag <-> decoder agreement, integer ladder
ranges and signs, container framing, decimal layout)."""
from .. import codec
from .. import interp as I
from .. import isets
from .. import models
from .. import pairs
from .. import tables
from .. import terms as T
from ..isets import ISet
from ..model import AnalysisError, FuncInfo
from ..terms import Sym

RULES = {
    'C03.D': 'type dispatch of the value encoder: every documented Python '
             'type reaches the arm with its tag and no arm is shadowed by an '
             'earlier test (bool before int); other types are refused',
    'C03.T': 'for every tag the encoder can emit, TABLE_MAPPING has a '
             'decoder and Pair(arm encoder, decoder) holds, including the '
             'Python type returned',
    'C03.I': 'integer ladder: every arm lies within the range of the format '
             'its tag\'s decoder unpacks with, with the same signedness '
             '(negative numbers keep their sign)',
    'C03.C': 'containers: u32(len(body)) ++ body on the write side; the '
             'readers take the same prefix, iterate tagged values (tables: '
             'u8-prefixed UTF-8 key first) until the cursor reaches 4 + '
             'length and report that as consumed',
    'C03.S': 'decimal: unsigned scale octet at 0, 32-bit unscaled value at 1 '
             'with the same signedness on both sides, 5 bytes consumed',
}


def py_types_of(spec_py):
    return {spec_py}


def run(chk, ctx):
    for r, t in RULES.items():
        chk.rule(r, t)
    chk.explanation = (
        'The isinstance chain of encode_table_value, the integer ladders, '
        'the tag->decoder table and the container loops are obtained as '
        'residual terms / path sets of the abstract interpreter and compared '
        'pairwise (writer against reader) by struct-format algebra and '
        'interval arithmetic. Decides dispatch order, tag/decoder agreement, '
        'widths, signedness over the full integer ranges, container '
        'framing; the numerical semantics of Decimal, float rounding and '
        'calendar arithmetic are trusted library behaviour.')
    prog, spec = ctx.prog, ctx.spec
    tags = spec.tables['field_tags']
    fi, P, arms, rejects, it = tables.value_arms(ctx)
    site = '%s:%d' % (fi.module.relpath, fi.node.lineno)
    # ---- dispatch
    for pytype, tag in spec.tables['encoder_arms']:
        arm = tables.first_accepting(arms, P, pytype)
        if arm is None:
            chk.ob('C03.D', 'values of type ' + pytype, False,
                   'no arm accepts this type', site=site)
            continue
        if tag == 'ladder':
            okk = arm.tag == b'' and \
                arm.callee == 'encode.table_integer' and arm.operand is P
            fact = 'first accepting test %r -> %s' % (
                sorted(tables.arm_test(arm, P)), arm.callee)
        else:
            okk = arm.tag == tag.encode('latin-1') and \
                (arm.operand is P or arm.callee == '')
            fact = 'first accepting test %r -> tag %r via %s' % (
                sorted(tables.arm_test(arm, P)), arm.tag,
                arm.callee or 'no payload')
        chk.ob('C03.D', 'values of type ' + pytype, okk, fact,
               detail={'expected_tag': tag}, site=site)
    rej_ok = any(o.exc.type_name == 'TypeError' for o in rejects)
    chk.ob('C03.D', 'other types', rej_ok,
           'values of no listed type are refused with %r' %
           sorted({o.exc.type_name for o in rejects}), site=site)
    chk.floor('C03.D', 10, 'dispatch arms')

    # ---- tags
    decs, dups = tables.tag_decoders(ctx)
    todo = []
    for arm in arms:
        if arm.callee is None:
            chk.undecide('C03.T', 'arm %r' % arm.tag, 'arm does not emit '
                         'tag ++ one encoder call')
            continue
        if arm.callee == 'encode.table_integer':
            continue
        todo.append((arm.tag, arm.callee, None))
    for legacy in (False, True):
        lad = tables.ladder_arms(ctx, legacy)
        cover = ISet.empty()
        for s, arm in lad['arms']:
            todo.append((arm.tag, arm.callee, s))
            if s is not None:
                cover = cover.union(s)
        # every integer of [-2**63, 2**63 - 1] is encodable: it falls into
        # some arm of the ladder
        want64 = ISet.range(-(1 << 63), (1 << 63) - 1)
        gap = want64.minus(cover)
        chk.ob('C03.I', '%s ladder covers the signed 64-bit range' %
               ('legacy' if legacy else 'normal'), gap.is_empty(),
               'arms cover %r' % cover if gap.is_empty() else
               'integers %r fall into no arm (covered: %r): they are '
               'refused although they are in the documented range' %
               (gap, cover), site='pamqp/encode.py')
    seen = set()
    for tag, callee, arm_set in todo:
        key = (tag, callee, arm_set)
        if key in seen:
            continue
        seen.add(key)
        tname = tag.decode('latin-1')
        rule = 'C03.I' if arm_set is not None else 'C03.T'
        cons = 'tag %r' % tag
        d = decs.get(tag)
        if not isinstance(d, FuncInfo):
            chk.ob(rule, cons, False, 'TABLE_MAPPING has no decoder for an '
                   'emitted tag')
            continue
        D = pairs.dec_desc(ctx, d)
        dsite = '%s:%d' % (d.module.relpath, d.node.lineno)
        if callee == '':
            okk = all(dp.consumed == 0 and dp.value is None
                      for dp in D.paths) and bool(D.paths)
            chk.ob(rule, cons + ' (void)', okk, 'decoder %s consumes %r' %
                   (d.short, [T.show(dp.consumed) for dp in D.paths]),
                   site=dsite)
            continue
        e = prog.functions.get('pamqp.' + callee)
        E = pairs.enc_desc(ctx, e)
        reach = None
        if arm_set is not None and arm_set.ivs:
            lo = arm_set.ivs[0][0]
            hi = arm_set.ivs[-1][1]
            reach = (None if lo == isets.NEG else int(lo),
                     None if hi == isets.POS else int(hi))
        ref = tags.get(tname, {})
        if arm_set is not None:
            # the arm's encoder must accept the whole arm (every integer of
            # the documented range is encodable)
            sf = tables.single_field(E)
            if sf is not None:
                accept = ISet.empty()
                for seg, pth in sf:
                    a_ = ISet.range(*pairs.fmt_range(seg))
                    if pth.range is not None:
                        a_ = a_.inter(ISet.range(*pth.range))
                    accept = accept.union(a_)
                missing = arm_set.minus(accept)
                chk.ob('C03.I', 'tag %r arm accepted by %s' % (tag, callee),
                       missing.is_empty(),
                       'arm %r, encoder accepts %r' % (arm_set, accept),
                       detail={'refused_although_in_range': repr(missing)},
                       site='%s:%d' % (e.module.relpath, e.node.lineno))
        if ref.get('kind') in ('array', 'table'):
            # container framing is judged by C03.C
            res = [r for r in pairs.pair(E, D, reach=reach)
                   if r[0] in ('width/order', 'signedness', 'prefix')]
        else:
            res = pairs.pair(E, D, reach=reach)
        pairs.report_pair(chk, rule, 'Pair(%s, %s) for tag %r' %
                          (e.short, d.short, tag), res,
                          site='%s:%d / %s' % (e.module.relpath,
                                               e.node.lineno, dsite))
        if ref.get('kind') == 'bool':
            for dp in D.paths:
                rds = list(dp.reads.values())
                v = dp.value
                okb = len(rds) == 1 and isinstance(v, Sym) and \
                    v.op == 'ne' and v.args[0] is rds[0].term and \
                    v.args[1] == 0
                chk.ob(rule, cons + ' truth value', okb,
                       'decoded as %s' % T.show(v)[:80],
                       detail={'expected': 'octet != 0'}, site=dsite)
        # clause 5: Python type
        want = ref.get('py')
        kinds = set()
        unknown = False
        for dp in D.paths:
            k = dp.value_kind()
            if k is None:
                unknown = True
            else:
                kinds |= k
        if ref.get('kind') == 'longstr':
            okk = kinds <= {'str', 'bytes'} and 'str' in kinds
        elif want == 'NoneType':
            okk = kinds == {'NoneType'}
        else:
            okk = kinds == {want} and not unknown
        if unknown and not kinds:
            chk.undecide(rule, cons + ' result type', 'decoder result type '
                         'not determinable')
        else:
            chk.ob(rule, cons + ' result type', okk,
                   'decoder %s returns %s' % (d.short, sorted(kinds)),
                   detail={'expected': want}, site=dsite)
    chk.floor('C03.T', 9 * 2, 'tag facts')
    chk.floor('C03.I', 10, 'ladder arm facts')

    # ---- decimal layout
    de = prog.module('encode').functions.get('decimal')
    dd = decs.get(b'D')
    if de is None or not isinstance(dd, FuncInfo):
        chk.ob('C03.S', 'decimal', False, 'decimal encoder/decoder missing')
    else:
        E, D = pairs.enc_desc(ctx, de), pairs.dec_desc(ctx, dd)
        for ep in E.paths:
            flds = [s for s in ep.segs if s.kind == 'fld']
            for dp in D.paths:
                reads = sorted(dp.reads.values(),
                               key=lambda r: r.offset if isinstance(
                                   r.offset, int) else 99)
                okk = len(flds) == 2 and len(reads) == 2 and \
                    flds[0].size == 1 and flds[0].signed is False and \
                    reads[0].offset == 0 and reads[0].size == 1 and \
                    reads[0].signed is False and flds[1].size == 4 and \
                    reads[1].offset == 1 and reads[1].size == 4 and \
                    flds[1].signed == reads[1].signed and \
                    flds[1].order == reads[1].order == 'big' and \
                    dp.consumed == 5
                chk.ob('C03.S', 'decimal layout', okk,
                       'written %r; read %r; consumed %s' %
                       ([pairs._fld_text(f) for f in flds], reads,
                        T.show(dp.consumed)),
                       site='pamqp/encode.py::decimal / '
                       'pamqp/decode.py::decimal')
    from .. import tsrules
    for cons, okk, why in tsrules.decimal_sign_rule(ctx):
        if okk is None:
            chk.undecide('C03.S', cons, why)
            continue
        chk.ob('C03.S', cons, okk, why, site='pamqp/encode.py::decimal')
    for cons, okk, why in tsrules.decimal_context_rule(ctx):
        chk.ob('C03.S', cons, okk, why, site='pamqp/decode.py::decimal')
    for cons, okk, why in tsrules.decimal_accept_rule(ctx):
        chk.ob('C03.S', cons, okk, why,
               detail={'expected': 'every scale 0..255 and every unscaled '
                       'value in [-2**31, 2**31 - 1] is accepted'},
               site='pamqp/encode.py::decimal')
    chk.rule('C03.Z', 'datetime / struct_time values are converted to the '
             'absolute instant they denote (aware as is, naive as UTC, '
             'struct_time by timegm)')
    tsres, _n = tsrules.timestamp_operands(ctx)
    for cons, okk, why in tsres:
        chk.ob('C03.Z', cons, okk, why, site='pamqp/encode.py::timestamp')
    for cons, okk, why in tsrules.timestamp_decode_rule(ctx):
        chk.ob('C03.Z', cons, okk, why, site='pamqp/decode.py::timestamp')
    for cons, okk, why in tsrules.table_key_rule(ctx):
        if okk is None:
            chk.undecide('C03.C', cons, why)
        else:
            chk.ob('C03.C', cons, okk, why,
                   detail={'expected': 'keys of at most 128 characters are '
                           'emitted unchanged'},
                   site='pamqp/encode.py::field_table')
    # ---- refusals
    refusal_checks(chk, ctx)
    state_checks(chk, ctx)
    # ---- containers
    container_checks(chk, ctx, decs)
    chk.assume('Decimal arithmetic rebuilds raw * 10^-scale exactly; IEEE '
               'single rounding and calendar arithmetic are library '
               'behaviour (C15 decides the time-zone part)')
    chk.assume('nesting depth 32 is below the interpreter recursion limit '
               '(C08 decides that recursion is well-founded)')


def container_checks(chk, ctx, decs):
    prog = ctx.prog
    dmod = prog.module('decode')
    for tag, kind in ((b'A', 'array'), (b'F', 'table')):
        d = decs.get(tag)
        if not isinstance(d, FuncInfo):
            chk.ob('C03.C', kind, False, 'no decoder for tag %r' % tag)
            continue
        site = '%s:%d' % (d.module.relpath, d.node.lineno)
        it, outs = codec.run(prog, d)
        B = codec.symbolic_args(d)[0]
        loops = [l for l in it.loops if l['func'] is d]
        if not loops:
            # the element loop may live in a helper the reader runs (a
            # cursor / iterator object): its activation under this reader
            loops = [l for l in it.loops
                     if len(l.get('chain', ())) >= 2 and
                     l['chain'][0] == d.short and
                     not any(c in (x.short for x in decs.values()
                                   if isinstance(x, FuncInfo))
                             for c in l['chain'][1:])]
        rets = [o for o in outs if o.kind == 'return']
        if len(loops) != 1 or not rets:
            chk.undecide('C03.C', kind + ' reader', 'expected one loop and '
                         'a return, found %d loop(s)' % len(loops))
            continue
        lp = loops[0]
        # prefix read and end
        test = lp['test']
        endt = None
        cursor = None
        if isinstance(test, Sym) and test.op == 'lt':
            cursor, endt = test.args
        pre_ok = False
        prd = None
        if endt is not None:
            rds = pairs.find_reads(endt, B)
            if len(rds) == 1:
                prd = list(rds.values())[0]
                pre_ok = prd.offset == 0 and prd.size == 4 and \
                    prd.signed is False and prd.order == 'big' and \
                    T.sub(endt, T.add(prd.term, 4)) == 0
        chk.ob('C03.C', kind + ' reader prefix', pre_ok,
               'loop runs while %s' % T.show(test)[:120],
               detail={'expected': 'cursor < 4 + u32 length prefix at '
                       'offset 0'}, site=site)
        # consumed
        c_ok = True
        for o in rets:
            c = o.value[0] if isinstance(o.value, tuple) else None
            okc = c is not None and (
                (endt is not None and T.sub(c, endt) == 0) or
                (cursor is not None and isinstance(c, Sym) and
                 c.op == 'typed' and isinstance(cursor, Sym) and
                 c.args[0] is cursor.args[0]))
            c_ok = c_ok and okc
        chk.ob('C03.C', kind + ' reader consumed', c_ok,
               'reports %s' % [T.show(o.value[0])[:60] for o in rets
                               if isinstance(o.value, tuple)],
               detail={'expected': '4 + length, or the cursor that the loop '
                       'ran up to it'}, site=site)
        # loop body: element decoding at the cursor
        v0 = _cursor_start(lp, cursor)
        if v0 is None:
            chk.undecide('C03.C', kind + ' reader element',
                         'the loop condition %s does not compare a cursor '
                         'the analysis tracks' % T.show(test)[:80])
            continue
        body_ok = bool(lp['conts'])
        facts = []
        for o in lp['conts']:
            v1 = _cursor_after(o, cursor)
            delta = T.sub(v1, v0)
            if kind == 'table':
                # key: u8 length at cursor, utf-8 key after it
                krd = [r for r in pairs.find_reads(delta, B).values()
                       if r.size == 1]
                kok = len(krd) == 1 and krd[0].signed is False and \
                    T.sub(krd[0].offset, v0) == 0
                facts.append('key length read %r' % (krd,))
                body_ok = body_ok and kok
                # the key text
                keyterm = None
                for i, ob in o.state.store.items():
                    if ob.kind == 'dict' and ob.more:
                        for k, _v in ob.items:
                            if isinstance(k, Sym):
                                keyterm = k
                if keyterm is not None:
                    from ..layout import abs_range
                    okk = isinstance(keyterm, Sym) and \
                        keyterm.op == 'decode_utf8'
                    if okk:
                        rr = abs_range(keyterm.args[0], B)
                        okk = rr is not None and kok and \
                            T.sub(rr[0], T.add(v0, 1)) == 0 and any(
                                T.sub(h, T.add(T.add(v0, 1),
                                               krd[0].term)) == 0
                                for h in rr[1])
                    facts.append('key decoded as %s' %
                                 T.show(keyterm)[:80])
                    body_ok = body_ok and okk
                else:
                    body_ok = False
                    facts.append('no key assignment found')
            # the element is decoded by the tag dispatcher at the cursor
            ev = [c for c in it.calls
                  if c[0].startswith('decode.embedded_value')]
            body_ok = body_ok and bool(ev)
        chk.ob('C03.C', kind + ' reader element', body_ok,
               '; '.join(facts) if facts else 'elements decoded by '
               'embedded_value at the cursor', site=site)
    # writers: prefix = len(body), body = concatenation of element
    # encodings (array: tagged values; table: short_string(key) ++ tagged
    # value in sorted order) -- shared with C04.X / C04.T
    tables.check_table_entry_order(chk, ctx, 'C03.C')
    okk = tables.array_items_encoded(ctx)
    chk.ob('C03.C', 'array writer element', okk,
           'each list item is appended as encode_table_value(item)',
           site='pamqp/encode.py::field_array')
    chk.floor('C03.C', 8, 'container facts')


def _leaves(g):
    """Leaves of a guard term under and / or / not / cond."""
    if isinstance(g, Sym) and g.op in ('and', 'or'):
        for a in g.args:
            yield from _leaves(a)
    elif isinstance(g, Sym) and g.op == 'not':
        yield from _leaves(g.args[0])
    elif isinstance(g, Sym) and g.op == 'cond':
        yield from _leaves(g.args[1])
        yield from _leaves(g.args[2])
    else:
        yield g


def classify_refusal(leaf, P):
    """-> 'type' | 'range' | 'content' | 'other'"""
    if not isinstance(leaf, Sym):
        return 'other'
    if T.mentions(leaf, lambda t: t.op == 'id'):
        # which object it is (and what was seen before), not what it holds
        return 'content'
    if leaf.op in ('isinstance', 'isinstance_dyn'):
        return 'type'
    if leaf.op in ('is', 'isnot') and leaf.args[1] is None:
        return 'type'
    if leaf.op in ('is', 'isnot', 'eq', 'ne') and any(
            isinstance(a, Sym) and a.op == 'type' for a in leaf.args):
        return 'type'
    if leaf.op in ('in', 'notin') and isinstance(leaf.args[1], T.Ref):
        return 'type'  # dispatch-table membership (type / wire-type name)
    if leaf.op in ('in', 'notin') and leaf.args[0] is P and \
            isinstance(leaf.args[1], tuple) and leaf.args[1] and \
            all(isinstance(x, int) for x in leaf.args[1]):
        return 'range'  # membership in a constant range(...) / int tuple
    if leaf.op in ('in', 'notin') and isinstance(leaf.args[1], Sym) and \
            leaf.args[1].op == 'range' and (
                leaf.args[0] is P or (isinstance(leaf.args[0], Sym) and
                                      leaf.args[0].op in (
                                          'elem', 'index', 'typed',
                                          'param'))):
        return 'range'
    if leaf.op in ('lt', 'le', 'gt', 'ge', 'eq', 'ne'):
        a, b = leaf.args

        def plain(x):
            # the value itself or an element of it
            return x is P or (isinstance(x, Sym) and x.op in (
                'elem', 'index', 'typed', 'param'))
        if (plain(a) and isinstance(b, int)) or \
                (plain(b) and isinstance(a, int)):
            return 'range'
        if T.mentions(leaf, lambda t: t is P):
            # the value compared with itself, a float, another value ...
            return 'content'
    if T.mentions(leaf, lambda t: t.op in ('len', 'method', 'attr')):
        return 'content'
    return 'other'


def refusal_checks(chk, ctx):
    """C03.A: an explicit refusal in a value encoder depends on the type of
    the value or on an integer range only (ranges themselves are judged by
    C03.I / C03.S) - never on the content of a value of an accepted type."""
    chk.rule('C03.A', 'every explicit raise in the table-value encoders is '
             'guarded by a type test or an integer range test of the value: '
             'no value of a documented type is refused for its content '
             '(length, elements, attributes)')
    prog = ctx.prog
    emod = prog.module('encode')
    n = 0
    for fi in emod.functions.values():
        if fi.short in ('encode.support_deprecated_rabbitmq',
                        'encode.by_type', 'encode.decimal'):
            continue  # by_type repeats the others; decimal: C03.S
        if fi.name.startswith('_'):
            continue  # private helpers are analysed inlined in their callers
        try:
            it, outs = codec.run(prog, fi)
        except I.Unsupported as err:
            chk.undecide('C03.A', fi.short, str(err))
            continue
        args = codec.symbolic_args(fi)
        P = args[0] if args else None
        seen = set()
        for o in outs:
            if o.kind != 'raise' or o.exc.primitive or o.exc.in_handler:
                continue
            atoms = [a for a in o.state.kn.atoms if isinstance(a, Sym)]
            g = atoms[-1] if atoms else None
            if g is None or (o.exc.site, g) in seen:
                continue
            seen.add((o.exc.site, g))
            n += 1
            kinds = {classify_refusal(x, P) for x in _leaves(g)}
            cons = '%s refusal at %s' % (fi.short, o.exc.site)
            if 'content' in kinds:
                chk.ob('C03.A', cons, False,
                       'refuses depending on %s: a property of the content '
                       'of the value, not its type or integer range' %
                       T.show(g)[:120], site=o.exc.site)
            elif 'other' in kinds:
                chk.undecide('C03.A', cons, 'guard %s is not recognised as '
                             'a type or range test' % T.show(g)[:120])
            else:
                chk.ob('C03.A', cons, True, 'refuses on %s (%s)' % (
                    '/'.join(sorted(kinds)), T.show(g)[:80]),
                    site=o.exc.site)
    chk.floor('C03.A', 20, 'explicit refusals classified', count=n)


def _cursor_start(lp, cursor):
    """Value of the loop cursor at the head of the abstract iteration: a
    local integer variable or an integer attribute of an object."""
    if not (isinstance(cursor, Sym) and cursor.op == 'typed' and
            isinstance(cursor.args[0], Sym)):
        return None
    c = cursor.args[0]
    if c.op == 'loopvar':
        return lp['start_env'].get(c.args[1])
    if c.op == 'loopattr':
        return (lp.get('start_attrs') or {}).get((c.args[1], c.args[2]))
    return None


def _cursor_after(o, cursor):
    c = cursor.args[0]
    if c.op == 'loopvar':
        return o.state.env.get(c.args[1])
    ob = o.state.store.get(c.args[1])
    return getattr(ob, 'attrs', {}).get(c.args[2])


def state_checks(chk, ctx):
    """C03.G: what the table encoders / decoders accept and return depends
    on their argument only (and on the legacy switch on the encode side):
    no run-time module state is read in a condition or result, none is
    written."""
    chk.rule('C03.G', 'the field-value encoders and decoders read no '
             'run-time module state besides the legacy switch and write '
             'none (a value accepted once is accepted always)')
    prog = ctx.prog
    allowed = {'pamqp.encode.DEPRECATED_RABBITMQ_SUPPORT'}
    bad = []
    nruns = 0
    for mod in ('encode', 'decode'):
        for fi in prog.module(mod).functions.values():
            if fi.short == 'encode.support_deprecated_rabbitmq':
                continue
            try:
                it, outs = codec.run(prog, fi)
            except I.Unsupported:
                continue
            nruns += 1
            for e in it.effects:
                if e.kind == 'global-write':
                    bad.append('%s writes %s at %s' % (fi.short, e.target,
                                                       e.site))
            for o in outs:
                terms = [a for a in o.state.kn.atoms if isinstance(a, Sym)]
                if o.kind == 'return' and isinstance(o.value, (Sym, tuple)):
                    terms.append(o.value)
                for t in T.subterms(tuple(terms)):
                    if t.op == 'global' and t.args[0] not in allowed:
                        bad.append('%s depends on %s' % (fi.short,
                                                         t.args[0]))
    bad = sorted(set(bad))
    chk.ob('C03.G', 'run-time module state', not bad,
           '%d abstract runs of the field-value codec: only the legacy '
           'switch is read, nothing is written' % nruns if not bad else
           '; '.join(bad[:3]))
