"""C16 - codec calls are independent of history and of concurrent callers.
Decided as an effect property: no call writes anything another call can
read, and no call returns an object another call can reach."""
import ast
import os

from .. import codec
from .. import framepaths as F
from .. import interp as I
from .. import terms as T
from ..model import AnalysisError, ClassInfo, FuncInfo, Binding
from ..terms import Sym

RULES = {
    'C16.G': 'shared-state inventory and who-may-write: no function stores '
             'to, deletes from, rebinds or calls a mutating method on any '
             'module-level or class-level object; the single allowed writer '
             'is the legacy toggle',
    'C16.D': 'defaults are fresh: no parameter default is a mutable object '
             'or a call result; every mutable object a constructor stores '
             'into self is the caller\'s argument or created in that '
             'activation',
    'C16.F': 'results are fresh: every mutable object reachable from a '
             'decoded frame is created in the activation tree of that call',
    'C16.E': 'no ambient state: no expression of the package resolves to a '
             'library name that reads or writes process-wide or per-thread '
             'state (decimal context, locale, environment, clocks, random '
             'sources, thread identity, context variables, interpreter '
             'settings)',
    'C16.C': 'no memo: no caching decorator, function attribute, nonlocal '
             'state or module-level container both read and written',
}
MUTABLE_NODES = (ast.List, ast.Dict, ast.Set, ast.ListComp, ast.DictComp,
                 ast.SetComp)
WRITE_KINDS = {'setitem', 'delitem', 'mutating-method', 'setattr',
               'class-attr-write', 'global-write', 'function-attribute',
               'setattr-dynamic'}


def shared_inventory(ctx):
    """Module-level and class-level bindings whose value is a mutable
    object: -> [(qualified name, kind)]"""
    prog = ctx.prog
    it = ctx.static()
    out = []
    for mi in prog.modules.values():
        for name, bl in mi.bindings.items():
            b = bl[-1]
            if b.kind != 'assign' or not isinstance(b.value, ast.AST):
                continue
            if isinstance(b.value, MUTABLE_NODES):
                out.append(('%s.%s' % (mi.name, name),
                            type(b.value).__name__))
    for ci in prog.classes.values():
        for name, bl in ci.bindings.items():
            b = bl[-1]
            if b.kind != 'assign' or not isinstance(b.value, ast.AST):
                continue
            if isinstance(b.value, MUTABLE_NODES):
                out.append(('%s.%s' % (ci.qualname, name),
                            type(b.value).__name__))
    return out


def scan_ambient(prog, module_infos):
    """Every Name / Attribute load that statically resolves to a library
    name in models.AMBIENT_STATE.  -> (names looked at, [(site, path)])"""
    from .. import models
    hits, n = [], 0
    for mi in module_infos:
        inner = set()
        for node in ast.walk(mi.tree):
            if isinstance(node, ast.Attribute):
                inner.add(id(node.value))
        for node in ast.walk(mi.tree):
            if not isinstance(node, (ast.Name, ast.Attribute)) or \
                    not isinstance(node.ctx, ast.Load):
                continue
            if id(node) in inner and not isinstance(node, ast.Name):
                pass
            try:
                tgt = prog.resolve_static(mi, node, mi)
            except Exception:
                continue
            if not (isinstance(tgt, tuple) and tgt and tgt[0] == 'ext'):
                continue
            n += 1
            if models.ambient(tgt[1]) and id(node) not in inner:
                hits.append(('%s:%d' % (mi.relpath, node.lineno), tgt[1]))
    return n, hits


def shared_effects(it, state_obj=None):
    """Effects of an interpreter run that touch shared (scope-level)
    objects or global / class state."""
    bad = []
    for e in it.effects:
        if e.kind in ('global-write', 'class-attr-write',
                      'function-attribute', 'setattr-dynamic',
                      'raise-shared-exception'):
            bad.append(e)
        elif e.kind in ('setitem', 'delitem', 'mutating-method'):
            d = e.detail
            shared = d[1] if isinstance(d, tuple) and len(d) > 1 else False
            if shared is True:
                bad.append(e)
        elif e.kind == 'setattr':
            d = e.detail
            if isinstance(d, tuple) and len(d) > 1 and d[1] is True:
                bad.append(e)
    return bad


def decode_keeps_state(ctx):
    """What the decode side keeps between calls: memoising wrappers on its
    functions and writes of its abstract runs to module- or class-level
    objects.  -> list of descriptions (empty when it keeps nothing).
    Cached on the context."""
    cached = ctx.__dict__.get('_decode_keeps_state')
    if cached is not None:
        return cached
    from .. import models
    prog = ctx.prog
    out = []
    dfuncs = [fi for fi in prog.functions.values()
              if fi.module.name.endswith(('.decode', '.frame', '.header',
                                          '.body', '.heartbeat', '.base'))]
    caching, _unk = models.wrappers(prog, dfuncs)
    out.extend('memoised: %s' % c for c in caching)
    seen = set()
    f0 = F.UnmarshalFacts(ctx, None)
    keys = [k for k, _ in ctx.index_mapping()]
    runs = [('frame.unmarshal', f0.it)]
    if keys:
        runs.append(('frame.unmarshal', F.UnmarshalFacts(ctx, keys[0]).it))
    for fi in prog.module('decode').functions.values():
        try:
            it, _o = codec.run(prog, fi)
        except (AnalysisError, I.Unsupported):
            continue
        runs.append((fi.short, it))
    for where, it in runs:
        for e in shared_effects(it):
            if e.kind == 'raise-shared-exception':
                continue
            k = (e.kind, e.site)
            if k in seen:
                continue
            seen.add(k)
            out.append('%s writes a module- or class-level object (%s %s) '
                       'at %s' % (where, e.kind, str(e.detail)[:40], e.site))
    ctx.__dict__['_decode_keeps_state'] = out
    return out


SKIP_DATA_MODEL = {'__init__', 'marshal', 'unmarshal', 'validate',
                   '__init_subclass__', '__new__', '__set__', '__get__',
                   '__setattr__', '__delattr__', '__set_name__'}


def data_model_effects(ctx):
    """Every other method of the frame / property classes (the mapping
    protocol, __repr__, __eq__, accessors ...) run on a symbolic instance
    with symbolic arguments: -> [(where, effect)] of writes to module- or
    class-level objects, and the number of runs.  Cached on the context."""
    cached = ctx.__dict__.get('_data_model_effects')
    if cached is not None:
        return cached
    prog = ctx.prog
    out = []
    runs = 0
    classes = [ci for _, ci in ctx.index_mapping()
               if isinstance(ci, ClassInfo)]
    for short in ('commands.Basic.Properties', 'header.ContentHeader',
                  'header.ProtocolHeader', 'body.ContentBody',
                  'heartbeat.Heartbeat'):
        c_ = prog.classes.get('pamqp.' + short)
        if c_ is not None:
            classes.append(c_)
    done = set()
    for ci in classes:
        names = []
        for c in prog.mro(ci):
            if isinstance(c, ClassInfo):
                for nm in c.methods:
                    if nm not in names:
                        names.append(nm)
        try:
            slots = tuple(ctx.slots_of(ci))
        except Exception:
            slots = ()
        for nm in names:
            if nm in SKIP_DATA_MODEL:
                continue
            mf = prog.find_method(ci, nm)
            if mf is None or mf.is_generator and False:
                continue
            # one run per (function, argument list): the classes differ
            # only in their tables
            key = (mf.qualname, slots)
            if key in done:
                continue
            done.add(key)
            it = ctx.interp()
            st = ctx.new_state()
            try:
                ref = ctx.symbolic_instance(it, st, ci)
            except Exception:
                continue
            a = mf.node.args
            params = [p.arg for p in a.posonlyargs + a.args]
            argv = []
            if mf.kind == 'classmethod':
                argv, params = [ci], params[1:]
            elif mf.kind != 'staticmethod':
                argv, params = [ref], params[1:]
            argv += [Sym('param', p) for p in params]
            try:
                it.run_function(mf, argv, {}, st)
            except (AnalysisError, I.Unsupported, I._NoReturn):
                continue
            runs += 1
            for e in shared_effects(it):
                if e.kind == 'raise-shared-exception':
                    continue
                out.append(('%s.%s' % (ci.short, nm), e))
    ctx.__dict__['_data_model_effects'] = (out, runs)
    return out, runs


def run(chk, ctx):
    for r, t in RULES.items():
        chk.rule(r, t)
    chk.explanation = (
        'Effect analysis: the abstract interpreter records every store, '
        'deletion and mutating-method call with its target; targets are '
        'classified as fresh (allocated in the current activation tree), '
        'input (the caller\'s argument) or shared (created at module / '
        'class scope). All codec entry points are analysed (frame.marshal '
        'and frame.unmarshal per method class, every public encode/decode '
        'function, every constructor) and a syntactic inventory of every '
        'scope-level mutable object and every parameter default is taken. '
        'If no call writes shared state and no result reaches shared '
        'mutable state, any interleaving gives each call its '
        'fresh-interpreter result.')
    prog = ctx.prog
    inv = shared_inventory(ctx)
    chk.units['shared_mutable_objects'] = len(inv)
    chk.extra['shared_inventory_sample'] = inv[:12]
    if len(inv) < 150:
        raise AnalysisError('shared-state inventory found only %d objects '
                            '(floor 150)' % len(inv))
    # ---- G: syntactic who-may-write over every function of the package
    allowed_writer = None
    dyn = ctx.static().dynamic_globals
    writers = {}
    for (mod, name), fis in dyn.items():
        for fi in fis:
            writers.setdefault(fi.short, []).append('%s.%s' % (mod, name))
    chk.ob('C16.G', 'global rebinding', set(writers) <=
           {'encode.support_deprecated_rabbitmq'} and
           all(v == ['pamqp.encode.DEPRECATED_RABBITMQ_SUPPORT']
               for v in writers.values()),
           'functions that rebind module globals: %r' % (writers,))
    # the legacy switch is the application's: no function of the package
    # flips it (a decode that switches it changes what every later encode,
    # in every thread, emits)
    callers = []
    for fi in prog.functions.values():
        if fi.short == 'encode.support_deprecated_rabbitmq':
            continue
        for n in ast.walk(fi.node):
            if isinstance(n, ast.Call):
                try:
                    tgt = prog.resolve_static(fi.module, n.func, fi.module)
                except Exception:
                    tgt = None
                if isinstance(tgt, FuncInfo) and tgt.short == \
                        'encode.support_deprecated_rabbitmq':
                    callers.append('%s at %s:%d' % (
                        fi.short, fi.module.relpath, n.lineno))
    chk.ob('C16.G', 'callers of the legacy switch', not callers,
           'no function of the package calls '
           'encode.support_deprecated_rabbitmq' if not callers else
           'the package itself flips the legacy switch: %s' %
           '; '.join(callers[:3]))
    nfun = 0
    for fi in list(prog.functions.values()):
        nfun += 1
        probs = syntactic_writes(prog, fi)
        if probs and import_time_only(prog, fi):
            # applied only as a decorator of module / class level
            # definitions: it runs while the module is imported, i.e. it is
            # part of building the table, not a codec call
            chk.note('%s writes module state but is only applied as an '
                     'import-time decorator' % fi.short)
            continue
        for site, what in probs:
            chk.ob('C16.G', '%s %s' % (fi.short, what), False,
                   'write to shared state: %s' % what, site=site)
    chk.ob('C16.G', 'syntactic scan', True,
           '%d functions scanned for stores through cls / class names / '
           'module aliases and for mutating calls on class-level tables' %
           nfun, nontrivial=True)
    # ---- E: ambient state
    from .c15 import scan_tz_calls
    _ntz, tzhits = scan_tz_calls(prog, prog.modules.values())
    chk.ob('C16.E', 'process time zone', not tzhits,
           'no call consults the process time zone' if not tzhits else
           'results depend on the process time zone, not only on the '
           'arguments: %s' % '; '.join('%s at %s' % (w, s_)
                                       for s_, w in tzhits[:2]))
    n_ext, amb = scan_ambient(prog, prog.modules.values())
    chk.ob('C16.E', 'library names used by the package', not amb,
           '%d references to library names, %d to ambient state' %
           (n_ext, len(amb)), detail={'hits': amb[:5]})
    for site_, path in amb:
        chk.ob('C16.E', 'reference to %s' % path, False,
               'ambient state consulted at %s' % site_, site=site_)
    if n_ext < 100:
        raise AnalysisError('only %d library references resolved (floor '
                            '100)' % n_ext)
    ctl = os.path.join(os.path.dirname(os.path.dirname(os.path.dirname(
        os.path.abspath(__file__)))), 'selftest', 'controls')
    tmp = None
    try:
        import shutil
        import tempfile
        from ..model import Program
        tmp = tempfile.mkdtemp(prefix='c16ctl-')
        os.mkdir(os.path.join(tmp, 'pamqp'))
        shutil.copy(os.path.join(ctl, 'ambient.py'),
                    os.path.join(tmp, 'pamqp', 'ambient.py'))
        cprog = Program(tmp)
        _cn, chits = scan_ambient(cprog, cprog.modules.values())
    except Exception as err:
        raise AnalysisError('positive control could not be analysed: %s' %
                            err)
    finally:
        if tmp is not None:
            shutil.rmtree(tmp, ignore_errors=True)
    if len(chits) < 6:
        raise AnalysisError('positive control: only %d of 6 ambient '
                            'references were flagged' % len(chits))
    chk.extra['positive_control'] = {'file': 'selftest/controls/ambient.py',
                                     'flagged': len(chits)}
    # ---- interpreter effects over the entry points
    runs = 0
    bad_effects = []
    arg_memo = []
    from .c12 import input_effects
    pol = codec.FramePolicy(prog)
    from .. import layout as L
    keys = ctx.index_mapping()
    for k, ci in keys:
        if not isinstance(ci, ClassInfo):
            continue
        e = L.method_encode(ctx, pol, ci)
        runs += 1
        for b in shared_effects(e['interp']):
            bad_effects.append(('frame.marshal(%s)' % ci.short, b))
        for b in input_effects(e['interp'], {e['ref'].id}):
            arg_memo.append(('frame.marshal(%s)' % ci.short, b))
        f = F.UnmarshalFacts(ctx, k, assume_type=1)
        runs += 1
        for b in shared_effects(f.it):
            bad_effects.append(('frame.unmarshal[%s]' % ci.short, b))
        # C16.F: freshness of the result graph
        for r in f.rets:
            check_fresh(chk, f, r, 'frame.unmarshal -> %s' %
                        (r.cls.short if r.cls else '?'))
    from .. import hdrlayout as H
    he = H.encode(ctx, pol)
    runs += 1
    for b in shared_effects(he['interp']):
        bad_effects.append(('frame.marshal(ContentHeader)', b))
    for b in input_effects(he['interp'], he['input_ids']):
        arg_memo.append(('frame.marshal(ContentHeader)', b))
    memo_seen = set()
    for where, e_ in arg_memo:
        k_ = (e_.kind, e_.site)
        if k_ in memo_seen:
            continue
        memo_seen.add(k_)
        chk.ob('C16.C', '%s %s at %s' % (where, e_.kind, e_.site), False,
               'an encode call stores on its argument (%s %s): what it '
               'leaves there can change what a later call returns' % (
                   e_.kind, str(e_.detail)[:60]), site=e_.site)
    chk.ob('C16.C', 'encode calls leave their arguments alone',
           not arg_memo, '%d encode runs, %d stores on argument objects' %
           (len(keys) + 1, len(arg_memo)))
    f0 = F.UnmarshalFacts(ctx, None)
    for b in shared_effects(f0.it):
        bad_effects.append(('frame.unmarshal', b))
    for r in f0.rets:
        if f0.kind_of(r) in ('protocol', 'header', 'body', 'heartbeat') or \
                isinstance(r.objv, ClassInfo):
            check_fresh(chk, f0, r, 'frame.unmarshal -> %s' %
                        (r.cls.short if r.cls else (
                            r.objv.short if isinstance(r.objv, ClassInfo)
                            else '?')))
    for mod in ('encode', 'decode'):
        for fi in prog.module(mod).functions.values():
            if fi.short == 'encode.support_deprecated_rabbitmq':
                continue
            it, outs = codec.run(prog, fi)
            runs += 1
            for b in shared_effects(it):
                bad_effects.append((fi.short, b))
            if mod == 'decode':
                for o in outs:
                    if o.kind == 'return' and isinstance(o.value, tuple) \
                            and len(o.value) == 2 and \
                            isinstance(o.value[1], T.Ref):
                        ob = it.obj(o.state, o.value[1])
                        chk.ob('C16.F', '%s result' % fi.short,
                               not ob.shared and
                               o.value[1].id in o.state.store,
                               'returns a %s created in this call' %
                               ob.kind, site='pamqp/decode.py')
    dm, dm_runs = data_model_effects(ctx)
    runs += dm_runs
    bad_effects.extend(dm)
    seen = set()
    for where, e in bad_effects:
        k = (where.split('(')[0].split('[')[0], e.kind, str(e.target),
             e.site)
        if k in seen:
            continue
        seen.add(k)
        chk.ob('C16.G', '%s %s at %s' % (where, e.kind, e.site), False,
               'writes shared state: %s %s %s' % (e.kind, e.target,
                                                  e.detail), site=e.site)
    chk.ob('C16.G', 'effects of the codec entry points', not bad_effects,
           '%d abstract runs, %d effects on shared objects' %
           (runs, len(bad_effects)))
    chk.assume('Decimal arithmetic consults the thread\'s decimal context '
               'implicitly; the application leaves its precision at or above '
               'the default of 28 digits')
    chk.floor('C16.G', 3, 'who-may-write facts')

    # ---- D: defaults
    ndef = 0
    for fi in prog.functions.values():
        a = fi.node.args
        for d in list(a.defaults) + [x for x in a.kw_defaults if x]:
            ndef += 1
            bad = isinstance(d, MUTABLE_NODES) or isinstance(d, ast.Call)
            if isinstance(d, (ast.Name, ast.Attribute)):
                # a name default is shared if it denotes a mutable object
                tgt = prog.resolve_static(fi.module, d, fi.module)
                if isinstance(tgt, Binding) and isinstance(
                        tgt.value, MUTABLE_NODES):
                    bad = True
            if bad:
                chk.ob('C16.D', '%s default' % fi.short, False,
                       'parameter default is a mutable object or a call '
                       'evaluated once: %s' % ast.unparse(d)[:60],
                       site='%s:%d' % (fi.module.relpath, d.lineno))
    chk.ob('C16.D', 'parameter defaults', True,
           '%d parameter defaults are immutable constants' % ndef)
    ncons = 0
    classes = [ci for _, ci in keys if isinstance(ci, ClassInfo)]
    classes += [prog.cls('commands.Basic.Properties'),
                prog.cls('header.ContentHeader'),
                prog.cls('header.ProtocolHeader'),
                prog.cls('body.ContentBody'),
                prog.cls('heartbeat.Heartbeat')]
    for ci in classes:
        init = prog.find_method(ci, '__init__')
        if init is None:
            continue
        ncons += 1
        it = ctx.interp()
        st = ctx.new_state()
        ref = it.alloc(st, I.InstObj(ci, {}))
        a = init.node.args
        # no-argument call: defaults apply
        outs = it.run_function(init, [ref], {}, st)
        okk = True
        why = []
        for o in outs:
            if o.kind != 'return':
                continue
            ob = it.obj(o.state, ref)
            for name, v in ob.attrs.items():
                for t in ([v] if isinstance(v, T.Ref) else
                          [x for s in ([v] if isinstance(v, Sym) else [])
                           for tt in T.subterms(s) for x in tt.args
                           if isinstance(x, T.Ref)]):
                    tob = it.obj(o.state, t)
                    if tob.shared or t.id not in o.state.store:
                        okk = False
                        why.append('%s -> shared %s (%s)' %
                                   (name, tob.kind, tob.origin))
        chk.ob('C16.D', '%s()' % ci.short, okk,
               'mutable defaults stored into self are created per call'
               if okk else '; '.join(why),
               site='%s:%d' % (ci.module.relpath, ci.node.lineno))
    chk.floor('C16.D', 45, 'constructors', count=ncons)

    # ---- C: no memo
    from .. import models
    memo = []
    caching, unknown_deco = models.wrappers(prog, prog.functions.values())
    memo.extend('%s (caching decorator)' % c for c in caching)
    for fi in prog.functions.values():
        for n in ast.walk(fi.node):
            if isinstance(n, ast.Nonlocal):
                memo.append('%s uses nonlocal' % fi.short)
    chk.ob('C16.C', 'caching constructs', not memo,
           'no caching decorator / nonlocal state in the package'
           if not memo else '; '.join(memo[:3]))
    if unknown_deco:
        chk.undecide('C16.C', 'decorators without a model',
                     '; '.join(unknown_deco[:3]))
    chk.note('cls.attributes() hands out the class-level __slots__ list '
             'itself; it is not a codec result and the library never '
             'writes it (outside the statement)')
    chk.assume('a global load / store of the legacy switch is atomic in '
               'CPython')
    chk.units['abstract_runs'] = runs


def check_fresh(chk, f, r, cons, rule='C16.F'):
    """Every mutable object reachable from the result was created in this
    run (not at module / class scope)."""
    it = f.it
    bad = []
    seen = set()
    n = [0]

    def visit(v, path):
        if isinstance(v, T.Ref):
            if v.id in seen:
                return
            seen.add(v.id)
            n[0] += 1
            ob = it.obj(r.o.state, v)
            if ob.shared or v.id not in r.o.state.store:
                bad.append('%s is a shared %s (%s)' % (path, ob.kind,
                                                       ob.origin))
            if ob.kind == 'inst':
                for k, x in ob.attrs.items():
                    visit(x, path + '.' + k)
            elif ob.kind == 'list':
                for x in ob.items:
                    visit(x, path + '[]')
            elif ob.kind == 'dict':
                for k, x in ob.items:
                    visit(x, path + '[...]')
        elif isinstance(v, tuple):
            for x in v:
                visit(x, path)
        elif isinstance(v, Sym):
            root = v
            while isinstance(root, Sym) and root.op in ('slice', 'typed') \
                    and root.args:
                root = root.args[0]
            if isinstance(root, Sym) and root.op == 'extcall' and \
                    root.args[0] == 'builtins.memoryview' and \
                    T.mentions(root, lambda t: t.op == 'param'):
                bad.append('%s is a memoryview onto the caller\'s buffer: '
                           'it is not a value of its own (it changes with '
                           'the buffer, and with it every other result '
                           'viewing the same memory)' % path)
            for t in T.subterms(v):
                for a in t.args:
                    if isinstance(a, T.Ref):
                        visit(a, path)
    if isinstance(r.objv, ClassInfo):
        bad.append('result is the class %s itself, not an instance: one '
                   'object shared by every call' % r.objv.short)
    visit(r.objv, 'result')
    chk.ob(rule, cons, not bad,
           '%d objects reachable from the result, all created in this call'
           % n[0] if not bad else '; '.join(bad[:3]),
           site='pamqp/frame.py::unmarshal')


def import_time_only(prog, fi):
    """Every reference to the (module-level) function is in code that runs
    while the package is imported (module / class level statements,
    decorators of definitions at that level), none inside a function
    body."""
    if fi.owner is not None or isinstance(fi.node, ast.Lambda):
        return False
    name = fi.node.name
    # nodes that run when some function is called (function bodies), as
    # opposed to module / class level code, decorators and defaults, which
    # run while the module is imported
    inside_funcs = set()
    for mi in prog.modules.values():
        for n in ast.walk(mi.tree):
            if isinstance(n, (ast.FunctionDef, ast.AsyncFunctionDef)):
                for st_ in n.body:
                    for c in ast.walk(st_):
                        inside_funcs.add(id(c))
            elif isinstance(n, ast.Lambda):
                for c in ast.walk(n.body):
                    inside_funcs.add(id(c))
    refs = 0
    for mi in prog.modules.values():
        for n in ast.walk(mi.tree):
            hit = False
            if isinstance(n, ast.Name) and n.id == name and \
                    isinstance(n.ctx, ast.Load) and mi is fi.module:
                hit = True
            elif isinstance(n, ast.Attribute) and n.attr == name and \
                    isinstance(n.ctx, ast.Load):
                try:
                    hit = prog.resolve_static(mi, n, mi) is fi
                except Exception:
                    hit = False
            if hit:
                refs += 1
                if id(n) in inside_funcs:
                    return False
    return refs > 0


def syntactic_writes(prog, fi):
    """Stores through class names / cls / module aliases and mutating
    calls on class-level tables reached through self / cls."""
    out = []
    tables = {'__slots__', '__annotations__', 'valid_responses', 'flags'}
    mut = {'append', 'extend', 'insert', 'pop', 'remove', 'clear', 'sort',
           'reverse', 'update', 'setdefault', 'popitem', 'add', 'discard'}
    params = [a.arg for a in fi.node.args.args] if hasattr(
        fi.node.args, 'args') else []
    selfish = set(params[:1]) & {'self', 'cls'}
    for n in ast.walk(fi.node):
        site = '%s:%d' % (fi.module.relpath, getattr(n, 'lineno', 0))
        tgts = []
        if isinstance(n, ast.Assign):
            tgts = n.targets
        elif isinstance(n, (ast.AugAssign, ast.AnnAssign)):
            tgts = [n.target]
        elif isinstance(n, ast.Delete):
            tgts = n.targets
        for t in tgts:
            for x in ast.walk(t):
                base = None
                if isinstance(x, ast.Subscript) and isinstance(
                        x.ctx, (ast.Store, ast.Del)):
                    base = x.value
                elif isinstance(x, ast.Attribute) and isinstance(
                        x.ctx, (ast.Store, ast.Del)):
                    base = x.value
                    r = prog.resolve_static(fi.module, base, fi.module)
                    if isinstance(r, (ClassInfo,)) or \
                            (isinstance(base, ast.Name) and
                             base.id == 'cls') or \
                            (isinstance(base, ast.Attribute) and
                             base.attr == '__class__'):
                        out.append((site, 'class attribute store %s' %
                                    ast.unparse(x)))
                    if hasattr(r, 'tree'):
                        out.append((site, 'module attribute store %s' %
                                    ast.unparse(x)))
                    continue
                if base is None:
                    continue
                # subscript store: is the base a class-level table or a
                # module-level object?
                if isinstance(base, ast.Attribute) and base.attr in tables:
                    out.append((site, 'store into class table %s' %
                                ast.unparse(base)))
                r = prog.resolve_static(fi.module, base, fi.module)
                if isinstance(r, Binding) and isinstance(
                        base, (ast.Name, ast.Attribute)) and not (
                            isinstance(base, ast.Name) and
                            base.id in _locals(fi)):
                    out.append((site, 'store into module-level object %s' %
                                ast.unparse(base)))
        if isinstance(n, ast.Call) and isinstance(n.func, ast.Attribute) \
                and n.func.attr in mut:
            recv = n.func.value
            if isinstance(recv, ast.Attribute) and recv.attr in tables:
                out.append((site, 'mutating call on class table %s' %
                            ast.unparse(n.func)))
            r = prog.resolve_static(fi.module, recv, fi.module)
            if isinstance(r, Binding) and not (
                    isinstance(recv, ast.Name) and recv.id in _locals(fi)):
                out.append((site, 'mutating call on module-level object %s'
                            % ast.unparse(n.func)))
        if isinstance(n, ast.Call) and isinstance(n.func, ast.Name) and \
                n.func.id == 'setattr' and n.args:
            r = prog.resolve_static(fi.module, n.args[0], fi.module)
            if isinstance(r, ClassInfo) or hasattr(r, 'tree') or (
                    isinstance(n.args[0], ast.Name) and
                    n.args[0].id == 'cls'):
                out.append((site, 'setattr on a class or module'))
    del selfish
    return out


_LOCALS = {}


def _locals(fi):
    k = id(fi.node)
    if k not in _LOCALS or _LOCALS[k][0] is not fi.node:
        names = set()
        a = fi.node.args
        for p in a.posonlyargs + a.args + a.kwonlyargs:
            names.add(p.arg)
        if a.vararg:
            names.add(a.vararg.arg)
        if a.kwarg:
            names.add(a.kwarg.arg)
        for n in ast.walk(fi.node):
            if isinstance(n, ast.Name) and isinstance(n.ctx, ast.Store):
                names.add(n.id)
        _LOCALS[k] = (fi.node, names)
    return _LOCALS[k][1]
