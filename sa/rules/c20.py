"""C20 - header peek reports the type, channel and size the decoder will
use."""
from .. import codec
from .. import framepaths as F
from .. import interp as I
from .. import layout as L
from .. import terms as T
from ..model import AnalysisError
from ..terms import Sym

RULES = {
    'C20.F': 'frame_parts unpacks data[0:k] with a big-endian unsigned '
             'u8,u16,u32 format, k = calcsize = 7, and returns the three '
             'fields in that order',
    'C20.S': 'frame_parts cannot raise: the size-checked unpack\'s '
             'struct.error is handled and yields (0, 0, None)',
    'C20.P': 'the encoder writes the same header form with size = '
             'len(payload) and emits 7 + len(payload) + 1 octets; the '
             'heartbeat literal has size 0 and length 8',
    'C20.D': 'the decoder obtains its header through frame_parts, consumes '
             'size + 8 on the peeked channel, and accepts every payload '
             'size the encoder can produce for each frame kind',
}


def run(chk, ctx):
    for r, t in RULES.items():
        chk.rule(r, t)
    chk.explanation = (
        'Abstract interpretation of frame.frame_parts, frame._marshal and '
        'frame.unmarshal on symbolic inputs; struct-format algebra on the '
        'header formats; interval comparison of the payload sizes the '
        'encoder can emit per frame kind with the sizes the decoder\'s '
        'guards accept.')
    prog = ctx.prog
    fp = prog.function('frame.frame_parts')
    data = codec.buf('data')
    it, outs = codec.run(prog, fp, [data])
    site = '%s:%d' % (fp.module.relpath, fp.node.lineno)
    rets = []
    for o in outs:
        if o.kind != 'return':
            continue
        # a conditional result (helper's joined return) is one return per
        # leaf, each under its guard
        leaves = []

        def walk(t, guards):
            if isinstance(t, Sym) and t.op == 'cond' and len(leaves) < 8:
                walk(t.args[1], guards + [t.args[0]])
                walk(t.args[2], guards + [T.not_(t.args[0])])
                return
            if isinstance(t, tuple) and len(leaves) < 8:
                # a tuple joined component by component: split on the guard
                # its conditional components share
                gs = [c.args[0] for c in t
                      if isinstance(c, Sym) and c.op == 'cond']
                if gs and all(g_ is gs[0] for g_ in gs):
                    g0 = gs[0]
                    pick = lambda c, i: c.args[i] if (
                        isinstance(c, Sym) and c.op == 'cond') else c
                    walk(tuple(pick(c, 1) for c in t), guards + [g0])
                    walk(tuple(pick(c, 2) for c in t),
                         guards + [T.not_(g0)])
                    return
            leaves.append((guards, t))
        walk(o.value, [])
        if len(leaves) == 1:
            rets.append(o)
            continue
        for guards, leaf in leaves:
            st_ = o.state.fork()
            if all(st_.kn.assume(g_) for g_ in guards):
                rets.append(I.Outcome('return', st_, value=leaf))
    raises = [o for o in outs if o.kind == 'raise']
    okr = [o for o in rets if isinstance(o.value, tuple) and
           len(o.value) == 3 and all(isinstance(x, Sym) for x in o.value)]
    fmt = None
    f_ok = False
    if len(okr) == 1:
        v = okr[0].value
        rd = [L.parse_unpack_read(x, data) for x in v]
        if all(rd) and len({r[0] for r in rd}) == 1:
            fmt = rd[0][0]
            f = T.fmt(fmt)
            hi = rd[0][3]
            f_ok = f.norm() == F.ENVELOPE and [r[1] for r in rd] == \
                [0, 1, 2] and rd[0][2] == 0 and hi == f.size == 7
    chk.ob('C20.F', 'frame.frame_parts', f_ok,
           'returns fields of %r read from data[0:7]' % (fmt,), site=site)
    fail = [o for o in rets if o not in okr]
    s_ok = not raises and len(fail) == 1 and fail[0].value == (0, 0, None)
    chk.ob('C20.S', 'frame.frame_parts', s_ok,
           'may raise: %r; short-buffer result: %r' %
           (sorted({o.exc.type_name for o in raises}),
            [T.show(o.value) for o in fail]), site=site)
    # the peek answers from the bytes it is given: a memoising wrapper on
    # its path hashes the header view (a bytearray / writable memoryview
    # receive buffer is unhashable: TypeError / ValueError instead of an
    # answer) and keeps every header seen
    from .. import models
    pfuncs = {fp.qualname: fp}
    for short, _c, _s, _d in it.calls:
        f_ = prog.functions.get('pamqp.' + short.split(' ')[0])
        if f_ is not None:
            pfuncs[f_.qualname] = f_
    caching, unknown_deco = models.wrappers(prog, pfuncs.values())
    from .. import controls
    controls.caching_wrappers_control(chk)
    chk.ob('C20.S', 'frame.frame_parts path wrappers', not caching,
           '%d function(s) on the peek path, none memoised' % len(pfuncs)
           if not caching else 'memoised: %s (the argument is hashed: a '
           'buffer view that is not hashable makes the peek raise)' %
           caching, site=site)
    if unknown_deco:
        chk.undecide('C20.S', 'decorators without a model',
                     '; '.join(unknown_deco[:3]))
    # encoder envelope
    fm = ctx.envelope_function()
    it2, outs2 = codec.run(prog, fm, [Sym('param', 'frame_type'),
                                     Sym('param', 'channel_id'),
                                     Sym('typed', Sym('param', 'payload'),
                                         ('bytes',), None)])
    j = L.joined_return(it2, outs2)
    env = L.parse_envelope(j.value) if j is not None else None
    site2 = '%s:%d' % (fm.module.relpath, fm.node.lineno)
    p_ok = False
    if env is not None:
        wf = T.fmt(env['fmt'])
        plen = L.payload_length(env['payload'])
        total = T.add(T.add(wf.size, plen), T.length(env['end']))
        p_ok = wf.norm() == F.ENVELOPE and \
            env['type'] is Sym('param', 'frame_type') and \
            env['channel'] is Sym('param', 'channel_id') and \
            T.sub(env['size'], plen) == 0 and \
            T.sub(total, T.add(env['size'], 8)) == 0
    chk.ob('C20.P', fm.short, p_ok,
           'writes %s' % (T.show(j.value)[:120] if j else None),
           detail={'expected': 'pack(u8 type, u16 channel, u32 len(payload))'
                   ' ++ payload ++ one end octet'}, site=site2)
    # every frame kind goes through that envelope exactly once: the output
    # of frame.marshal is header(size = len(payload)) ++ payload ++ end
    from .. import hdrlayout as H
    pol = codec.FramePolicy(prog)

    def one_envelope(name, term):
        env_ = L.parse_envelope(term) if term is not None else None
        okk_ = env_ is not None and T.sub(
            env_['size'], L.payload_length(env_['payload'])) == 0 and \
            T.fmt(env_['fmt']).norm() == F.ENVELOPE and \
            isinstance(env_['end'], bytes) and len(env_['end']) == 1
        chk.ob('C20.P', 'frame.marshal(%s)' % name, okk_,
               'one envelope whose size field is the payload length' if okk_
               else 'output is %s' % T.show(term)[:140],
               site='pamqp/frame.py::marshal')

    it3 = ctx.interp(pol)
    st3 = ctx.new_state()
    bref = it3.alloc(st3, I.InstObj(prog.cls('body.ContentBody'),
                                    {'value': Sym('field', 'value')}))
    outs3 = it3.run_function(prog.function('frame.marshal'),
                             [bref, Sym('param', 'channel_id')], {}, st3)
    j3 = L.joined_return(it3, outs3)
    one_envelope('ContentBody', j3.value if j3 is not None else None)
    he = H.encode(ctx, pol)
    one_envelope('ContentHeader', he.get('term'))
    keys0 = ctx.index_mapping()
    if keys0:
        me = L.method_encode(ctx, pol, keys0[0][1])
        one_envelope(keys0[0][1].short, me.get('term'))
    st_it = ctx.static()
    hb = st_it.class_attr(prog.cls('heartbeat.Heartbeat'), 'value')
    import struct
    hb_ok = isinstance(hb, bytes) and len(hb) == 8 and \
        struct.unpack('>BHI', hb[:7]) == (8, 0, 0)
    chk.ob('C20.P', 'heartbeat literal', hb_ok, 'Heartbeat.value = %r' %
           (hb,), site='pamqp/heartbeat.py')
    # decoder side
    keys = [k for k, _ in ctx.index_mapping()]
    f = F.UnmarshalFacts(ctx, keys[0] if keys else None)
    uses_fp = any(c[0].startswith('frame.frame_parts') and
                  'frame.unmarshal' in c[1] for c in f.it.calls)
    if not uses_fp:
        # ... or both obtain it from the same helper
        from_peek = {c[0].split(' ')[0] for c in it.calls
                     if 'frame.frame_parts' in c[1]}
        from_dec = {c[0].split(' ')[0] for c in f.it.calls
                    if 'frame.unmarshal' in c[1]}
        uses_fp = bool((from_peek & from_dec) - {'frame.frame_parts'})
    chk.ob('C20.D', 'frame.unmarshal uses frame_parts', uses_fp,
           'frame_parts (or the helper it reads the header with) is called '
           'from frame.unmarshal',
           site='pamqp/frame.py::unmarshal')
    if not F.header_or_violation(chk, 'C20.D', f):
        return
    size_t = f.hfield(2)
    produced = {'method': (4, None), 'header': (14, None),
                'body': (0, None), 'heartbeat': (0, 0)}
    for r in f.rets:
        kind = f.kind_of(r)
        if kind not in produced:
            continue
        acc = r.kn.lin_interval(size_t)
        lo, hi = produced[kind]
        # u32 field bounds what can be written at all
        a_lo = acc[0] if acc[0] is not None else 0
        a_hi = acc[1] if acc[1] is not None else (1 << 32) - 1
        e_hi = hi if hi is not None else (1 << 32) - 1
        okk = a_lo <= lo and e_hi <= a_hi
        n_ok = T.sub(r.n, T.add(size_t, 8)) == 0 or \
            r.kn.decide(T.compare('eq', r.n, T.add(size_t, 8))) is True
        chk.ob('C20.D', '%s frames' % kind, okk and n_ok and
               r.ch is f.hfield(1),
               'decoder accepts payload sizes [%s, %s]; the encoder emits '
               'sizes from %d' % (a_lo, a_hi, lo),
               detail={'consumed': T.show(r.n)[:60]},
               site='pamqp/frame.py::unmarshal')
        # the size + 1 octets read after the header are decoded as they
        # were sent (an edited payload is a different frame: encoder output
        # whose bytes match the edit is refused or shortened)
        from .c06 import payload_edits
        edits = payload_edits(f, r, f.data)
        chk.ob('C20.D', '%s frames payload' % kind, not edits,
               'the payload decoded is the slice the size field names'
               if not edits else 'the payload goes through %s before it is '
               'decoded: encoder output ending in those octets is not '
               'accepted as sent' % '; '.join(sorted(set(edits))[:2]),
               site='pamqp/frame.py::unmarshal')
    # every method frame the encoder produces is found again: the index a
    # class writes is the key it is registered under
    st0_ = ctx.static()
    mapping_ = ctx.index_mapping()
    for k_, ci_ in mapping_:
        if not hasattr(ci_, 'qualname'):
            continue
        own_ = st0_.class_attr(ci_, 'index')
        if own_ != k_ and own_ not in [
                kk for kk, cc in mapping_ if cc is ci_]:
            chk.ob('C20.D', '%s registration' % ci_.short, False,
                   'the class writes index %s but is registered under '
                   '%s: the frame the encoder produces is refused by the '
                   'decoder' % ('0x%08X' % own_ if isinstance(own_, int)
                                else own_, '0x%08X' % k_),
                   site='pamqp/commands.py')
    chk.floor('C20.D', 5, 'decoder facts')
