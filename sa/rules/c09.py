"""C09 - every decode failure is an UnmarshalingException.
May-raise analysis of frame.unmarshal: every raise outcome that escapes the
abstract interpretation (after try/except filtering with the builtin + repo
exception hierarchy) must be the library's exception."""
from .. import framepaths as F
from .. import interp as I
from .. import terms as T
from ..model import AnalysisError, ClassInfo

RULES = {
    'C09.X': 'escape set of frame.unmarshal is a subset of '
             '{UnmarshalingException}: no struct.error, Unicode/Value/'
             'Overflow/OS/Key/Index/Type error escapes',
    'C09.D': 'constructing the object a frame is decoded into cannot raise',
}
OUTSIDE = {'RecursionError', 'MemoryError'}


def _key_absent(o):
    return any(isinstance(a, T.Sym) and a.op == 'notin'
               for a in o.state.kn.atoms)


def escape_key(o):
    chain = list(o.exc.chain)
    origin = chain[-1] if chain else '?'
    layer = chain[1] if len(chain) > 1 else chain[0] if chain else '?'
    return 'escape/%s/%s<-%s' % (o.exc.type_name, origin, layer)


def run(chk, ctx):
    for r, t in RULES.items():
        chk.rule(r, t)
    chk.explanation = (
        'Abstract interpretation of frame.unmarshal on a symbolic buffer, '
        'once for the non-method arms and once per method class (the '
        'dispatch table lookup specialised to each of the 64 keys). Every '
        'primitive that can fail (size-checked unpack, UTF-8 decode, dict '
        'subscript, indexing, shifts, fromtimestamp ...) contributes a raise '
        'outcome per the library models; try/except clauses are interpreted '
        'with the exception class hierarchy; recursive decoders use '
        'inductive summaries (fixpoint). The escape set is what remains.')
    prog = ctx.prog
    ue = prog.cls('exceptions.UnmarshalingException')
    escapes = {}
    n_out = 0
    n_handled_sites = 0

    def collect(f, only_method):
        nonlocal n_out
        for o in f.raises:
            in_method = 'frame._unmarshal_method_frame' in o.exc.chain
            if not only_method and in_method and _key_absent(o):
                # the unspecialised run is the only one that takes the
                # "no such method" path of the dispatch-table lookup
                in_method = False
            if only_method != in_method:
                continue
            n_out += 1
            t = o.exc.type
            okk = isinstance(t, ClassInfo) and prog.is_subclass(t, ue)
            name = o.exc.type_name
            if name in OUTSIDE:
                continue
            k = escape_key(o)
            cur = escapes.get(k)
            if cur is None:
                escapes[k] = (okk, o)

    handled = {}

    def collect_handled(f):
        for exc, where in f.it.handled:
            if not where.startswith('frame.'):
                continue  # local handlers inside decoders
            origin = exc.chain[-1] if exc.chain else '?'
            handled.setdefault('handled/%s/%s@%s' % (exc.type_name, origin,
                                                     where), exc)

    f0 = F.UnmarshalFacts(ctx, None)
    collect(f0, False)
    collect_handled(f0)
    keys = [k for k, _ in ctx.index_mapping()]
    for k in keys:
        fk = F.UnmarshalFacts(ctx, k, assume_type=1)
        collect(fk, True)
        collect_handled(fk)
    for k, exc in sorted(handled.items()):
        chk.ob('C09.X', k, True,
               '%s from %s (%s) is caught at the frame layer and converted' %
               (exc.type_name, exc.site, exc.why[:60]), site=exc.site)
    for k, (okk, o) in sorted(escapes.items()):
        chk.ob('C09.X', k, okk,
               '%s raised at %s (%s) reaches the caller of frame.unmarshal' %
               (o.exc.type_name, o.exc.site, o.exc.why[:70]) if not okk else
               'UnmarshalingException raised at %s' % o.exc.site,
               detail={'call_chain': ' <- '.join(reversed(o.exc.chain))},
               site=o.exc.site)
    chk.floor('C09.X', 40, 'raise outcomes analysed', count=n_out)
    # default construction of decoded objects
    from .c01 import default_construction
    for _, ci in ctx.index_mapping():
        if isinstance(ci, ClassInfo):
            saved = chk.rule_counts.get('C01.D', 0)
            default_construction_c09(chk, ctx, ci)
    for short in ('header.ContentHeader', 'heartbeat.Heartbeat',
                  'header.ProtocolHeader'):
        default_construction_c09(chk, ctx, prog.cls(short))
    chk.floor('C09.D', 64, 'constructors')
    chk.units['raise_outcomes'] = n_out
    chk.units['method_classes'] = len(keys)
    chk.assume('RecursionError / MemoryError are outside the property '
               '(nesting depth <= 64)')
    chk.assume('the warnings filters of the process do not turn a warning '
               'into an exception (no -W error): warnings.warn is modelled '
               'as returning; on the unchanged tree decoding '
               'Basic.RecoverAsync emits a DeprecationWarning')
    chk.assume('the decimal context is the default one (no trap for the '
               'scale range 0..255)')
    chk.assume('inputs are bytes objects')


def default_construction_c09(chk, ctx, ci):
    it = ctx.interp()
    st = ctx.new_state()
    it.pending, it.stack, it.cur_module = [], [], ci.module
    try:
        it.instantiate(ci, [], {}, st, ci.node)
        problems = ['%s at %s' % (o.exc.type_name, o.exc.site)
                    for o in it.flush_pending()]
    except I._NoReturn:
        problems = ['constructor cannot complete']
    chk.ob('C09.D', ci.short + '()', not problems,
           'no raise reachable with default arguments' if not problems
           else 'may raise: %r' % (problems,),
           site='%s:%d' % (ci.module.relpath, ci.node.lineno))


def on_unbounded_recursion(chk, err):
    """cli hook: the analysis stopped at a recursive function that is not
    one of the table decoders."""
    for r, t in RULES.items():
        chk.rule(r, t)
    chk.ob('C09.X', 'recursion through %s' % err.func_short, False,
           '%s re-enters itself outside the table decoders: RecursionError (not among the caught decode errors) reaches the caller for inputs whose table nesting is 0' % err.func_short, site=err.site)
