"""C04 - encoded bytes equal the AMQP 0-9-1 wire format (independent
reference).  The residual layout of frame.marshal for every frame kind is
compared with the reference layout derived from /verif/spec."""
from .. import codec
from .. import hdrlayout as H
from .. import interp as I
from .. import layout as L
from .. import pairs
from .. import reference as R
from .. import tables
from .. import terms as T
from ..model import AnalysisError
from ..terms import Sym

RULES = {
    'C04.M': 'method frame = Envelope(1, channel, u32(class<<16|method) ++ '
             'arguments in specification order, consecutive bits LSB-first '
             'in shared octets)',
    'C04.H': 'content header = Envelope(2, channel, u16 60, u16 0, u64 body '
             'size, u16 flags MSB-first from bit 15, present properties in '
             'specification order)',
    'C04.B': 'content body = Envelope(3, channel, value)',
    'C04.K': 'heartbeat = 08 00 00 00 00 00 00 CE',
    'C04.V': 'protocol header = "AMQP" 00 major minor revision, no envelope',
    'C04.X': 'each primitive encoder emits the reference encoding of its '
             'wire type / field-value tag (width, signedness, big-endian, '
             'length prefix counts the UTF-8 bytes that follow)',
    'C04.T': 'table entries are emitted in ascending key order as name / '
             'type tag / value',
}

ENVELOPE = ('big', ((1, False, 'int'), (2, False, 'int'), (4, False,
                                                          'int')))


def check_envelope(chk, rule, cons, env, ftype, site=None):
    hf = T.fmt(env['fmt'])
    plen = L.payload_length(env['payload'])
    okk = hf.norm() == ENVELOPE and env['type'] == ftype and \
        env['channel'] is Sym('param', 'channel_id') and \
        T.sub(env['size'], plen) == 0 and env['end'] == b'\xce'
    chk.ob(rule, cons + ' envelope', okk,
           'header %r type=%s channel=%s size=%s end=%r' %
           (env['fmt'], T.show(env['type']), T.show(env['channel']),
            T.show(env['size'])[:80], env['end']),
           detail={'expected': 'u8 %d, u16 channel, u32 len(payload), '
                   'payload, 0xCE' % ftype}, site=site)
    return okk


def enc_type_names(pol, short):
    return pol.enc_funcs.get('pamqp.' + short, ())


def run(chk, ctx):
    for r, t in RULES.items():
        chk.rule(r, t)
    chk.explanation = (
        'The byte layout that frame.marshal produces for each of the 64 '
        'method classes, the content header, body, heartbeat and protocol '
        'header is obtained as a residual term of the abstract interpreter '
        '(argument values symbolic) and compared with a reference layout '
        'generated from the independently transcribed specification tables '
        'by the AMQP bit-packing rule; each primitive encoder is compared '
        'with the reference encoding of its type by struct-format algebra.')
    chk.trust('/verif/spec tables and the reference packing rule in '
              'sa/reference.py')
    prog, spec = ctx.prog, ctx.spec
    pol = codec.FramePolicy(prog)
    # ---- methods
    n = 0
    for m in spec.methods():
        q = 'commands.' + m.py_name
        ci = prog.classes.get('pamqp.' + q)
        if ci is None:
            chk.ob('C04.M', q, False, 'class missing')
            continue
        n += 1
        site = '%s:%d' % (ci.module.relpath, ci.node.lineno)
        e = L.method_encode(ctx, pol, ci)
        if e['term'] is None:
            chk.ob('C04.M', q, False, 'frame.marshal never returns',
                   site=site)
            continue
        env = L.parse_envelope(e['term'])
        if env is None:
            chk.undecide('C04.M', q, 'not an envelope: ' +
                         T.show(e['term'])[:160])
            continue
        check_envelope(chk, 'C04.M', q, env, 1, site)
        payload = env['payload']
        first = payload[0] if payload else None
        idx_ok = isinstance(first, bytes) and len(first) >= 4 and \
            first[:4] == m.index.to_bytes(4, 'big')
        body = []
        if isinstance(first, bytes):
            body = ([first[4:]] if first[4:] else []) + payload[1:]
        els = L.parse_encode_elements(body, pol)
        ref = R.method_layout(m)
        got = []
        for el in els:
            if el[0] == 'field':
                names = enc_type_names(pol, el[2])
                got.append(('field', el[1], names))
            elif el[0] == 'bits':
                got.append(('bits', el[1]))
            elif el[0] == 'bits-guard':
                got.append(('bits-guard', el[1]))
                chk.ob('C04.M', q + ' bit values', False,
                       'bit %d is set iff %s, not iff argument %s is true '
                       '(the integers 0 / 1 are accepted bit values)' % (
                           el[1][0][0], el[1][0][2], el[1][0][1]),
                       site=site)
            else:
                got.append(('other', T.show(el[1])[:80]))
        same = len(got) == len(ref)
        if same:
            for g, r in zip(got, ref):
                if r[0] == 'field':
                    if not (g[0] == 'field' and g[1] == r[1] and
                            r[2] in g[2]):
                        same = False
                else:
                    if not (g[0] == 'bits' and tuple(g[1]) == r[1]):
                        same = False
        if any(g[0] == 'other' for g in got):
            chk.undecide('C04.M', q, 'unrecognised element: %r' % (got,))
            continue
        chk.ob('C04.M', q + ' payload', idx_ok and same,
               'index %s then %r' % (first[:4].hex() if isinstance(
                   first, bytes) else T.show(first)[:40],
                   [(g[0], g[1]) for g in got]),
               detail={'expected_index': '%08x' % m.index,
                       'expected': [(r[0], r[1]) + ((r[2],) if r[0] ==
                                                    'field' else ())
                                    for r in ref]}, site=site)
    chk.floor('C04.M', 128, 'method obligations')

    # ---- content header
    e = H.encode(ctx, pol)
    # the bytes are a function of the header as it is now: encoding keeps
    # nothing on the object to be replayed by a later call
    from .c12 import input_effects
    kept_ = ['%s %s at %s' % (b_.kind, str(b_.detail)[:40], b_.site)
             for b_ in input_effects(e['interp'], e['input_ids'])]
    chk.ob('C04.H', 'content header encoding keeps nothing', not kept_,
           'frame.marshal stores nothing on the header or its properties'
           if not kept_ else 'frame.marshal stores on the object it encodes '
           '(%s): a later call emits what was cached, not the current '
           'properties' % '; '.join(sorted(set(kept_))[:2]),
           site='pamqp/header.py')
    if e.get('env') is None:
        chk.undecide('C04.H', 'content header', 'not an envelope')
    else:
        env = e['env']
        check_envelope(chk, 'C04.H', 'content header', env, 2)
        parts = env['payload']
        ff_ = L.fixed_fields(parts, [2, 2, 8])
        okf = False
        fixed = None
        rest = parts[1:]
        if ff_ is not None:
            fixed, rest = ff_
            okf = fixed[0] == 60 and fixed[1] == 0 and \
                isinstance(fixed[2], tuple) and fixed[2][0] is False and \
                fixed[2][1] == 'big' and \
                fixed[2][2] is Sym('field', 'body_size')
        chk.ob('C04.H', 'fixed part', okf, 'written %s' % (
            T.show(tuple(x if not isinstance(x, tuple) else x[2]
                         for x in fixed))[:100] if fixed is not None
            else T.show(tuple(parts[:2]))[:100]),
            detail={'expected': 'u16 60, u16 0, u64 body size'})
        fl = rest[0] if rest else None
        props = spec.properties()
        okw = isinstance(fl, Sym) and fl.op == 'pack' and \
            T.fmt(fl.args[0]).norm() == ('big', ((2, False, 'int'),))
        gk = H.parse_flag_term(fl.args[1][0]) if okw else None
        chk.ob('C04.H', 'flag word', okw and gk is not None and
               not (len(rest) > 1 and isinstance(rest[1], Sym) and
                    rest[1].op == 'pack'),
               'one big-endian u16 flag word: %s' % T.show(fl)[:80])
        if gk is not None:
            guards = {k: g for g, k in gk}
            opts = rest[1:]
            okall = len(opts) == len(props)
            for i, (sname, py, wtype, bit) in enumerate(props):
                p = opts[i] if i < len(opts) else None
                okp = False
                if isinstance(p, Sym) and p.op == 'opt' and \
                        len(p.args[1]) == 1 and p.args[2] == ():
                    el = p.args[1][0]
                    okp = isinstance(el, Sym) and el.op == 'enc' and \
                        el.args[1] is Sym('field', py) and \
                        wtype in enc_type_names(pol, el.args[0]) and \
                        guards.get(bit) is p.args[0] and \
                        H.presence_ok(p.args[0]) == py
                chk.ob('C04.H', 'property %d %s' % (i, sname), okp,
                       'position %d: %s' % (i, T.show(p)[:120]),
                       detail={'expected': '%s as %s under flag bit %s' %
                               (py, wtype, hex(bit))})
                okall = okall and okp
            chk.ob('C04.H', 'property count', len(opts) == len(props) and
                   len(gk) == len(props), '%d optional fields, %d flags' %
                   (len(opts), len(gk)))
    # a header built without properties encodes the empty property set:
    # the default properties object must be a fresh, default-valued one
    hci_ = prog.cls('header.ContentHeader')
    it_ = ctx.interp()
    st_ = ctx.new_state()
    it_.pending, it_.stack, it_.cur_module = [], [], hci_.module
    href_ = it_.instantiate(hci_, [], {}, st_, hci_.node)
    pr_ = it_.obj(st_, href_).attrs.get('properties')
    fresh_ = isinstance(pr_, T.Ref) and pr_.id in st_.store and \
        not it_.obj(st_, pr_).shared
    chk.ob('C04.H', 'default properties', fresh_,
           'ContentHeader() gets its own default Basic.Properties (so it '
           'always encodes flags 0)' if fresh_ else
           'ContentHeader() shares one Basic.Properties object: what it '
           'encodes depends on earlier decodes',
           site='pamqp/header.py')
    chk.floor('C04.H', 17, 'content-header obligations')

    # ---- body, heartbeat, protocol header
    def marshal_of(cls_short, attrs):
        it = ctx.interp(pol)
        st = ctx.new_state()
        ref = it.alloc(st, I.InstObj(prog.cls(cls_short), attrs))
        outs = it.run_function(prog.function('frame.marshal'),
                               [ref, Sym('param', 'channel_id')], {}, st)
        j = L.joined_return(it, outs)
        return None if j is None else j.value

    v = marshal_of('body.ContentBody', {'value': Sym('field', 'value')})
    env = L.parse_envelope(v) if v is not None else None
    if env is None and isinstance(v, Sym) and v.op == 'cond':
        alts = [a for a in v.args[1:]]
        bad = [a for a in alts if L.parse_envelope(a) is None or
               len(L.parse_envelope(a)['payload']) != 1 or
               L.parse_envelope(a)['payload'][0] is not
               Sym('field', 'value')]
        chk.ob('C04.B', 'content body envelope', not bad,
               'depending on %s the body is emitted as %s' %
               (T.show(v.args[0])[:60], T.show(bad[0])[:100] if bad else
                'one envelope'),
               detail={'expected': 'one frame: header(3, channel, '
                       'len(value)) ++ value ++ 0xCE for every value'})
    elif env is None:
        chk.undecide('C04.B', 'content body', 'not an envelope: %s' %
                     T.show(v)[:120])
    else:
        check_envelope(chk, 'C04.B', 'content body', env, 3)
        chk.ob('C04.B', 'payload', len(env['payload']) == 1 and
               env['payload'][0] is Sym('field', 'value'),
               'payload = %s' % T.show(tuple(env['payload']))[:100],
               detail={'expected': 'the body value unchanged'})
    v = marshal_of('heartbeat.Heartbeat', {})
    chk.ob('C04.K', 'heartbeat', v == bytes.fromhex('0800000000000000ce')
           [0:0] + bytes.fromhex('08000000000000ce'),
           'marshal -> %s' % (v.hex() if isinstance(v, bytes)
                              else T.show(v)[:80]),
           detail={'expected': '08000000000000ce'})
    v = marshal_of('header.ProtocolHeader',
                   {k: Sym('field', k) for k in
                    ('major_version', 'minor_version', 'revision')})
    okv = False
    items = L.flat(v) if v is not None else []
    if len(items) == 4 and items[0] == ('const', b'AMQP\x00'):
        okv = all(it[0] == 'fld' and it[1] == 1 and it[2] is False and
                  it[4] == 'int' and it[5] is Sym('field', nm)
                  for it, nm in zip(items[1:], ('major_version',
                                                'minor_version',
                                                'revision')))
    chk.ob('C04.V', 'protocol header', okv, 'marshal -> %s' %
           T.show(v)[:120],
           detail={'expected': "b'AMQP' ++ u8 0, major, minor, revision"})

    # ---- primitives against the reference encodings
    enc, dec = pairs.methods_tables(ctx)
    for wtype in ('octet', 'short', 'long', 'longlong', 'timestamp',
                  'shortstr', 'longstr', 'table'):
        fi = enc.get(wtype)
        if fi is None:
            chk.ob('C04.X', 'type ' + wtype, False, 'no encoder in METHODS')
            continue
        ref = R.primitive_reference(spec, wtype)
        E = pairs.enc_desc(ctx, fi)
        site = '%s:%d' % (fi.module.relpath, fi.node.lineno)
        for okk, fact in reference_check(E, ref):
            if okk is None:
                chk.undecide('C04.X', '%s (%s)' % (wtype, fi.short), fact)
            else:
                chk.ob('C04.X', '%s (%s)' % (wtype, fi.short), okk, fact,
                       detail={'reference': ref}, site=site)
    from .. import tsrules
    for cons, okk, why in tsrules.decimal_sign_rule(ctx):
        if okk is None:
            chk.undecide('C04.X', cons, why)
            continue
        chk.ob('C04.X', cons, okk, why, site='pamqp/encode.py::decimal')
    tsres, _n = tsrules.timestamp_operands(ctx)
    for cons, okk, why in tsres:
        chk.ob('C04.X', cons, okk, why, site='pamqp/encode.py::timestamp')
    for cons, okk, why in tsrules.table_key_rule(ctx, exact=True):
        if okk is not None:
            chk.ob('C04.T', cons, okk, why,
                   site='pamqp/encode.py::field_table')
    # which Python type gets which tag (the reference encoder's dispatch)
    vfi, vP, varms, _vrej, _vit = tables.value_arms(ctx)
    vsite = '%s:%d' % (vfi.module.relpath, vfi.node.lineno)
    for pytype, tag in spec.tables['encoder_arms']:
        arm = tables.first_accepting(varms, vP, pytype)
        if arm is None:
            chk.ob('C04.X', 'tag of %s values' % pytype, False,
                   'no arm accepts this type', site=vsite)
            continue
        if tag == 'ladder':
            okk = arm.tag == b'' and \
                arm.callee == 'encode.table_integer' and arm.operand is vP
        else:
            okk = arm.tag == tag.encode('latin-1') and \
                (arm.operand is vP or arm.callee == '')
        chk.ob('C04.X', 'tag of %s values' % pytype, okk,
               'first accepting test %r -> tag %r via %s' % (
                   sorted(tables.arm_test(arm, vP)), arm.tag,
                   arm.callee or 'no payload'),
               detail={'reference_tag': tag}, site=vsite)
    tables.check_tag_encoders(chk, ctx, 'C04.X')
    # which tag an integer gets is part of the bytes: the reference encoder
    # takes the first fitting type of the documented order
    from .c11 import first_fit
    from ..isets import ISet
    lad = tables.ladder_arms(ctx, False)
    for pr in lad['problems']:
        chk.undecide('C04.X', 'integer tags', pr)
    want, _rej = first_fit(spec, spec.tables['integer_ladder'])
    got = {}
    for s_, arm in lad['arms']:
        tg = arm.tag.decode('latin-1')
        got[tg] = got.get(tg, ISet.empty()).union(s_)
    for t, mine, _rng in want:
        g = got.get(t, ISet.empty())
        chk.ob('C04.X', 'integer tag %r' % t, g == mine,
               'integers emitted with tag %r: %r' % (t, g),
               detail={'reference': repr(mine)}, site='pamqp/encode.py')
    tables.check_table_entry_order(chk, ctx, 'C04.T')
    chk.floor('C04.X', 8 + 10, 'primitive encoders')
    chk.units['classes'] = n
    chk.note('longlong is packed with a signed 64-bit format; the reference '
             'agrees with it on every value both can represent')


def reference_check(E, ref):
    """Compare every return path of an encoder with the reference
    encoding.  Yields (ok, fact)."""
    if not E.paths:
        yield None, 'encoder has no normal return'
        return
    for p in E.paths:
        segs = p.segs
        if ref[0] == 'int':
            _, size, signed = ref
            okk = len(segs) == 1 and segs[0].kind == 'fld' and \
                segs[0].size == size and segs[0].fkind == 'int' and \
                segs[0].signed == signed and \
                (size == 1 or segs[0].order == 'big') and \
                T.mentions(segs[0].arg, lambda t: t is p.P)
            yield okk, 'emits %r' % (segs,)
        elif ref[0] == 'prefixed' and ref[2] == 'utf8':
            n = ref[1]
            okk = len(segs) == 2 and segs[0].kind == 'fld' and \
                segs[0].size == n and segs[0].signed is False and \
                (n == 1 or segs[0].order == 'big') and \
                segs[1].kind == 'utf8' and segs[1].of is p.P and \
                segs[0].operand == ('len', segs[1].term)
            yield okk, 'emits %r' % (segs,)
        elif ref[0] == 'prefixed' and ref[2] == 'entries':
            n = ref[1]
            if len(segs) == 1 and segs[0].kind == 'const':
                yield segs[0].data == b'\x00' * n, \
                    'empty table emitted as %r' % (segs[0].data,)
            else:
                okk = len(segs) == 2 and segs[0].kind == 'fld' and \
                    segs[0].size == n and segs[0].signed is False and \
                    segs[0].order == 'big' and segs[1].kind == 'elems' and \
                    segs[0].operand == ('len', segs[1].term)
                yield okk, 'emits %r' % (segs,)
        else:
            yield None, 'no reference form for %r' % (ref,)
