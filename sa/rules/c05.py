"""C05 - decoder accepts every well-formed wire frame a peer may send
(structural clauses: tag table, type table, no validation on receive,
long-string fallback, nothing value-dependent refused, timestamp rule)."""
from .. import codec
from .. import framepaths as F
from .. import interp as I
from .. import pairs
from .. import tables
from .. import terms as T
from ..model import AnalysisError, ClassInfo, FuncInfo
from ..terms import Sym

RULES = {
    'C05.T': 'TABLE_MAPPING has exactly the 19 documented tags and each '
             'decoder has the width, signedness and result type of the '
             'field-value grammar (V and 0x00 consume nothing)',
    'C05.M': 'decode.METHODS covers every wire type used by the 64 classes '
             'and 14 properties with the specified width and signedness',
    'C05.V': 'no validation on receive: validate() is reachable from '
             'frame.unmarshal only through the argument-less constructor',
    'C05.S': 'long strings that are not UTF-8 come back as the raw bytes '
             'with the same consumed count; no UnicodeDecodeError escapes',
    'C05.F': 'nothing value-dependent is refused: every explicit raise in '
             'the content decoders is a re-labelled primitive failure or '
             'depends only on table membership or buffer shape',
    'C05.Z': 'timestamp: the only value-dependent branch is the '
             '> 0xFFFFFFFF milliseconds rule; a conversion failure '
             'propagates as an exception',
}


def int_read_ok(dp, ref):
    """One return path of a fixed-width decoder against the grammar."""
    rds = list(dp.reads.values())
    if len(rds) != 1:
        return False, 'reads %r' % (rds,)
    r = rds[0]
    want_kind = {'float': 'float'}.get(ref['kind'], 'int')
    okk = r.offset == 0 and r.size == ref['size'] and \
        r.fkind == want_kind and (r.size == 1 or r.order == 'big') and \
        (want_kind == 'float' or r.signed == ref.get('signed')) and \
        dp.consumed == ref['size']
    return okk, 'reads %r, consumed %s' % (r, T.show(dp.consumed))


def prefixed_ok(dp, prefix):
    rds = [r for r in dp.reads.values() if r.offset == 0]
    if len(rds) != 1:
        return False, 'prefix reads %r' % (rds,)
    r = rds[0]
    okk = r.size == prefix and r.signed is False and \
        (r.size == 1 or r.order == 'big')
    return okk, 'prefix %r' % (r,), r


def run(chk, ctx):
    for r, t in RULES.items():
        chk.rule(r, t)
    chk.explanation = (
        'The tag and type dispatch tables are extracted as literals; every '
        'decoder is interpreted abstractly on a symbolic buffer and its '
        'reads (format, offset, signedness), consumed count and result type '
        'are compared with the transcribed field-value grammar; explicit '
        'raise statements of the content decoders are classified by the '
        'condition they are control-dependent on; the call log of '
        'frame.unmarshal is searched for validate() calls. Decides that no '
        'well-formed form is refused or mis-sized for structural reasons; '
        'the numerical values of library conversions are not decided.')
    prog, spec = ctx.prog, ctx.spec
    tags = spec.tables['field_tags']
    decs, dups = tables.tag_decoders(ctx)
    want_tags = {t.encode('latin-1') for t in tags}
    chk.ob('C05.T', 'TABLE_MAPPING keys', set(decs) == want_tags and
           not dups,
           '%d tags: missing %r, unexpected %r, duplicated %r' %
           (len(decs), sorted(want_tags - set(decs)),
            sorted(set(decs) - want_tags), dups),
           site='pamqp/decode.py')
    for tname, ref in sorted(tags.items()):
        tag = tname.encode('latin-1')
        d = decs.get(tag)
        cons = 'tag %r' % tag
        if not isinstance(d, FuncInfo):
            chk.ob('C05.T', cons, False, 'no decoder')
            continue
        D = pairs.dec_desc(ctx, d)
        site = '%s:%d' % (d.module.relpath, d.node.lineno)
        if not D.paths:
            chk.ob('C05.T', cons, False, '%s never returns' % d.short,
                   site=site)
            continue
        kind = ref['kind']
        for dp in D.paths:
            if kind in ('int', 'float', 'bool', 'timestamp'):
                okk, fact = int_read_ok(dp, ref)
                if okk and kind == 'bool':
                    # grammar: 0 = FALSE, anything else = TRUE
                    v = dp.value
                    rd0 = list(dp.reads.values())[0].term
                    okk = isinstance(v, Sym) and v.op == 'ne' and \
                        v.args[0] is rd0 and v.args[1] == 0
                    fact += '; value = %s' % T.show(v)[:60]
            elif kind == 'void':
                okk = dp.consumed == 0 and dp.value is None and \
                    not dp.reads
                fact = 'consumed %s, value %s' % (T.show(dp.consumed),
                                                  T.show(dp.value))
            elif kind == 'decimal':
                rds = sorted(dp.reads.values(), key=lambda r: r.offset
                             if isinstance(r.offset, int) else 99)
                okk = len(rds) == 2 and rds[0].offset == 0 and \
                    rds[0].size == 1 and rds[0].signed is False and \
                    rds[1].offset == 1 and rds[1].size == 4 and \
                    rds[1].signed is True and rds[1].order == 'big' and \
                    dp.consumed == 5
                fact = 'reads %r, consumed %s' % (rds, T.show(dp.consumed))
            elif kind == 'array':
                rd = None
                for lp in D.interp.loops:
                    if (lp['func'] is d or d.short in lp.get('chain', ())) \
                            and isinstance(lp['test'], Sym) \
                            and lp['test'].op == 'lt':
                        rds = pairs.find_reads(lp['test'].args[1], D.B)
                        if len(rds) == 1:
                            rd = list(rds.values())[0]
                            endt = lp['test'].args[1]
                okk = rd is not None and rd.offset == 0 and \
                    rd.size == ref['prefix'] and rd.signed is False and \
                    rd.order == 'big' and \
                    T.sub(endt, T.add(rd.term, ref['prefix'])) == 0
                fact = 'elements read until the cursor reaches %s' % (
                    T.show(endt)[:60] if rd is not None else '?')
                if rd is None:
                    chk.undecide('C05.T', cons, 'no element loop with a '
                                 'cursor < end test found in %s or the '
                                 'helpers it runs' % d.short)
                    continue
            elif kind in ('longstr', 'bytes', 'table'):
                res = prefixed_ok(dp, ref['prefix'])
                okk, fact = res[0], res[1]
                if okk and kind in ('longstr', 'bytes', 'table'):
                    want = T.add(res[2].term, ref['prefix'])
                    okk = T.sub(dp.consumed, want) == 0
                    fact += ', consumed %s' % T.show(dp.consumed)[:60]
            else:
                chk.undecide('C05.T', cons, 'no reference for ' + kind)
                continue
            chk.ob('C05.T', '%s (%s)' % (cons, d.short), okk, fact,
                   detail={'grammar': ref}, site=site)
        kinds = set()
        for dp in D.paths:
            k = dp.value_kind()
            kinds |= k if k else {'?'}
        want = ref['py']
        if kind == 'longstr':
            okt = kinds == {'str', 'bytes'} or kinds == {'str'}
        else:
            okt = kinds == {want}
        chk.ob('C05.T', cons + ' result type', okt,
               '%s returns %s' % (d.short, sorted(kinds)),
               detail={'expected': want}, site=site)
    chk.floor('C05.T', 19 * 2, 'tag facts')

    # ---- METHODS type table
    enc, dec = pairs.methods_tables(ctx)
    used = set()
    st_it = ctx.static()
    for _, ci in ctx.index_mapping():
        if isinstance(ci, ClassInfo):
            for s in ctx.slots_of(ci):
                used.add(st_it.class_attr(ci, '_' + s))
    pci = prog.cls('commands.Basic.Properties')
    for s in ctx.slots_of(pci):
        used.add(st_it.class_attr(pci, '_' + s))
    wts = spec.tables['wire_types']
    for t in sorted(x for x in used if isinstance(x, str)):
        if t == 'bit':
            continue
        d = dec.get(t)
        ref = wts.get(t)
        if d is None or ref is None:
            chk.ob('C05.M', 'type %r' % t, False,
                   'no decoder in METHODS' if d is None else 'unknown type')
            continue
        D = pairs.dec_desc(ctx, d)
        site = '%s:%d' % (d.module.relpath, d.node.lineno)
        for dp in D.paths:
            if ref['kind'] == 'int':
                okk, fact = int_read_ok(dp, ref)
            elif ref['kind'] in ('utf8', 'table'):
                res = prefixed_ok(dp, ref['prefix'])
                okk, fact = res[0], res[1]
                if okk:
                    okk = T.sub(dp.consumed, T.add(res[2].term,
                                                   ref['prefix'])) == 0
            else:
                continue
            chk.ob('C05.M', 'type %r (%s)' % (t, d.short), okk, fact,
                   detail={'specified': ref}, site=site)
    chk.floor('C05.M', 8, 'method wire types')

    # ---- no validation on receive
    nval, bad = F.validation_on_receive(ctx)
    chk.ob('C05.V', 'frame.unmarshal call graph', not bad,
           '%d validate() activations, all inside an argument-less '
           'constructor' % nval if not bad else
           'validate() applied to received data: %s' % bad[:3],
           site='pamqp/frame.py / pamqp/base.py')

    # ---- long string fallback
    ls = dec.get('longstr')
    if ls is not None:
        D = pairs.dec_desc(ctx, ls)
        site = '%s:%d' % (ls.module.relpath, ls.node.lineno)
        esc = [t for t in D.raise_types() if 'Unicode' in t]
        cons_set = {dp.consumed for dp in D.paths}
        raw = [dp for dp in D.paths if isinstance(dp.value, Sym) and
               dp.value.op == 'slice']
        txt = [dp for dp in D.paths if isinstance(dp.value, Sym) and
               dp.value.op == 'decode_utf8']
        okk = not esc and len(cons_set) == 1 and len(raw) == 1 and \
            len(txt) == 1 and txt[0].value.args[0] is raw[0].value
        chk.ob('C05.S', ls.short, okk,
               'returns text or, on invalid UTF-8, the same slice raw; '
               'consumed %s on both; escaping Unicode errors: %r' %
               ([T.show(c)[:40] for c in cons_set], esc), site=site)

    # ---- reject-path classification
    dmod = prog.module('decode')
    funcs = list(dmod.functions.values())
    for short in ('base.Frame', 'base.BasicProperties',
                  'header.ContentHeader'):
        m = prog.find_method(prog.cls(short), 'unmarshal')
        if m is not None:
            funcs.append(m)
    nraise = 0
    for fi in funcs:
        if fi.name == 'by_type':
            args = [codec.buf('value'), 'octet', 0]
        else:
            args = None
        try:
            if fi.owner is not None:
                it = ctx.interp(codec.FramePolicy(prog))
                st = ctx.new_state()
                it.cur_module, it.pending, it.stack = fi.module, [], []
                ci = fi.owner
                if ci.short in ('base.Frame',):
                    continue  # analysed per class below
                if ci.short == 'base.BasicProperties':
                    ci = pci
                ref = it.instantiate(ci, [], {}, st, fi.node)
                it.flush_pending()
                a = fi.node.args
                names = [p.arg for p in a.args][1:]
                argv = [ref] + [codec.buf(n) if n == 'data' else
                                Sym('typed', Sym('param', n), ('int',), None)
                                for n in names]
                outs = it.run_function(fi, argv, {}, st)
            else:
                it, outs = codec.run(prog, fi, args)
        except I.Unsupported as err:
            chk.undecide('C05.F', fi.short, str(err))
            continue
        for o in outs:
            if o.kind != 'raise' or o.exc.primitive:
                continue
            nraise += 1
            if o.exc.in_handler:
                chk.ob('C05.F', '%s raise at handler' % fi.short, True,
                       '%s re-labels a primitive failure (%s)' %
                       (o.exc.type_name, o.exc.site), site=o.exc.site,
                       nontrivial=False)
                continue
            atoms = [a for a in o.state.kn.atoms if isinstance(a, Sym)]
            guard = atoms[-1] if atoms else None
            okk, why = classify_guard(guard)
            chk.ob('C05.F', '%s raise %s' % ('<-'.join(reversed(
                o.exc.chain[-2:])), o.exc.type_name), okk,
                'refusal depends on %s: %s' % (T.show(guard)[:100], why),
                site=o.exc.site)
    chk.floor('C05.F', 5, 'explicit raise sites', count=nraise)

    # ---- timestamp rule
    ts = dec.get('timestamp')
    if ts is not None:
        D = pairs.dec_desc(ctx, ts)
        site = '%s:%d' % (ts.module.relpath, ts.node.lineno)
        okk = False
        fact = 'no return path'
        for dp in D.paths:
            v = dp.value
            conds = [t for t in T.subterms(v) if t.op == 'cond']
            okc = len(conds) == 1 and isinstance(conds[0].args[0], Sym) and \
                conds[0].args[0].op == 'gt' and \
                conds[0].args[0].args[1] == 0xFFFFFFFF and \
                conds[0].args[0].args[0] in dp.reads
            if okc:
                # milliseconds are scaled by true division (the fraction of
                # a second is part of the instant); seconds pass unchanged
                g_, ms_, sec_ = conds[0].args
                okc = isinstance(ms_, Sym) and ms_.op == 'div' and \
                    ms_.args[0] is g_.args[0] and ms_.args[1] in (1000,
                                                                  1000.0) \
                    and sec_ is g_.args[0]
            calls = [t for t in T.subterms(v) if t.op == 'extcall']
            okf = len(calls) >= 1 and \
                calls[0].args[0] == 'datetime.datetime.fromtimestamp'
            okk = okc and okf and isinstance(v, Sym) and v.op == 'extcall'
            fact = 'value = %s' % T.show(v)[:160]
        esc = set(D.raise_types())
        prop = {'ValueError', 'OverflowError', 'OSError'} <= esc
        chk.ob('C05.Z', ts.short, okk and prop,
               fact + '; conversion failures propagate: %s' % sorted(esc),
               site=site)
    # values of a frame come from that frame alone
    from .c16 import check_fresh
    from .. import framepaths as F_
    chk.rule('C05.S', 'every object in a decoded content header is created '
             'by that decode call (an absent property is the default of a '
             'new object, not whatever an earlier frame left in a shared '
             'one)')
    f0 = F_.UnmarshalFacts(ctx, None)
    for r in f0.rets:
        if f0.kind_of(r) == 'header':
            check_fresh(chk, f0, r, 'content header result', 'C05.S')
    from .. import tsrules
    chk.rule('C05.W', 'multi-word property flags: word k lands at bits '
             '16k..16k+15, so the first word (where all 14 flag masks '
             'are) is not displaced by continuation words')
    for cons, okk, why in tsrules.flag_word_rule(ctx):
        if okk is None:
            chk.undecide('C05.W', cons, why)
        else:
            chk.ob('C05.W', cons, okk, why, site='pamqp/header.py')
    # what is decoded comes from the frame alone: the decode side keeps
    # nothing between calls (a cache of decoded tables or headers hands out
    # objects an earlier caller may have changed)
    from .c16 import decode_keeps_state
    kept_ = decode_keeps_state(ctx)
    chk.ob('C05.S', 'decode side keeps no state', not kept_,
           'no memoising wrapper and no write to module- or class-level '
           'objects on the decode side' if not kept_ else
           '; '.join(kept_[:2]), site='pamqp/decode.py / pamqp/frame.py')
    flag_bit_rule(chk, ctx)
    # the decoder walks the arguments in the order the specification puts
    # them on the wire (the same list drives the encoder, so a swapped pair
    # round-trips with itself and only a peer's frame shows it)
    nord = 0
    for m_ in ctx.spec.methods():
        ci_ = ctx.prog.classes.get('pamqp.commands.' + m_.py_name)
        if ci_ is None:
            continue
        try:
            got_ = list(ctx.slots_of(ci_))
        except Exception:
            continue
        want_ = [a_.py_name for a_ in m_.args]
        nord += 1
        if got_ != want_:
            chk.ob('C05.M', '%s argument order' % ci_.short, False,
                   'decoded in the order %r; the specification has %r' %
                   (got_, want_), site='pamqp/commands.py')
    chk.ob('C05.M', 'argument order of the 64 methods', nord >= 64,
           '%d classes compared with the specification' % nord)
    # the content decoders get the payload as the peer sent it
    from .c06 import payload_edits
    keys_ = [k for k, _ in ctx.index_mapping()]
    fk_ = F_.UnmarshalFacts(ctx, keys_[0] if keys_ else None)
    pe_seen = set()
    for r in fk_.rets:
        kind_ = fk_.kind_of(r)
        if kind_ in (None, 'other') or kind_ in pe_seen:
            continue
        pe_seen.add(kind_)
        ed_ = payload_edits(fk_, r, fk_.data)
        chk.ob('C05.F', '%s payload as sent' % kind_, not ed_,
               'the payload decoded is a plain view of the buffer'
               if not ed_ else 'the payload goes through %s before it is '
               'decoded: well-formed frames whose bytes match the edit are '
               'refused or altered' % '; '.join(sorted(set(ed_))[:2]),
               site='pamqp/frame.py::unmarshal')
    chk.assume('values assigned by the library conversions (Decimal, '
               'float, datetime) are the reference values')


def flag_bit_rule(chk, ctx):
    """Each of the 14 properties is taken from the wire exactly when the
    flag bit the grammar assigns to it is set in the first flag word (also
    the deprecated cluster-id, which the library never sends itself: its
    mask is exercised on receive only; an unused bit that is set selects
    nothing)."""
    from .. import hdrlayout as H
    chk.rule('C05.B', 'a property is decoded exactly when the flag bit the '
             'grammar gives it is set: the guard of each decoded property '
             'value is (first flag word & reference mask) != 0')
    d = H.decode(ctx)
    it = d['interp']
    # the fixed part: class id, weight (deprecated, never sent non-zero by
    # the library itself) and body size are what the wire carries
    from .c02 import fixed_part_reads
    chk.rule('C05.H', 'the content header\'s class id, weight and body '
             'size are the unsigned big-endian reads of payload octets '
             '0-1, 2-3 and 4-11')
    for o, ob in d['rets']:
        okf, det = fixed_part_reads(ob, d['data'])
        chk.ob('C05.H', 'content header fixed part', okf,
               'reads %r' % (det,), site='pamqp/header.py')
    if not d['rets']:
        chk.undecide('C05.H', 'content header fixed part',
                     'no return of frame.unmarshal produces a ContentHeader')
    done = set()
    for o, ob in d['rets']:
        p = ob.attrs.get('properties')
        if not isinstance(p, T.Ref):
            continue
        po = it.obj(o.state, p)
        for spec_name, py, _wtype, bit in ctx.spec.properties():
            if py in done:
                continue
            v = po.attrs.get(py, I.ABSENT)
            cons = 'property %s flag' % py
            site = 'pamqp/base.py'
            if v is I.ABSENT or not (isinstance(v, Sym) and v.op == 'cond'):
                continue
            g = v.args[0]
            neg = False
            while isinstance(g, Sym) and g.op == 'not':
                g, neg = g.args[0], not neg
            mask = None
            if isinstance(g, Sym) and g.op in ('ne', 'eq') and \
                    g.args[1] == 0 and isinstance(g.args[0], Sym) and \
                    g.args[0].op == 'bitand':
                neg = neg != (g.op == 'eq')
                consts = [a for a in g.args[0].args if isinstance(a, int)]
                mask = consts[0] if len(consts) == 1 else None
            elif isinstance(g, Sym) and g.op == 'truthy' and \
                    isinstance(g.args[0], Sym) and \
                    g.args[0].op == 'bitand':
                consts = [a for a in g.args[0].args if isinstance(a, int)]
                mask = consts[0] if len(consts) == 1 else None
            if mask is None:
                continue
            done.add(py)
            taken = v.args[2] if neg else v.args[1]
            reads = isinstance(taken, Sym) and T.mentions(
                taken, lambda t: t.op == 'decval')
            chk.ob('C05.B', cons, mask == bit and reads,
                   'decoded when flags & %#06x is set; the grammar assigns '
                   '%#06x to %s' % (mask, bit, spec_name), site=site)
    missing = [py for _n, py, _w, _b in ctx.spec.properties()
               if py not in done]
    if missing:
        chk.undecide('C05.B', 'properties %s' % ', '.join(missing),
                     'the decoded value is not a conditional on one bit of '
                     'the flag word')


def classify_guard(g):
    if g is None:
        return True, 'unconditional'
    a = g
    while isinstance(a, Sym) and a.op == 'not':
        a = a.args[0]
    if isinstance(a, Sym):
        if a.op in ('or', 'and'):
            # (e.g. table.get(tag) is None: "tag not in table or the entry
            # is None") -- structural when every part is
            parts = [classify_guard(x) for x in a.args]
            if all(ok for ok, _ in parts):
                return True, ' / '.join(sorted({w for _, w in parts}))
            return False, next(w for ok, w in parts if not ok)
        if a.op in ('is', 'isnot') and a.args[1] is None:
            return True, 'dispatch-table lookup found nothing'
        if a.op in ('in', 'notin') and isinstance(a.args[1], T.Ref):
            return True, 'type tag / type name not in the dispatch table'
        if a.op == 'ok':
            return True, 'failure of a size-checked read'
        if a.op in ('lt', 'le', 'gt', 'ge', 'eq', 'ne') and T.mentions(
                a, lambda t: t.op == 'len'):
            return True, 'buffer-shape comparison against len(buffer)'
        if a.op == 'truthy' and T.typeof(a.args[0]) is not None and \
                T.typeof(a.args[0]) <= {'bytes', 'bytearray'}:
            return True, 'empty-buffer test'
        if a.op == 'eq' and isinstance(a.args[1], str):
            return True, 'wire-type name test (class literal)'
        if a.op == 'isinstance':
            return True, 'type test of an API argument'
    return False, 'a decoded value is being validated'
