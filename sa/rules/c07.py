"""C07 - incomplete frames raise UnmarshalingException, never a frame."""
from .. import framepaths as F
from .. import interp as I
from .. import terms as T
from ..model import AnalysisError
from ..terms import Sym

RULES = {
    'C07.L': 'every successful return (n, ...) is dominated by the fact '
             'len(buffer) >= n (an explicit guard or a size-checked read)',
    'C07.S': 'every outcome produced inside a content decoder lies behind '
             'the same length guard: a strict prefix never reaches them',
    'C07.X': 'framing stage exception discipline: with the content decoders '
             'cut out, frame.unmarshal can only raise '
             'UnmarshalingException',
}
CONTENT = ('frame._unmarshal_method_frame', 'frame._unmarshal_header_frame',
           'frame._unmarshal_body_frame')


def run(chk, ctx):
    for r, t in RULES.items():
        chk.rule(r, t)
    chk.explanation = (
        'Abstract interpretation of frame.unmarshal on a symbolic buffer. '
        'For each successful return the path knowledge (guards taken, '
        'size-checked reads that succeeded) must imply len(buffer) >= '
        'consumed, by linear reasoning over the recorded inequalities; '
        'outcomes inside content decoders must carry the same fact; raise '
        'outcomes of the framing stage are enumerated with their exception '
        'class after try/except filtering.')
    prog = ctx.prog
    keys = [k for k, _ in ctx.index_mapping()]
    f = F.UnmarshalFacts(ctx, keys[0] if keys else None)
    data = f.data
    ln = T.length(data)
    ue = prog.cls('exceptions.UnmarshalingException')
    site = 'pamqp/frame.py::unmarshal'
    for r in f.rets:
        kind = f.kind_of(r)
        cons = '%s return' % (kind or 'unknown')
        if not r.ok_shape:
            chk.ob('C07.L', cons, False, 'returns %s' %
                   T.show(r.value)[:100], site=site)
            continue
        d = T.sub(ln, r.n)
        lo = r.kn.lin_interval(d)[0]
        okk = lo is not None and lo >= 0
        holds = r.kn.lin_interval(ln)[0]
        # what is returned is a frame: an object of one of the frame classes
        # and at least the 8 octets of the shortest frame consumed (a
        # "nothing yet" answer for a short buffer is a return, not the
        # exception the caller waits on)
        nlo = r.n if isinstance(r.n, int) else r.kn.lin_interval(r.n)[0]
        if kind is None or nlo is None or nlo < 8:
            chk.ob('C07.L', cons + ' is a frame', False,
                   'returns (%s, %s, %s): not a frame of at least 8 octets '
                   '- a strict prefix (the empty one included) must raise' %
                   (T.show(r.n)[:40], T.show(r.ch)[:30],
                    r.cls.short if r.cls is not None else 'no frame object'),
                   site=site)
        chk.ob('C07.L', cons, okk,
               'returns n = %s; path facts give len(buffer) - n >= %s' %
               (T.show(r.n)[:80], lo),
               detail={'strongest_length_fact': 'len(buffer) >= %s' % holds,
                       'needs': 'len(buffer) >= %s' % T.show(r.n)[:80]},
               site=site)
    chk.floor('C07.L', 5, 'successful returns')
    # content decoders behind the guard
    if f.header is None:
        raise AnalysisError('no header read found')
    hf = f.header
    bc = T.add(f.hfield(2), hf.size + 1)
    n_in = 0
    bad = []
    work = [(o, o.exc.chain) for o in f.outs if o.kind == 'raise'] + \
        [(r.o, None) for r in f.rets]
    kind_of = {id(r.o): f.kind_of(r) for r in f.rets}
    for o, chain in work:
        inside = None
        if chain:
            inside = next((c for c in chain if c in CONTENT), None)
        elif o.kind == 'return':
            k = kind_of.get(id(o))
            inside = {'method': CONTENT[0], 'header': CONTENT[1],
                      'body': CONTENT[2]}.get(k)
        if inside is None:
            continue
        n_in += 1
        lo = o.state.kn.lin_interval(T.sub(ln, bc))[0]
        if lo is None or lo < 0:
            bad.append('%s outcome in %s at %s without len(buffer) >= '
                       'size + %d' % (o.kind, inside, o.exc.site if o.exc
                                      else 'return', hf.size + 1))
    chk.ob('C07.S', 'content decoders', not bad and n_in > 0,
           '%d outcomes inside content decoders, all behind the length '
           'guard' % n_in if not bad else '; '.join(bad[:3]), site=site)
    # framing-stage raises
    nfr = 0
    for o in f.raises:
        if any(c in CONTENT for c in o.exc.chain):
            continue
        nfr += 1
        t = o.exc.type
        okk = t is ue or (hasattr(t, 'qualname') and
                          prog.is_subclass(t, ue)
                          if hasattr(t, 'bases') else False)
        chk.ob('C07.X', '%s at %s' % (o.exc.type_name, o.exc.site), okk,
               'framing stage may raise %s via %s (%s)' %
               (o.exc.type_name, '<-'.join(reversed(o.exc.chain)),
                o.exc.why[:60]), site=o.exc.site)
    chk.floor('C07.X', 4, 'framing-stage raise sites', count=nfr)
    chk.units['outcomes'] = len(f.outs)
