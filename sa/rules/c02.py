"""C02 - content header and Basic.Properties survive encode-then-decode."""
import os

from .. import codec
from .. import hdrlayout as H
from .. import interp as I
from .. import layout as L
from .. import pairs
from .. import terms as T
from ..model import AnalysisError
from ..terms import Sym

RULES = {
    'C02.H': 'fixed part: class id, weight, body size are written and read '
             'with equal offsets/widths; body size unsigned 64 on both '
             'sides; the class id written is the Basic class id',
    'C02.W': 'exactly one 16-bit flag word is emitted and its continuation '
             'bit (bit 0) is never set',
    'C02.P': 'a property is emitted iff its value is not None and not the '
             'empty string (so 0, False, {} count as set)',
    'C02.M': 'encode side: flag bit k and optional field k are governed by '
             'the same presence guard, in slot order, with the encoder of '
             'the property\'s wire type',
    'C02.U': 'decode side: property k is read iff flag bit k, with the '
             'decoder of its wire type, at the offset where the encoder put '
             'it (sum of the consumed counts of the present predecessors)',
    'C02.G': 'flag reader: consumes exactly the one flag word; signed/unsigned '
             'reading of the word is immaterial for every use of the flags',
    'C02.N': 'unset properties stay unset: decoding starts from fresh '
             'defaults (None; cluster id empty string) and assigns only '
             'under a flag',
    'C02.T': 'Pair(E, D) for every wire type used by a property',
    'C02.C': 'constructor pass-through: Basic.Properties(...) and '
             'ContentHeader(...) store every argument unchanged (no '
             'properties argument: a new Basic.Properties)',
    'C02.R': 'composed round trip by rewriting: with the encoder\'s residual '
             'output substituted for the buffer, body size, class id, '
             'consumed count and channel come back, every property k '
             'rewrites to "value if present else unset", and all path '
             'conditions of the successful decode hold',
}


def fixed_part_reads(ob, data, hsize=7):
    """The decoded content header's class id, weight and body size are the
    unsigned big-endian reads of payload octets 0-1, 2-3 and 4-11.
    -> (ok, {field: what is read})"""
    rd = {}
    for name in ('class_id', 'weight', 'body_size'):
        rd[name] = L.parse_unpack_read(ob.attrs.get(name), data)
    ok_fixed = all(rd.values())
    detail = {}
    if ok_fixed:
        want = {'class_id': (0, 2), 'weight': (2, 2), 'body_size': (4, 8)}
        for name, (woff, wsize) in want.items():
            fm, idx, lo, hi = rd[name]
            off, fld = [x for x in T.fmt(fm).offsets()
                        if x[1][3] != 'pad'][idx]
            okk = T.sub(T.add(lo, off), hsize + woff) == 0 and \
                fld[1] == wsize and fld[2] is False and \
                T.fmt(fm).order == 'big'
            detail[name] = '%r field %d at %s' % (fm, idx,
                                                  T.show(T.add(lo, off)))
            ok_fixed = ok_fixed and okk
    else:
        detail = {n: 'not a read of the payload' for n, r in rd.items()
                  if not r}
    return ok_fixed, detail


def run(chk, ctx):
    for r, t in RULES.items():
        chk.rule(r, t)
    chk.explanation = (
        'Abstract interpretation of frame.marshal on a ContentHeader whose '
        'body size and 14 property values are symbolic, and of '
        'frame.unmarshal on a symbolic buffer: the conditional appends of '
        'BasicProperties.marshal are joined into a flag or-set and optional '
        'fields (no enumeration of the 2^13 presence subsets), the decoder '
        'side yields flag-guarded reads at offsets that are sums of guarded '
        'consumed counts; both are compared in slot order. Covers every '
        'presence subset and every value at once. Decides layout, order, '
        'flag bits, presence predicate, widths and signedness, not the '
        'library primitives themselves.')
    prog = ctx.prog
    st_it = ctx.static()
    pol = codec.FramePolicy(prog)
    e = H.encode(ctx, pol)
    site_m = 'pamqp/base.py (BasicProperties.marshal) / pamqp/header.py'
    if e['term'] is None or e.get('env') is None:
        chk.undecide('C02.M', 'frame.marshal(ContentHeader)',
                     'output is not an envelope: %s' %
                     T.show(e['term'])[:200])
        return
    env = e['env']
    pci = e['pci']
    slots = ctx.slots_of(pci)
    types = {s: st_it.class_attr(pci, '_' + s) for s in slots}
    flags_tbl = dict(ctx.dict_value(st_it, ctx.new_state(),
                                    st_it.class_attr(pci, 'flags'),
                                    'Basic.Properties.flags'))
    parts = env['payload']
    fh = st_it.global_value(prog.module('constants'), 'FRAME_HEADER')
    chk.ob('C02.H', 'marshal envelope', env['type'] == fh and
           env['channel'] is Sym('param', 'channel_id') and
           T.sub(env['size'], L.payload_length(parts)) == 0,
           'frame type %s, channel %s, size = payload length' %
           (T.show(env['type']), T.show(env['channel'])), site=site_m)
    okc, whyc = L.channel_acceptance(e['outs'])
    chk.ob('C02.H', 'marshal channels', okc, whyc, site=site_m)
    caps = L.size_cap_refusals(e['outs'])
    chk.ob('C02.H', 'marshal size', not caps,
           'no refusal depends on the size of the encoded header (header '
           'tables of arbitrary shape are sent)' if not caps else
           'a header is refused for its encoded size: %s' % '; '.join(
               caps[:2]), site=site_m)
    # fixed part
    basic_id = st_it.class_attr(prog.cls('commands.Basic'), 'frame_id')
    ff_ = L.fixed_fields(parts, [2, 2, 8])
    fixed_ok = False
    fixed = None
    rest_parts = parts[1:]
    if ff_ is not None:
        fixed, rest_parts = ff_
        fixed_ok = fixed[0] == basic_id == 60 and fixed[1] == 0 and \
            isinstance(fixed[2], tuple) and fixed[2][0] is False and \
            fixed[2][1] == 'big' and \
            fixed[2][2] is Sym('field', 'body_size')
    chk.ob('C02.H', 'marshal fixed part', fixed_ok,
           'written %s' % (T.show(tuple(
               x if not isinstance(x, tuple) else x[2] for x in fixed))[:120]
               if fixed is not None else T.show(tuple(parts[:2]))[:120]),
           detail={'expected': "u16 class id 60, two zero octets, u64 body "
                   "size, big-endian"}, site=site_m)
    # flag words
    rest = list(rest_parts)
    flagpacks = []
    while rest and isinstance(rest[0], Sym) and rest[0].op == 'pack':
        flagpacks.append(rest.pop(0))
    opts = rest
    one = len(flagpacks) == 1
    fl = None
    if one:
        ff = T.fmt(flagpacks[0].args[0])
        one = ff.norm() == ('big', ((2, False, 'int'),))
        fl = flagpacks[0].args[1][0]
    mb = T.maybits(fl) if fl is not None else None
    chk.ob('C02.W', 'flag words', one and mb is not None and
           mb & 1 == 0 and mb < (1 << 16),
           '%d flag word(s); bits that may be set: %s' %
           (len(flagpacks), hex(mb) if mb is not None else 'unknown'),
           detail={'flags': T.show(fl)[:200]}, site=site_m)
    pairs_gk = H.parse_flag_term(fl) if fl is not None else None
    if pairs_gk is None:
        chk.undecide('C02.M', 'flag accumulation', 'flag term is not an '
                     'or-set of guarded constants: %s' % T.show(fl)[:200])
        return
    by_flag = {k: g for g, k in pairs_gk}
    # optional parts in order
    enc_seq = []
    for p in opts:
        if isinstance(p, Sym) and p.op == 'opt' and len(p.args[1]) == 1 \
                and p.args[2] == ():
            el = p.args[1][0]
            if isinstance(el, Sym) and el.op == 'enc' and \
                    isinstance(el.args[1], Sym) and el.args[1].op == 'field':
                enc_seq.append((p.args[0], el.args[0], el.args[1].args[0]))
                continue
        enc_seq.append((None, None, T.show(p)[:100]))
    chk.ob('C02.M', 'field order', [x[2] for x in enc_seq] == slots,
           'optional fields emitted in order %r' % ([x[2] for x in enc_seq],),
           detail={'expected': slots}, site=site_m)
    for g, eshort, name in enc_seq:
        if g is None:
            chk.undecide('C02.M', 'field ' + str(name), 'unrecognised '
                         'element in the property list')
            continue
        k = flags_tbl.get(name)
        gflag = by_flag.get(k)
        wt = types.get(name)
        e_ok = wt in pol.enc_funcs.get('pamqp.' + eshort, ())
        chk.ob('C02.M', 'property ' + name, gflag is g and e_ok,
               'flag %s and field share one guard; encoder %s for type %r' %
               (hex(k) if isinstance(k, int) else k, eshort, wt),
               detail={'flag_guard': T.show(gflag)[:120],
                       'field_guard': T.show(g)[:120]}, site=site_m)
        chk.ob('C02.P', 'presence of ' + name, H.presence_ok(g) == name,
               'emitted iff %s' % T.show(g)[:120],
               detail={'expected': "value is not None and value != ''"},
               site=site_m)
    extra_flags = [hex(k) for g, k in pairs_gk
                   if k not in [flags_tbl.get(n) for n in slots]]
    chk.ob('C02.M', 'no stray flag', not extra_flags,
           'flags set only for properties (%r)' % extra_flags, site=site_m)
    chk.floor('C02.M', 14, 'properties on the encode side')

    # ---- decode side
    from .. import tsrules as _ts
    for cons_, okk_, why_ in _ts.decimal_decode_exact(ctx):
        chk.ob('C02.T', cons_, okk_, why_, site='pamqp/decode.py::decimal')
    from .c15 import decoder_utc
    okk_, why_ = decoder_utc(ctx)
    chk.ob('C02.T', 'decode.timestamp result zone', okk_, why_,
           site='pamqp/decode.py::timestamp')
    # a decoded header is built from its frame alone
    from .c16 import decode_keeps_state
    kept_ = decode_keeps_state(ctx)
    chk.ob('C02.U', 'decode side keeps no state', not kept_,
           'no memoising wrapper and no write to module- or class-level '
           'objects on the decode side' if not kept_ else
           '; '.join(kept_[:2]), site='pamqp/frame.py / pamqp/header.py')
    hsize = 7
    d = H.decode(ctx, flag_offset=hsize + 12)
    if len(d['rets']) != 1:
        chk.ob('C02.U', 'frame.unmarshal', False,
               '%d return(s) produce a ContentHeader' % len(d['rets']))
        return
    o, ob = d['rets'][0]
    it, data = d['interp'], d['data']
    site_u = 'pamqp/header.py (ContentHeader.unmarshal) / pamqp/base.py'
    kn = o.state.kn
    ok_fixed, detail = fixed_part_reads(ob, data, hsize)
    chk.ob('C02.H', 'unmarshal fixed part', ok_fixed,
           'reads %r' % (detail,), site=site_u)
    # flag reader
    n_loops = [l for l in it.loops if l['func'] is not None and
               l['func'].short.endswith('_get_flags')]
    chk.ob('C02.G', 'flag loop', not n_loops and d['policy'].used > 0,
           'with bit 0 of the first word clear the flag loop runs exactly '
           'once (decided statically %d time(s))' % d['policy'].used,
           site=site_u)
    props = it.obj(o.state, ob.attrs['properties']) if isinstance(
        ob.attrs.get('properties'), T.Ref) else None
    if props is None or props.kind != 'inst':
        chk.undecide('C02.U', 'properties', 'decoded properties are not a '
                     'single object')
        return
    off = hsize + 12 + 2
    end = None
    flag_words = set()
    mask_ok = True
    for name in slots:
        v = props.attrs.get(name)
        k = flags_tbl.get(name)
        wt = types.get(name)
        okk = False
        fact = 'decoded as %s' % T.show(v)[:160]
        det = None
        if isinstance(v, Sym) and v.op == 'cond':
            g, a, b = v.args
            # guard: ne(bitand(U, K), 0)
            gk = None
            if isinstance(g, Sym) and g.op == 'ne' and g.args[1] == 0 and \
                    isinstance(g.args[0], Sym) and g.args[0].op == 'bitand':
                x, m = g.args[0].args
                if isinstance(x, int):
                    x, m = m, x
                r = L.parse_unpack_read(x, data)
                if r is not None and isinstance(m, int):
                    gk = m
                    flag_words.add((r[0], T.show(r[2])))
                    fr = T.fmt(r[0])
                    if not (fr.size == 2 and fr.order == 'big' and
                            T.sub(r[2], hsize + 12) == 0):
                        gk = None
                    # signedness immaterial: mask below 2^16
                    if not (0 < m < (1 << 16)):
                        mask_ok = False
            pa = L.parse_decoded_attr(a, data, pol)
            dflt_ok = (b == '' if name == 'cluster_id' else b is None)
            if pa[0] == 'field':
                _, dshort, lo, hi = pa
                d_ok = wt in pol.dec_funcs.get('pamqp.' + dshort, ())
                same_off = T.sub(lo, off) == 0
                okk = gk == k and d_ok and same_off
                fact = 'read iff flag %s by %s at offset %s' % (
                    hex(gk) if gk else gk, dshort, T.show(lo)[:100])
                det = {'expected_flag': hex(k) if isinstance(k, int) else k,
                       'expected_offset': T.show(off)[:160]}
                cons = L.consumed_sym(pol, prog, dshort, data, lo, hi)
                off = T.add(off, T.cond(g, cons, 0))
                chk.ob('C02.N', 'default of ' + name, dflt_ok,
                       'value when the flag is clear: %r' % (b,),
                       site=site_u)
        chk.ob('C02.U', 'property ' + name, okk, fact, detail=det,
               site=site_u)
    chk.ob('C02.G', 'flag word signedness', mask_ok and
           len(flag_words) == 1,
           'flag word read as %r; every use is a test against a mask below '
           '2^16, so the signed/unsigned reading cannot matter' %
           (sorted(flag_words),), site=site_u)
    chk.floor('C02.U', 14, 'properties on the decode side')
    # ---- composed round trip
    try:
        composed(chk, ctx, e, o, ob, props, slots, data, site_u)
    except AnalysisError as err:
        chk.undecide('C02.R', 'content header', str(err))
    # fresh defaults
    hci = prog.cls('header.ContentHeader')
    it2 = ctx.interp()
    st2 = ctx.new_state()
    it2.pending, it2.stack, it2.cur_module = [], [], hci.module
    href = it2.instantiate(hci, [], {}, st2, hci.node)
    hob = it2.obj(st2, href)
    pref = hob.attrs.get('properties')
    fresh = isinstance(pref, T.Ref) and pref.id in st2.store and \
        not it2.obj(st2, pref).shared
    chk.ob('C02.N', 'ContentHeader() properties', fresh and
           not it2.flush_pending(),
           'a new Basic.Properties object is created per ContentHeader',
           site='pamqp/header.py')
    # constructors
    from .. import ctors
    ptypes = {s: ctors.PY_OF_WIRE.get(types.get(s), ('object',))[0]
              for s in slots}
    for cshort, pt in (('commands.Basic.Properties', ptypes),
                       ('header.ContentHeader',
                        {'weight': 'int', 'body_size': 'int',
                         'properties': 'inst:commands.Basic.Properties'})):
        cci = prog.cls(cshort)
        r = ctors.passthrough(ctx, cci, pt)
        if r is None:
            chk.ob('C02.C', cshort + '()', False, 'no constructor')
            continue
        res, _np, _raises = r
        names = [nm for nm, _, _ in res]
        chk.ob('C02.C', cshort + ' parameters', names == list(pt),
               'constructor parameters %r' % (names,),
               detail={'expected': list(pt)})
        for nm, ok, text in res:
            chk.ob('C02.C', '%s(%s)' % (cshort, nm), ok, 'stores %s' % text)
    chk.floor('C02.C', 17, 'constructor arguments')
    # primitive pairs
    pairs.check_method_types(chk, ctx, 'C02.T', sorted(
        {t for t in types.values() if isinstance(t, str)}))
    # the timestamp property: the value written is the instant denoted
    if 'timestamp' in types.values():
        from .. import tsrules
        tsres, _n = tsrules.timestamp_operands(ctx)
        for cons, okk, why in tsres:
            chk.ob('C02.T', cons, okk, why,
                   site='pamqp/encode.py::timestamp')
        for cons, okk, why in tsrules.timestamp_decode_rule(ctx):
            chk.ob('C02.T', cons, okk, why, site='pamqp/decode.py::timestamp')
    # the headers property: field names are written whole (a key cut short
    # comes back as a different key, so the property set differs)
    if 'table' in types.values():
        from .. import tsrules
        for cons, okk, why in tsrules.table_key_rule(ctx):
            if okk is not None:
                chk.ob('C02.T', cons, okk, why,
                       detail={'documented_exception': 'only keys longer '
                               'than 128 characters are truncated'},
                       site='pamqp/encode.py::field_table')
    chk.assume('header tables round-trip as decided by C03')
    chk.units['properties'] = len(slots)


def composed(chk, ctx, e, o, ob, props, slots, data, site_u):
    from .. import wire
    ax = wire.build_axioms(ctx)
    rw = wire.Rewriter(data, e['term'], ax, T.Knowledge())
    n, ch, _ = o.value
    total = rw.length(e['term'], frozenset())
    n2, ch2 = rw.rw(n), rw.rw(ch)
    bs = rw.rw(ob.attrs.get('body_size'))
    cid = rw.rw(ob.attrs.get('class_id'))
    wgt = rw.rw(ob.attrs.get('weight'))
    chk.ob('C02.R', 'fixed part and envelope',
           T.sub(n2, total) == 0 and ch2 is Sym('param', 'channel_id') and
           bs is Sym('field', 'body_size') and cid == 60 and wgt == 0,
           'consumed %s of %s, channel %s, body_size %s, class id %s, '
           'weight %s' % (T.show(n2)[:40], T.show(total)[:40],
                          T.show(ch2)[:30], T.show(bs)[:30], cid, wgt),
           site=site_u)
    badc = []
    for a in o.state.kn.atoms:
        if isinstance(a, Sym):
            v = rw.rw(a)
            if v is not True:
                badc.append('%s -> %s' % (T.show(a)[:60], T.show(v)[:60]))
    chk.ob('C02.R', 'acceptance', not badc,
           'all %d path conditions of the successful decode hold on the '
           'encoder\'s own output' % len(o.state.kn.atoms) if not badc else
           'not established: %s' % '; '.join(badc[:2]), site=site_u)
    wrong = []
    for name in slots:
        got = rw.rw(props.attrs.get(name))
        f_ = Sym('field', name)
        present = T.and_(T.compare('isnot', f_, None),
                         T.compare('ne', f_, ''))
        want = T.cond(present, f_, '' if name == 'cluster_id' else None)
        if got is not want:
            wrong.append('%s -> %s' % (name, T.show(got)[:90]))
    chk.ob('C02.R', 'property values', not wrong,
           'each of the %d properties rewrites to "the value if it is set '
           '(not None, not empty string), else unset"' % len(slots)
           if not wrong else 'does not come back: %s' %
           '; '.join(wrong[:3]), site=site_u)
