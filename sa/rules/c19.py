"""C19 - frames expose their arguments consistently as a mapping.

For each of the 64 method classes and Basic.Properties the six accessors are
resolved through the MRO and specialised by the abstract interpreter to the
class's literal tables; each must agree with the ordered slot list.
"""
from .. import interp as I
from .. import terms as T
from ..model import AnalysisError, ClassInfo
from ..spec import WIRE_TYPES
from ..terms import Sym

RULES = {
    'C19.L': 'len(obj) is the number of arguments',
    'C19.C': 'name in obj <=> name is one of the argument names',
    'C19.I': 'iter(obj) yields (name, current attribute value) in wire order',
    'C19.G': 'obj[name] is the current value of attribute name',
    'C19.A': 'attributes() is the ordered argument-name list',
    'C19.T': 'amqp_type(name) is the wire type literal of that argument; '
             'one of the nine wire types; no stray type attribute',
    'C19.S': 'every argument attribute is assigned on every normal path of '
             'the constructor',
    'C19.U': '__slots__ is a literal list of distinct identifiers',
    'C19.O': 'wire order: __slots__ lists the arguments in the order the '
             'specification puts them on the wire',
    'C19.K': 'instances produced by copy / pickle are instances like any '
             'other: the frame classes keep the default reduction protocol '
             '(which saves and restores the slots); a __getstate__ without '
             'a matching __setstate__ hands the default reconstruction a '
             'state it puts into __dict__, leaving every slot unset',
    'C19.W': 'the name list is stable across a round trip: no abstract run '
             'of marshal / unmarshal (failing paths included) stores into, '
             'deletes from or calls a mutating method on a class-level '
             'table of a frame class',
}


def call(it, ctx, fi, args, st):
    """Run fi, return (value, state) when it has exactly the normal
    behaviour (joined returns), plus the raise outcomes."""
    outs = it.run_function(fi, args, {}, st)
    rets = [o for o in outs if o.kind == 'return']
    raises = [o for o in outs if o.kind == 'raise']
    if not rets:
        return None, None, raises
    j = it.join_outcomes(rets, 0) if len(rets) > 1 else rets[0]
    return j.value, j.state, raises


PROTOCOL_METHODS = ('__getstate__', '__setstate__', '__reduce__',
                    '__reduce_ex__', '__copy__', '__deepcopy__',
                    '__getnewargs__', '__getnewargs_ex__')


def copy_protocol(chk, ctx):
    prog = ctx.prog
    roots = [prog.cls('base.Frame'),
             prog.cls('base.BasicProperties')]
    defined = {}
    for ci in prog.classes.values():
        if not any(prog.is_subclass(ci, r) for r in roots) and \
                not any(prog.is_subclass(r, ci) for r in roots):
            continue
        for nm in PROTOCOL_METHODS:
            if nm in ci.methods or nm in ci.bindings:
                defined.setdefault(nm, []).append(ci.short)
    if not defined:
        chk.ob('C19.K', 'copy / pickle protocol', True,
               'no frame class defines %s: the default protocol copies the '
               'slots' % ', '.join(PROTOCOL_METHODS[:4]))
        return
    if '__getstate__' in defined and '__setstate__' not in defined and \
            not ({'__reduce__', '__reduce_ex__', '__copy__',
                  '__deepcopy__'} & set(defined)):
        chk.ob('C19.K', 'copy / pickle protocol', False,
               '%s defines __getstate__ and nothing restores that state: '
               'copy.copy / deepcopy / pickle of a frame put it into '
               '__dict__ (or fail) and every argument slot of the duplicate '
               'is unset - iterating it raises AttributeError' %
               ', '.join(defined['__getstate__']),
               site='pamqp/base.py')
        return
    chk.undecide('C19.K', 'copy / pickle protocol',
                 'custom reduction protocol: %s' % ', '.join(
                     '%s in %s' % (k, '/'.join(v))
                     for k, v in sorted(defined.items())))


MAPPING_METHODS = ('__iter__', '__getitem__', '__contains__', '__len__',
                   'keys', 'values', 'items', 'get', 'to_dict',
                   'attributes', 'amqp_type')


def view_reads_only_arguments(chk, ctx):
    """The mapping view is computed from the class's name list and the
    current attribute values: the accessors read no other per-instance
    state (a copy of the pairs kept by unmarshal(), obj.__dict__ ...)."""
    import ast
    prog = ctx.prog
    roots = [prog.cls('base.Frame'), prog.cls('base.BasicProperties')]
    hier = [ci for ci in prog.classes.values()
            if any(prog.is_subclass(r, ci) for r in roots)]
    class_level = set()
    for ci in prog.classes.values():
        if any(prog.is_subclass(ci, r) or prog.is_subclass(r, ci)
               for r in roots):
            class_level.update(ci.bindings)
            class_level.update(ci.methods)
    class_level.update({'__slots__', '__class__', '__annotations__'})
    bad = []
    n = 0
    for ci in hier:
        for nm in MAPPING_METHODS:
            fi = ci.methods.get(nm)
            if fi is None:
                continue
            a = fi.node.args
            ps = a.posonlyargs + a.args
            if not ps:
                continue
            me = ps[0].arg
            for x in ast.walk(fi.node):
                if isinstance(x, ast.Attribute) and isinstance(
                        x.ctx, ast.Load) and isinstance(x.value, ast.Name) \
                        and x.value.id == me:
                    n += 1
                    if x.attr not in class_level or x.attr == '__dict__':
                        bad.append('%s reads self.%s at %s:%d' % (
                            fi.short, x.attr, fi.module.relpath, x.lineno))
                elif isinstance(x, ast.Call) and isinstance(
                        x.func, ast.Name) and x.func.id in (
                            'getattr', 'hasattr', 'vars') and x.args and \
                        isinstance(x.args[0], ast.Name) and \
                        x.args[0].id == me:
                    # getattr(self, '<literal>'): the same read, spelled
                    # dynamically (a computed name is an argument name)
                    if x.func.id == 'vars':
                        bad.append('%s reads vars(self) at %s:%d' % (
                            fi.short, fi.module.relpath, x.lineno))
                    elif len(x.args) > 1 and isinstance(
                            x.args[1], ast.Constant) and isinstance(
                                x.args[1].value, str):
                        n += 1
                        if x.args[1].value not in class_level:
                            bad.append('%s reads self.%s at %s:%d' % (
                                fi.short, x.args[1].value,
                                fi.module.relpath, x.lineno))
    chk.ob('C19.I', 'accessors read arguments only', not bad,
           '%d reads of self.<name> in the mapping accessors, all of '
           'class-level names' % n if not bad else
           '%s: the view then depends on per-instance state other than the '
           'current argument values' % '; '.join(bad[:3]),
           site='pamqp/base.py')


def run(chk, ctx):
    for r, t in RULES.items():
        chk.rule(r, t)
    chk.exhaustive = True
    copy_protocol(chk, ctx)
    view_reads_only_arguments(chk, ctx)
    chk.explanation = (
        'For each of the 65 classes the accessors (__len__, __contains__, '
        '__iter__, __getitem__, attributes, amqp_type), resolved through '
        'the MRO, are specialised by the abstract interpreter to the class\'s '
        'literal __slots__ / _<attr> tables with arbitrary (symbolic) '
        'attribute values; the residual results are compared with the '
        'ordered slot list. Holds for all attribute values because the '
        'values stay symbolic.')
    prog = ctx.prog
    classes = list(ctx.method_classes())
    props = prog.cls('commands.Basic.Properties')
    classes.append(props)
    nclasses = 0
    spec_order = {'commands.' + m.py_name: [a.py_name for a in m.args]
                  for m in ctx.spec.methods()}
    spec_order['commands.Basic.Properties'] = [p[1] for p in
                                               ctx.spec.properties()]
    for ci in sorted(classes, key=lambda c: c.qualname):
        q = ci.short
        site = '%s:%d' % (ci.module.relpath, ci.node.lineno)
        try:
            slots = ctx.slots_of(ci)
        except AnalysisError as err:
            chk.ob('C19.U', q + '.__slots__', False, str(err), site=site)
            continue
        nclasses += 1
        want_order = spec_order.get(q)
        chk.ob('C19.O', q + ' wire order', slots == want_order,
               '__slots__ = %r' % (slots,),
               detail={'expected': want_order}, site=site)
        okid = all(isinstance(s, str) and s.isidentifier() for s in slots) \
            and len(set(slots)) == len(slots)
        chk.ob('C19.U', q + '.__slots__', okid,
               '__slots__ = %r' % (slots,), site=site)
        if not okid:
            continue

        def fresh():
            it = ctx.interp()
            st = ctx.new_state()
            ref = ctx.symbolic_instance(it, st, ci)
            return it, st, ref

        def method(name):
            m = prog.find_method(ci, name)
            if m is None:
                chk.ob('C19.' + {'__len__': 'L', '__contains__': 'C',
                                 '__iter__': 'I', '__getitem__': 'G',
                                 'attributes': 'A', 'amqp_type': 'T'}[name],
                       '%s.%s' % (q, name), False, 'accessor missing',
                       site=site)
            return m

        # len
        m = method('__len__')
        if m is not None:
            it, st, ref = fresh()
            v, _, raises = call(it, ctx, m, [ref], st)
            chk.ob('C19.L', q + '.__len__', v == len(slots) and
                   type(v) is int and not raises,
                   '__len__ -> %s' % T.show(v),
                   detail={'expected': len(slots),
                           'raises': [repr(r.exc) for r in raises]},
                   site=site)
        # contains
        m = method('__contains__')
        if m is not None:
            it, st, ref = fresh()
            item = Sym('param', 'item')
            v, _, raises = call(it, ctx, m, [ref, item], st)
            want = T.or_(*[T.compare('eq', item, s) for s in slots]) \
                if slots else False
            want2 = Sym('in', item, tuple(slots)) if slots else False
            good = (isinstance(v, Sym) and (v == want or v == want2)) or \
                (not slots and v is False)
            if not good:
                # decide by evaluating on every slot name and on a name
                # that is not a slot
                good = True
                for s in slots + ['__no_such_argument__']:
                    it2, st2, ref2 = fresh()
                    vv, _, _r = call(it2, ctx, m, [ref2, s], st2)
                    if vv is not (s in slots):
                        good = False
                good = good and False  # symbolic form unknown: be strict
            chk.ob('C19.C', q + '.__contains__', good and not raises,
                   '__contains__(item) -> %s' % T.show(v)[:160],
                   detail={'expected': 'item in %r' % (slots,)}, site=site)
        # iter
        m = method('__iter__')
        if m is not None:
            it, st, ref = fresh()
            v, st2, raises = call(it, ctx, m, [ref], st)
            got = None
            if isinstance(v, T.Ref):
                o = it.obj(st2, v)
                if o.kind == 'list' and not o.more:
                    got = list(o.items)
            elif isinstance(v, tuple):
                got = list(v)
            want = [(s, Sym('field', s)) for s in slots]
            chk.ob('C19.I', q + '.__iter__',
                   got is not None and len(got) == len(want) and
                   all(I.same_value(a, b) for a, b in zip(got, want)) and
                   not raises,
                   '__iter__ -> %s' % (T.show(tuple(got))[:200]
                                       if got is not None else T.show(v)),
                   detail={'expected': T.show(tuple(want))[:200]},
                   site=site)
        # dict(obj) goes through keys() + obj[k] when the class has a keys
        # attribute, bypassing __iter__
        km = prog.find_method(ci, 'keys')
        if km is not None:
            it, st, ref = fresh()
            v, st2, raises = call(it, ctx, km, [ref], st)
            got = None
            if isinstance(v, T.Ref):
                o = it.obj(st2, v)
                if o.kind == 'list' and not o.more:
                    got = list(o.items)
            elif isinstance(v, tuple):
                got = list(v)
            chk.ob('C19.I', q + '.keys', got == slots and not raises,
                   'dict(obj) uses keys(), which gives %s' % (
                       T.show(tuple(got))[:160] if got is not None
                       else T.show(v)[:160]),
                   detail={'expected': slots}, site=site)
        # getitem
        m = method('__getitem__')
        if m is not None:
            bad = []
            for s in slots:
                it, st, ref = fresh()
                v, _, raises = call(it, ctx, m, [ref, s], st)
                if not I.same_value(v, Sym('field', s)) or raises:
                    bad.append((s, T.show(v)))
            chk.ob('C19.G', q + '.__getitem__', not bad,
                   'obj[name] is the attribute for all %d names' %
                   len(slots) if not bad else 'wrong for %r' % (bad,),
                   site=site)
        # attributes()
        m = method('attributes')
        if m is not None:
            it, st, ref = fresh()
            recv = ci if m.kind == 'classmethod' else ref
            args = [recv] if m.kind != 'staticmethod' else []
            v, st2, raises = call(it, ctx, m, args, st)
            got = None
            if isinstance(v, T.Ref):
                o = it.obj(st2, v)
                if o.kind == 'list' and not o.more:
                    got = list(o.items)
            elif isinstance(v, tuple):
                got = list(v)
            chk.ob('C19.A', q + '.attributes', got == slots and not raises,
                   'attributes() -> %r' % (got,),
                   detail={'expected': slots}, site=site)
        # amqp_type
        m = method('amqp_type')
        if m is not None:
            bad = []
            for s in slots:
                it, st, ref = fresh()
                recv = ci if m.kind == 'classmethod' else ref
                v, _, raises = call(it, ctx, m, [recv, s], st)
                lit = it.class_attr(ci, '_' + s)
                if raises or v != lit or lit is I.ABSENT or \
                        v not in WIRE_TYPES:
                    bad.append((s, T.show(v), None if lit is I.ABSENT
                                else lit))
            chk.ob('C19.T', q + '.amqp_type', not bad,
                   'amqp_type(name) is the _<name> literal and a wire type '
                   'for all %d names' % len(slots) if not bad else
                   'wrong for %r' % (bad,), site=site)
            stray = []
            for c in prog.mro(ci):
                if not isinstance(c, ClassInfo):
                    continue
                for name in c.bindings:
                    if name.startswith('_') and not name.startswith('__') \
                            and name[1:] not in slots:
                        val = ctx.static().class_attr_own(c, name)
                        if isinstance(val, str) and val in WIRE_TYPES:
                            stray.append(name)
            chk.ob('C19.T', q + ' stray type attributes', not stray,
                   'no _<x> wire-type attribute without a slot' if not stray
                   else 'stray: %r' % (stray,), site=site)
        # constructor assigns every slot
        init = prog.find_method(ci, '__init__')
        if init is None:
            chk.ob('C19.S', q + '.__init__', not slots,
                   'no constructor and %d slots' % len(slots), site=site)
        else:
            it = ctx.interp()
            st = ctx.new_state()
            ref = it.alloc(st, I.InstObj(ci, {}))
            a = init.node.args
            params = [Sym('param', p.arg)
                      for p in (a.posonlyargs + a.args)[1:]]
            outs = it.run_function(init, [ref] + params, {}, st)
            missing = set()
            nret = 0
            for o in outs:
                if o.kind != 'return':
                    continue
                nret += 1
                obj = it.obj(o.state, ref)
                for s in slots:
                    v = obj.attrs.get(s, I.ABSENT)
                    if v is I.ABSENT or (isinstance(v, Sym) and any(
                            t is I.ABSENT or (isinstance(t, Sym) and
                                              t.op == 'absent')
                            for t in T.subterms(v))):
                        missing.add(s)
            chk.ob('C19.S', q + '.__init__', nret > 0 and not missing,
                   'all %d slots assigned on %d normal exit(s)' %
                   (len(slots), nret) if not missing else
                   'may leave unset: %r' % (sorted(missing),), site=site)
    stable_tables(chk, ctx, classes)
    chk.floor('C19.O', 65, 'classes compared with the specified order')
    chk.floor('C19.I', 65, 'classes with __iter__ specialised')
    chk.floor('C19.S', 65, 'constructors analysed')
    chk.units['classes'] = nclasses
    chk.note('wire order is the specified argument order; C01/C04 tie '
             '__slots__ to the emitted layout as well')


def stable_tables(chk, ctx, classes):
    """C19.W: effects of the abstract marshal / unmarshal runs on objects
    created in the class bodies of the frame classes."""
    from .. import codec
    from .. import framepaths as F
    from .. import layout as L
    from .c16 import shared_effects
    prog = ctx.prog
    spans = []
    roots = [prog.classes.get('pamqp.base.' + n) for n in
             ('_AMQData', 'Frame', 'BasicProperties')]
    for c in list(classes) + [r for r in roots if r is not None]:
        spans.append((c.module.relpath, c.node.lineno,
                      getattr(c.node, 'end_lineno', c.node.lineno)))

    def in_class_scope(origin):
        if not isinstance(origin, str) or ':' not in origin:
            return False
        path, _, line = origin.rpartition(':')
        if not line.isdigit():
            return False
        return any(path == p and lo <= int(line) <= hi
                   for p, lo, hi in spans)

    pol = codec.FramePolicy(prog)
    bad, runs = [], 0
    for k, ci in ctx.index_mapping():
        if not isinstance(ci, ClassInfo):
            continue
        e = L.method_encode(ctx, pol, ci)
        f = F.UnmarshalFacts(ctx, k, assume_type=1)
        runs += 2
        for where, it_ in (('marshal', e['interp']), ('unmarshal', f.it)):
            for ef in shared_effects(it_):
                d = ef.detail
                origin = d[2] if isinstance(d, tuple) and len(d) > 2 \
                    else None
                if ef.kind == 'class-attr-write' or in_class_scope(origin):
                    bad.append((where, ci.short, ef))
    # the content header path carries Basic.Properties
    from .. import hdrlayout as H
    extra = [('marshal', 'header.ContentHeader',
              H.encode(ctx, pol)['interp']),
             ('unmarshal', 'any frame', F.UnmarshalFacts(ctx, None).it)]
    runs += 2
    for where, cshort, it_ in extra:
        for ef in shared_effects(it_):
            d = ef.detail
            origin = d[2] if isinstance(d, tuple) and len(d) > 2 else None
            if ef.kind == 'class-attr-write' or in_class_scope(origin):
                bad.append((where, cshort, ef))
    # ... and of the mapping protocol itself (__iter__, __repr__, __eq__,
    # accessors ...): reading a frame leaves its class tables alone
    from .c16 import data_model_effects
    dm, dm_runs = data_model_effects(ctx)
    runs += dm_runs
    for where_, ef in dm:
        cshort_, meth_ = where_.rsplit('.', 1)
        bad.append((meth_, cshort_, ef))
    seen = set()
    for where, cshort, ef in bad:
        key = (where, ef.kind, ef.site)
        if key in seen:
            continue
        seen.add(key)
        chk.ob('C19.W', '%s %s at %s' % (where, ef.kind, ef.site), False,
               '%s of %s writes a class-level table: %s %s' % (
                   where, cshort, ef.kind, str(ef.detail)[:120]),
               site=ef.site)
    chk.ob('C19.W', 'effects of marshal / unmarshal', not bad,
           '%d abstract runs, %d writes to class-level tables' %
           (runs, len(bad)))
