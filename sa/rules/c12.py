"""C12 - encoding is deterministic, order-independent and does not mutate
its input."""
import ast

from .. import codec
from .. import hdrlayout as H
from .. import interp as I
from .. import layout as L
from .. import models
from .. import tables
from .. import terms as T
from ..model import AnalysisError, ClassInfo
from ..terms import Sym

RULES = {
    'C12.S': 'sorted iteration: every loop / comprehension on the encode '
             'side whose iterable derives from a dict is wrapped in sorted '
             '(default or key-only ordering); nested tables re-enter the '
             'same function',
    'C12.M': 'no mutation: nothing reachable from frame.marshal / encode.* '
             'stores through, deletes from or calls a mutating method on a '
             'parameter, self or anything reachable from them',
    'C12.D': 'determinism: the only run-time module state read is the '
             'legacy switch; no nondeterministic primitive, no iteration '
             'over a set or unsorted dict feeds the output',
}
DICT_VIEWS = {'items', 'keys', 'values'}


def input_effects(it, input_ids):
    """Effects that write to the caller's objects."""
    bad = []
    for e in it.effects:
        if e.kind in ('setattr-sym', 'setitem-sym', 'delitem-sym',
                      'setattr-dynamic'):
            bad.append(e)
        elif e.kind == 'mutating-method':
            if isinstance(e.target, Sym):
                bad.append(e)
            elif isinstance(e.target, T.Ref) and e.target.id in input_ids:
                bad.append(e)
        elif e.kind in ('setattr', 'setitem', 'delitem'):
            if isinstance(e.target, T.Ref) and e.target.id in input_ids:
                bad.append(e)
            elif isinstance(e.target, Sym):
                bad.append(e)
        elif e.kind == 'inplace-op':
            # an augmented assignment whose left operand is (derived from)
            # the caller's data and may be a mutable object
            if T.mentions(e.target, lambda t: t.op in ('param', 'field')):
                bad.append(e)
    return bad


def run(chk, ctx):
    for r, t in RULES.items():
        chk.rule(r, t)
    chk.explanation = (
        'Effect analysis of the encode side: the abstract interpreter runs '
        'frame.marshal for all 64 method classes, the content header, body, '
        'heartbeat and protocol header, and every function of pamqp.encode '
        'on symbolic inputs, recording each store / deletion / mutating '
        'call with its target; a target that is the input object, reachable '
        'from it, or a symbolic (caller-owned) value is a mutation. Dict '
        'iteration sites are located syntactically and by the residual '
        'iterable term and must be sorted. Run-time global reads and '
        'library calls are classified for determinism.')
    prog = ctx.prog
    pol = codec.FramePolicy(prog)
    emod = prog.module('encode')
    # ---- S
    nsites = 0
    funcs = list(emod.functions.values())
    for cname in ('base.Frame', 'base.BasicProperties',
                  'header.ContentHeader', 'header.ProtocolHeader',
                  'body.ContentBody', 'heartbeat.Heartbeat'):
        m = prog.find_method(prog.cls(cname), 'marshal')
        if m is not None:
            funcs.append(m)
    for fi in funcs:
        for n in ast.walk(fi.node):
            iters = []
            if isinstance(n, ast.For):
                iters.append(n.iter)
            elif isinstance(n, (ast.ListComp, ast.SetComp, ast.DictComp,
                                ast.GeneratorExp)):
                iters.extend(g.iter for g in n.generators)
            for it_ in iters:
                site = '%s:%d' % (fi.module.relpath, it_.lineno)
                kind = dict_iter_kind(it_)
                if kind is None:
                    continue
                nsites += 1
                chk.ob('C12.S', '%s iteration' % fi.short, kind == 'sorted',
                       'iterates %s' % ast.unparse(it_)[:80],
                       detail={'expected': 'sorted(<dict>.items())'},
                       site=site)
    tables.check_table_entry_order(chk, ctx, 'C12.S')
    # nested tables re-enter field_table through encode_table_value
    _fi, P, arms, _rej, _it = tables.value_arms(ctx)
    darm = tables.first_accepting(arms, P, 'dict')
    chk.ob('C12.S', 'nested tables', darm is not None and
           darm.callee == 'encode.field_table',
           'dict values are encoded by %s at every nesting level' %
           (darm.callee if darm else None), site='pamqp/encode.py')
    chk.floor('C12.S', 3, 'iteration facts')

    # ---- M / D over the frame level
    runs = 0
    globals_read = set()
    nondet = []
    unknown = []
    bad_all = []

    kept = []
    from .c16 import shared_effects

    def scan_outputs(it, outs, where):
        # state kept between calls: what one encode call leaves in a
        # module- or class-level object, the next one starts from
        for e_ in shared_effects(it):
            if e_.kind != 'raise-shared-exception':
                kept.append((where, e_))
        for o in outs:
            terms = []
            if o.kind == 'return' and isinstance(o.value, (Sym, tuple)):
                terms.append(o.value)
            terms.extend(a for a in o.state.kn.atoms if isinstance(a, Sym))
            for t in T.subterms(tuple(terms)):
                if t.op == 'global':
                    globals_read.add(t.args[0])
                if t.op == 'extcall' and t.args[0] in \
                        models.NONDETERMINISTIC:
                    nondet.append('%s in %s' % (t.args[0], where))
                if t.op in ('set', 'setcomp'):
                    nondet.append('set iteration/creation in %s' % where)
                if t.op == 'id':
                    nondet.append('id() in %s' % where)

    for _, ci in ctx.index_mapping():
        if not isinstance(ci, ClassInfo):
            continue
        e = L.method_encode(ctx, pol, ci)
        runs += 1
        ids = {e['ref'].id}
        for b in input_effects(e['interp'], ids):
            bad_all.append(('frame.marshal(%s)' % ci.short, b))
        scan_outputs(e['interp'], e['outs'], ci.short)
    # body, heartbeat and protocol header frames (the body value is left
    # untyped: nothing in the library requires it to be immutable bytes)
    for cshort, attrs in (
            ('body.ContentBody', {'value': Sym('field', 'value')}),
            ('heartbeat.Heartbeat', {}),
            ('header.ProtocolHeader', {k: Sym('field', k) for k in (
                'major_version', 'minor_version', 'revision')})):
        it_b = ctx.interp(pol)
        st_b = ctx.new_state()
        ref_b = it_b.alloc(st_b, I.InstObj(prog.cls(cshort), attrs))
        outs_b = it_b.run_function(prog.function('frame.marshal'),
                                   [ref_b, Sym('param', 'channel_id')], {},
                                   st_b)
        runs += 1
        for b in input_effects(it_b, {ref_b.id}):
            bad_all.append(('frame.marshal(%s)' % cshort, b))
        scan_outputs(it_b, outs_b, cshort)
    he = H.encode(ctx, pol)
    runs += 1
    for b in input_effects(he['interp'], he['input_ids']):
        bad_all.append(('frame.marshal(ContentHeader)', b))
    scan_outputs(he['interp'], he['outs'], 'ContentHeader')
    for fi in emod.functions.values():
        if fi.short == 'encode.support_deprecated_rabbitmq':
            continue
        it, outs = codec.run(prog, fi)
        runs += 1
        for b in input_effects(it, set()):
            bad_all.append((fi.short, b))
        scan_outputs(it, outs, fi.short)
        for note in it.notes:
            if note.startswith('unmodelled library call'):
                path = note.split()[3]
                if models.ambient(path):
                    nondet.append('ambient state: ' + note)
                else:
                    unknown.append(note)
    seen = set()
    for where, e in bad_all:
        k = (e.kind, T.show(e.target)[:60], e.site)
        if k in seen:
            continue
        seen.add(k)
        chk.ob('C12.M', '%s %s' % (e.kind, T.show(e.target)[:40]), False,
               '%s mutates its input: %s on %s (%s)' %
               (where, e.kind, T.show(e.target)[:60], e.detail),
               site=e.site)
    chk.ob('C12.M', 'encode side effects', not bad_all,
           '%d abstract runs of the encode side, %d writes to caller-owned '
           'objects' % (runs, len(bad_all)))
    chk.floor('C12.M', 1, 'effect summaries')
    okg = globals_read <= {'pamqp.encode.DEPRECATED_RABBITMQ_SUPPORT'}
    chk.ob('C12.D', 'run-time state read', okg,
           'run-time globals that influence the output: %r' %
           sorted(globals_read))
    kseen = set()
    for where, e_ in kept:
        k_ = (e_.kind, e_.site)
        if k_ in kseen:
            continue
        kseen.add(k_)
        chk.ob('C12.D', 'state kept by %s at %s' % (e_.kind, e_.site), False,
               'encoding %s writes a module- or class-level object (%s %s): '
               'the next encode call starts from what this one left there, '
               'so the same frame need not encode the same way twice' %
               (where, e_.kind, str(e_.detail)[:60]), site=e_.site)
    chk.ob('C12.D', 'no state kept between encode calls', not kept,
           '%d abstract runs, %d writes to module- or class-level objects' %
           (runs, len(kept)))
    from .c15 import scan_tz_calls
    _n, tzhits = scan_tz_calls(prog, [prog.module('encode'),
                                      prog.module('base'),
                                      prog.module('header'),
                                      prog.module('frame'),
                                      prog.module('common')])
    chk.ob('C12.D', 'process time zone', not tzhits,
           'no call on the encode side consults the process time zone'
           if not tzhits else 'the bytes depend on the process time zone '
           '(%s): the same frame encodes differently after TZ changes' %
           '; '.join('%s at %s' % (w, s_) for s_, w in tzhits[:2]))
    chk.ob('C12.D', 'nondeterministic primitives', not nondet,
           'none reachable' if not nondet else '; '.join(nondet[:3]))
    if unknown:
        chk.undecide('C12.D', 'library calls without a model',
                     '; '.join(sorted(set(unknown))[:3]))
    deco, unknown_deco = models.wrappers(prog, funcs)
    chk.ob('C12.D', 'no wrapper on the encode side', not deco,
           'no caching wrapper on the encode side' if not deco else
           'result may depend on call history through %s' % deco)
    if unknown_deco:
        chk.undecide('C12.D', 'decorators without a model',
                     '; '.join(unknown_deco[:3]))
    chk.assume('logging is an effect on the log, not on the result')
    chk.units['abstract_runs'] = runs


def dict_iter_kind(node):
    """'sorted' | 'unsorted' | None (not a dict iteration)"""
    def is_view(n):
        return isinstance(n, ast.Call) and isinstance(
            n.func, ast.Attribute) and n.func.attr in DICT_VIEWS
    if is_view(node):
        return 'unsorted'
    if isinstance(node, ast.Call) and isinstance(node.func, ast.Name):
        if node.func.id == 'sorted' and node.args:
            inner = node.args[0]
            if is_view(inner) or isinstance(inner, ast.Name):
                if any(k.arg == 'reverse' for k in node.keywords):
                    return 'unsorted'
                return 'sorted' if is_view(inner) else None
        if node.func.id in ('list', 'iter', 'reversed', 'enumerate',
                            'tuple') and node.args and is_view(
                                node.args[0]):
            return 'unsorted'
    return None
