"""C10 - encoders never emit bytes that decode to a different value.
Only the structural necessary conditions are decided (DESIGN.md C10); each
has a concrete counter-example value whenever it fails."""
import ast

from .. import codec
from .. import interp as I
from .. import isets
from .. import pairs
from .. import tables
from .. import terms as T
from ..isets import ISet
from ..model import AnalysisError, FuncInfo
from ..terms import Sym

RULES = {
    'C10.P': 'Pair(E, D) for every encoder/decoder pair (all METHODS wire '
             'types, all emitted table tags): equal width, byte order, '
             'signedness on the accepted range, consumed = emitted',
    'C10.N': 'every length prefix is len() of exactly the bytes emitted '
             'after it',
    'C10.G': 'every emission in a primitive encoder is behind a type guard '
             '(or a packing primitive that rejects other types); an explicit '
             'range guard lies within the format range',
    'C10.B': 'the bit encoder confines its contribution to one bit: the '
             'shifted operand is provably 0 or 1',
    'C10.L': 'no unguarded narrowing: a packed operand is the value itself, '
             'a length, a constant or a documented conversion; derived '
             'quantities are exact by construction or guarded by a raise',
    'C10.E': 'the empty-table shortcut applies to None / empty dict only '
             '(it is behind the type guard)',
}

DOCUMENTED_CONVERSIONS = {
    # encoder short -> reason the conversion of the operand is accepted
    'encode.timestamp': 'whole-second timestamps are a documented '
                        'normalisation (C10 statement); time-zone part '
                        'decided by C15',
    'encode.boolean': 'int(value) of a value guarded to be bool is exact',
}


def run(chk, ctx):
    for r, t in RULES.items():
        chk.rule(r, t)
    chk.explanation = (
        'The property quantifies over arbitrary Python values; no static '
        'argument bounds what a foreign object does. Decided here: the '
        'structural conditions without which silent corruption is possible '
        '(writer/reader agreement of every pair, prefix = length of what '
        'follows, type guards in front of every emission, bit confinement, '
        'no unguarded narrowing of a value-derived operand, the empty-table '
        'shortcut behind the type guard). Each is a necessary condition: a '
        'concrete corrupting value exists whenever one fails. Behaviour of '
        'values of unguarded foreign types, float and Decimal arithmetic is '
        'not decided.')
    prog, spec = ctx.prog, ctx.spec
    enc, dec = pairs.methods_tables(ctx)
    # ---- P / N over METHODS types
    npairs = 0
    for t in sorted(set(enc) & set(dec)):
        e, d = enc[t], dec[t]
        if e.name == '<lambda>':
            continue
        E, D = pairs.enc_desc(ctx, e), pairs.dec_desc(ctx, d)
        res = pairs.pair(E, D)
        npairs += 1
        site = '%s:%d / %s:%d' % (e.module.relpath, e.node.lineno,
                                  d.module.relpath, d.node.lineno)
        emit_pair(chk, 'type %r Pair(%s, %s)' % (t, e.short, d.short), res,
                  site, container=t in ('table', 'field_array', 'array'))
    # ---- P / N over table tags
    decs, _dups = tables.tag_decoders(ctx)
    fi, P, arms, rejects, it = tables.value_arms(ctx)
    todo = []
    for arm in arms:
        if arm.callee and arm.callee != 'encode.table_integer':
            todo.append((arm.tag, arm.callee, None))
    for legacy in (False, True):
        for s, arm in tables.ladder_arms(ctx, legacy)['arms']:
            if arm.callee:
                todo.append((arm.tag, arm.callee, s))
    seen = set()
    for tag, callee, arm_set in todo:
        if (tag, callee, arm_set) in seen:
            continue
        seen.add((tag, callee, arm_set))
        d = decs.get(tag)
        e = prog.functions.get('pamqp.' + callee)
        if not isinstance(d, FuncInfo) or e is None:
            chk.ob('C10.P', 'tag %r' % tag, False, 'no decoder / encoder')
            continue
        E, D = pairs.enc_desc(ctx, e), pairs.dec_desc(ctx, d)
        reach = None
        if arm_set is not None and arm_set.ivs:
            lo, hi = arm_set.ivs[0][0], arm_set.ivs[-1][1]
            reach = (None if lo == isets.NEG else int(lo),
                     None if hi == isets.POS else int(hi))
        res = pairs.pair(E, D, reach=reach)
        npairs += 1
        emit_pair(chk, 'tag %r Pair(%s, %s)' % (tag, e.short, d.short), res,
                  '%s:%d / %s:%d' % (e.module.relpath, e.node.lineno,
                                     d.module.relpath, d.node.lineno),
                  container=tag in (b'A', b'F'))
    chk.floor('C10.P', 12 + 15, 'pair clauses')

    # ---- G / L per primitive encoder
    emod = prog.module('encode')
    prims = {}
    for t, e in enc.items():
        if e.name != '<lambda>':
            prims[e.qualname] = e
    for tag, callee, _s in todo:
        e = prog.functions.get('pamqp.' + callee)
        if e is not None:
            prims[e.qualname] = e
    for q in sorted(prims):
        e = prims[q]
        E = pairs.enc_desc(ctx, e)
        site = '%s:%d' % (e.module.relpath, e.node.lineno)
        if not E.paths:
            chk.undecide('C10.G', e.short, 'no normal return')
            continue
        for i, p in enumerate(E.paths):
            cons = '%s path %d' % (e.short, i + 1)
            guarded = p.guard_types is not None
            struct_only = all(
                s.kind in ('fld', 'pad', 'const') and
                (s.kind != 'fld' or s.operand[0] in ('value', 'const'))
                for s in p.segs)
            none_only = any(isinstance(a, Sym) and a.op == 'is' and
                            a.args[0] is E.P and a.args[1] is None
                            for a in p.kn.known)
            is_shortcut = e.short == 'encode.field_table' and \
                len(p.segs) == 1 and p.segs[0].kind == 'const'
            if is_shortcut:
                chk.ob('C10.E', cons, guarded or none_only,
                       'returns the empty table under %s' %
                       [T.show(a)[:60] for a in p.kn.atoms],
                       detail={'expected': 'the value is None or a dict'},
                       site=site)
            elif p.term is None or not p.segs:
                # nothing is emitted on this path (the void encoder): there
                # is nothing a wrong value could be turned into
                chk.ob('C10.G', cons + ' type guard', True,
                       'emits nothing', site=site)
            else:
                chk.ob('C10.G', cons + ' type guard',
                       guarded or struct_only,
                       'emits under type guard %s' %
                       (sorted(p.guard_types) if guarded else
                        'none (struct.pack rejects other types: %s)' %
                        struct_only), site=site)
            # explicit range guard within the format range
            for s in p.segs:
                if s.kind == 'fld' and s.fkind == 'int' and \
                        s.operand[0] == 'value' and p.range is not None:
                    fr = pairs.fmt_range(s)
                    g = ISet.range(*p.range)
                    chk.ob('C10.G', cons + ' range guard',
                           g.subset(ISet.range(*fr)),
                           'guard %r within format range %r' %
                           (g, ISet.range(*fr)), site=site)
            # narrowing
            for s in p.segs:
                if s.kind != 'fld':
                    continue
                kind = s.operand[0]
                if kind in ('value', 'len', 'const'):
                    okk, why = True, 'operand is %s' % kind
                elif kind in ('int(value)', 'bool(value)') and \
                        p.guard_types is not None and \
                        p.guard_types <= {'bool', 'int'}:
                    okk, why = True, 'int() of a value guarded to be ' \
                        '%s is exact' % sorted(p.guard_types)
                elif e.short in DOCUMENTED_CONVERSIONS:
                    okk, why = True, DOCUMENTED_CONVERSIONS[e.short]
                else:
                    okk, why = judge_derived(s, p, E)
                chk.ob('C10.L', '%s operand of %r' % (cons, s.fmt), okk,
                       '%s: %s' % (T.show(s.arg)[:100], why), site=site)
    chk.floor('C10.G', 12, 'encoder paths')
    chk.floor('C10.L', 12, 'packed operands')

    # ---- B: the bit encoder
    bfi = emod.functions.get('bit')
    if bfi is None:
        chk.ob('C10.B', 'encode.bit', False, 'bit encoder missing')
    else:
        args = [Sym('param', 'value'),
                Sym('typed', Sym('param', 'byte'), ('int',), (0, 255)),
                Sym('typed', Sym('param', 'position'), ('int',), (0, 7))]
        itb, outs = codec.run(prog, bfi, args)
        site = '%s:%d' % (bfi.module.relpath, bfi.node.lineno)
        for o in outs:
            if o.kind != 'return':
                continue
            contrib = None
            v = o.value
            parts = v.args if isinstance(v, Sym) and v.op == 'bitor' \
                else (v,)
            for ptm in parts:
                if isinstance(ptm, Sym) and ptm.op == 'shl':
                    contrib = ptm
            okk = False
            why = 'no shifted contribution found in %s' % T.show(v)[:80]
            if contrib is not None:
                operand = contrib.args[0]
                t = o.state.kn.type_of(operand)
                iv = o.state.kn.lin_interval(operand) if isinstance(
                    operand, (Sym, int)) else (None, None)
                okk = (t is not None and t <= {'bool'}) or \
                    (t is not None and t <= {'int', 'bool'} and
                     iv[0] is not None and iv[1] is not None and
                     iv[0] >= 0 and iv[1] <= 1)
                why = 'shifts %s (type %s, range %s)' % (
                    T.show(operand)[:60], sorted(t) if t else 'unknown',
                    pairs._iv_text(iv))
            chk.ob('C10.B', 'encode.bit', okk, why,
                   detail={'needs': 'operand in {0, 1}: a bool guard, a '
                           'normalisation or a comparison'}, site=site)
        chk.floor('C10.B', 1, 'bit encoder paths')
    from .. import tsrules
    for cons, okk, why in tsrules.decimal_sign_rule(ctx):
        if okk is None:
            chk.undecide('C10.L', cons, why)
            continue
        chk.ob('C10.L', cons, okk, why, site='pamqp/encode.py::decimal')
    for cons, okk, why in tsrules.table_key_rule(ctx):
        if okk is not None:
            chk.ob('C10.L', cons, okk, why,
                   detail={'documented_exception': 'only keys longer than '
                           '128 characters are truncated'},
                   site='pamqp/encode.py::field_table')
    tsres, _n = tsrules.timestamp_operands(ctx)
    for cons, okk, why in tsres:
        chk.ob('C10.L', cons, okk, why, site='pamqp/encode.py::timestamp')
    for cons, okk, why in tsrules.timestamp_decode_rule(ctx):
        chk.ob('C10.P', cons, okk, why, site='pamqp/decode.py::timestamp')
    for cons, okk, why in tsrules.decimal_context_rule(ctx):
        chk.ob('C10.P', cons, okk, why, site='pamqp/decode.py::decimal')
    # nothing the caller put into a content header is dropped before it is
    # encoded: the constructor keeps the properties object it is given
    from .. import ctors
    r_ = ctors.passthrough(
        ctx, prog.cls('header.ContentHeader'),
        {'weight': 'int', 'body_size': 'int',
         'properties': 'inst:commands.Basic.Properties'})
    if r_ is None:
        chk.undecide('C10.L', 'header.ContentHeader()', 'no constructor')
    else:
        for nm, okc, text in r_[0]:
            chk.ob('C10.L', 'header.ContentHeader(%s)' % nm, okc,
                   'stores %s' % text, site='pamqp/header.py')
    # ... and every property that is set reaches the wire: each of the
    # property names has an encoder call on its value in the encoded header
    from .. import hdrlayout as H
    from .. import codec as _codec
    he_ = H.encode(ctx, _codec.FramePolicy(prog))
    if he_.get('term') is None:
        chk.undecide('C10.L', 'content header properties', 'frame.marshal '
                     'has no return for a content header')
    else:
        sent = {t.args[1].args[0] for t in T.subterms(he_['term'])
                if t.op == 'enc' and isinstance(t.args[1], Sym) and
                t.args[1].op == 'field'}
        want_ = list(ctx.slots_of(he_['pci']))
        lost = [n_ for n_ in want_ if n_ not in sent]
        chk.ob('C10.L', 'content header properties', not lost,
               'all %d properties are encoded when set' % len(want_)
               if not lost else 'propert%s %s never reach%s the wire: a '
               'value assigned to it is dropped without an error' % (
                   'y' if len(lost) == 1 else 'ies', ', '.join(lost),
                   'es' if len(lost) == 1 else ''),
               site='pamqp/base.py')
    # method frames: a struct '?' field takes the truth value of anything
    # (2, 'false', [0] all become 1), and an encode call that keeps its
    # output on the object serves it again after the object has changed
    from .. import layout as _L
    from ..model import ClassInfo as _CI
    from .c12 import input_effects
    pol_ = _codec.FramePolicy(prog)
    qbad, memo = [], []
    for _, ci_ in ctx.index_mapping():
        if not isinstance(ci_, _CI):
            continue
        e_ = _L.method_encode(ctx, pol_, ci_)
        for t in T.subterms(e_['term']) if e_.get('term') is not None \
                else ():
            if t.op == 'pack' and '?' in t.args[0]:
                fm_ = T.fmt(t.args[0])
                for (ch_, _sz, _sg, _k), a_ in zip(fm_.values, t.args[1]):
                    if ch_ == '?' and T.typeof(a_) != {'bool'}:
                        qbad.append('%s: %s packed with %r' % (
                            ci_.short, T.show(a_)[:40], t.args[0]))
        for b_ in input_effects(e_['interp'], {e_['ref'].id}):
            memo.append('%s: %s %s at %s' % (ci_.short, b_.kind,
                                             str(b_.detail)[:40], b_.site))
    he2_ = H.encode(ctx, pol_)
    for b_ in input_effects(he2_['interp'], he2_['input_ids']):
        memo.append('ContentHeader: %s %s at %s' % (
            b_.kind, str(b_.detail)[:40], b_.site))
    chk.ob('C10.L', "struct '?' fields", not qbad,
           "no argument is packed through a '?' field" if not qbad else
           "; ".join(sorted(set(qbad))[:3]) + ": any truthy value is sent "
           "as 1 without an error", site='pamqp/base.py')
    chk.ob('C10.L', 'encode keeps nothing on the object', not memo,
           'frame.marshal stores nothing on the frame it encodes'
           if not memo else 'frame.marshal stores on the object it encodes '
           '(%s): a later call can emit bytes that no longer match the '
           'object' % '; '.join(sorted(set(memo))[:2]),
           site='pamqp/base.py')
    # the frame envelope comes back as written: type, channel and size are
    # read unsigned (a channel >= 32768 read signed comes back negative)
    from .. import framepaths as _F
    f0_ = _F.UnmarshalFacts(ctx, None)
    if f0_.header is not None:
        chk.ob('C10.P', 'frame envelope read', f0_.header.norm_ok(),
               'header fields read as %s' % f0_.header.describe(),
               detail={'expected': 'u8 type, u16 channel, u32 size, '
                       'big-endian, as the encoder writes them'},
               site='pamqp/frame.py')
    else:
        chk.undecide('C10.P', 'frame envelope read', 'no header read found')
    # key truncation must be announced
    truncation_check(chk, ctx)
    chk.assume('values of foreign types that subclass the guarded types '
               'behave like them')
    chk.units['pairs'] = npairs


def emit_pair(chk, cons, res, site, container=False):
    for clause, okk, text in res:
        rule = 'C10.N' if clause == 'prefix' else 'C10.P'
        c = '%s %s' % (cons, clause)
        if container and clause in ('read', 'consumed', 'view', 'layout'):
            continue  # container bodies are judged by C03.C
        if okk is None:
            chk.undecide(rule, c, text)
        else:
            chk.ob(rule, c, okk, text, site=site)


def judge_derived(seg, path, E):
    """A packed operand that is an expression of the value: accepted when
    exact by construction or guarded by a conditional raise on the same
    value."""
    arg = seg.arg
    P = E.P
    # derived from the value's own exponent -> exact by construction
    if T.mentions(arg, lambda t: t.op == 'method' and
                  t.args[1] == 'as_tuple'):
        return True, 'scale derived from the value\'s own exponent'
    if T.mentions(arg, lambda t: t.op == 'attr' and t.args[1] == 'exponent'):
        return True, 'scale derived from the value\'s own exponent'
    for a in path.kn.atoms:
        if T.mentions(a, lambda t: (t.op == 'attr' and
                                    t.args[1] == 'exponent') or
                      (t.op == 'method' and t.args[1] == 'as_tuple')):
            return True, 'conversion chosen by a test on the value\'s own ' \
                'exponent (an integral Decimal converts exactly)'
    # guarded: some explicit raise of the encoder depends on a term that
    # also occurs in this operand (other than the bare value)
    subs = {t for t in T.subterms(arg) if t is not P and t.op not in
            ('param',)}
    for o in E.raises:
        if o.exc.primitive:
            continue
        for a in o.state.kn.atoms:
            if any(t in subs for t in T.subterms(a)):
                return True, 'a conditional raise depends on the same ' \
                    'derived quantity'
    if T.mentions(arg, lambda t: t.op == 'str'):
        return False, 'derived from the string form of the value, not from ' \
            'the value itself, and not guarded (Decimal("1E-7") has no "." ' \
            'in str(), so it is encoded as 0)'
    return False, 'value-derived operand without a guard'


def truncation_check(chk, ctx):
    """Key truncation in the table writer is accompanied by the warning."""
    prog = ctx.prog
    fi = prog.function('encode.field_table')
    # ... on every call: a caching wrapper would replay the bytes without
    # the warning
    from .. import models
    caching, unknown_deco = models.wrappers(
        prog, prog.module('encode').functions.values())
    chk.ob('C10.L', 'encode side wrappers', not caching,
           'no caching wrapper in pamqp.encode (the truncation warning is '
           'logged on every call)' if not caching else
           'cached: %s (a replayed result carries no warning)' % caching)
    if unknown_deco:
        chk.undecide('C10.L', 'decorators without a model',
                     '; '.join(unknown_deco[:3]))
    pol = tables.ArmPolicy(prog, {fi.qualname})
    it, outs = codec.run(prog, fi, None, pol)
    site = '%s:%d' % (fi.module.relpath, fi.node.lineno)
    sliced = False
    for lp in it.loops:
        for o in lp['conts']:
            for ob in o.state.store.values():
                if ob.kind == 'list':
                    for x in ob.items:
                        if isinstance(x, Sym) and T.mentions(
                                x, lambda t: t.op == 'slice' and
                                isinstance(t.args[2], int)):
                            sliced = True
    logs = [e for e in it.effects if e.kind == 'log']
    if not sliced:
        chk.ob('C10.L', 'table key truncation', True,
               'keys are not truncated', site=site)
        return
    # the warning and the truncation sit under the same condition: find the
    # If statement containing the slice assignment
    okk = False
    # (the condition may live in a private helper the table writer calls)
    fnodes = [fi.node]
    for c_ in it.calls:
        nm_ = c_[0]
        if not nm_.endswith('[summarised]') and not nm_.endswith(
                '[recursive]'):
            f_ = prog.functions.get('pamqp.' + nm_.split(' ')[0])
            if f_ is not None and f_.node not in fnodes:
                fnodes.append(f_.node)
    for n in (x for fn_ in fnodes for x in ast.walk(fn_)):
        if isinstance(n, ast.If):
            has_slice = any(isinstance(x, ast.Subscript) and
                            isinstance(x.slice, ast.Slice)
                            for b in n.body for x in ast.walk(b))
            has_log = any(isinstance(x, ast.Call) and
                          isinstance(x.func, ast.Attribute) and
                          x.func.attr in ('warning', 'warn', 'error',
                                          'critical')
                          for b in n.body for x in ast.walk(b))
            if has_slice and has_log:
                okk = True
    chk.ob('C10.L', 'table key truncation', okk and bool(logs),
           'keys longer than the limit are truncated together with a '
           'logged warning (%d log call(s) on the path)' % len(logs),
           site=site)
