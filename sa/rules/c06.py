"""C06 - decoding consumes exactly one frame and ignores what follows it.
Path rules over every successful return of frame.unmarshal."""
from .. import framepaths as F
from .. import layout as L
from .. import terms as T
from ..model import AnalysisError
from ..terms import Sym

RULES = {
    'C06.N': 'consumed count and channel of every successful return are the '
             'ones in the 7-byte header (size + 8); a protocol header '
             'consumes 8 on channel 0 and only under the b"AMQP" guard',
    'C06.E': 'every successful return other than the protocol header is '
             'guarded by data[consumed-1] == FRAME_END',
    'C06.K': 'the kind of object returned is the one named by the header\'s '
             'type octet (1 method, 2 header, 3 body, 8 heartbeat)',
    'C06.V': 'on every successful path the buffer is used only as len(), as '
             'a slice ending at or before the consumed count, or as an index '
             'below it: no byte after the frame can influence the result',
    'C06.P': 'the payload is taken as sent: no view of the buffer on a '
             'successful path goes through a content-dependent bytes method '
             '(strip, split, replace, find ...)',
}
CONTENT_METHODS = {
    'strip', 'rstrip', 'lstrip', 'split', 'rsplit', 'splitlines',
    'partition', 'rpartition', 'replace', 'translate', 'removeprefix',
    'removesuffix', 'find', 'rfind', 'index', 'rindex', 'count', 'lower',
    'upper', 'title', 'capitalize', 'swapcase', 'expandtabs', 'zfill',
    'center', 'ljust', 'rjust', 'startswith', 'endswith',
}

KIND_CONST = {'method': 'FRAME_METHOD', 'header': 'FRAME_HEADER',
              'body': 'FRAME_BODY', 'heartbeat': 'FRAME_HEARTBEAT'}
SPEC_KIND = {'method': 1, 'header': 2, 'body': 3, 'heartbeat': 8}


def keys_for(ctx):
    ks = [k for k, _ in ctx.index_mapping()]
    if ctx.tier == 'thorough':
        return ks
    return [ks[0], ks[len(ks) // 2], ks[-1]] if ks else []


def arm_name(f, r):
    k = f.kind_of(r)
    return '%s return' % (k or 'unknown')


def payload_edits(f, r, data):
    """Content-dependent bytes methods applied to views of the buffer in
    what a successful return is built from."""
    edits = []
    for t in T.subterms(tuple(r.reachable_terms(f.it))):
        if t.op == 'method' and isinstance(t.args[1], str) and \
                t.args[1] in CONTENT_METHODS and \
                T.mentions(t.args[0], lambda x: x is data):
            edits.append('%s(...) on %s' % (
                t.args[1], T.show(t.args[0])[:60]))
    return edits


def run(chk, ctx):
    for r, t in RULES.items():
        chk.rule(r, t)
    chk.explanation = (
        'Abstract interpretation of frame.unmarshal on a symbolic buffer: '
        'every successful return is obtained with its path knowledge (branch '
        'atoms, success facts of size-checked reads); the returned consumed '
        'count, channel and object kind are compared with the header read, '
        'the end-octet guard must be among the path facts, and every use of '
        'the buffer on the path and in the result must be a view bounded by '
        'the consumed count. All inputs at once: the buffer is symbolic.')
    prog = ctx.prog
    st_it = ctx.static()
    cmod = prog.module('constants')
    fe = st_it.global_value(cmod, 'FRAME_END')
    seen_kinds = set()
    size_seen = set()
    first = True
    for key in keys_for(ctx):
        f = F.UnmarshalFacts(ctx, key)
        data = f.data
        if not F.header_or_violation(chk, 'C06.N', f):
            return
        hf = f.header
        size_t, ch_t, ty_t = f.hfield(2), f.hfield(1), f.hfield(0)
        if first:
            chk.ob('C06.N', 'header read', hf.norm_ok(),
                   'header fields read as %s' % hf.describe())
        for r in f.rets:
            kind = f.kind_of(r)
            cons = arm_name(f, r)
            if kind == 'method':
                if not first and 'method' in seen_kinds and \
                        ctx.tier != 'thorough':
                    pass
                cons = 'method return [%s]' % r.cls.short
            elif not first:
                continue  # non-method arms do not depend on the key
            seen_kinds.add(kind)
            site = 'pamqp/frame.py::unmarshal'
            if not r.ok_shape or kind in (None, 'other'):
                chk.ob('C06.K', cons, False, 'returns %s' %
                       T.show(r.value)[:120], site=site)
                continue
            kn = r.kn
            if kind == 'protocol':
                g = kn.decide(T.compare('eq', T.slice_(data, 0, 4), b'AMQP'))
                chk.ob('C06.N', cons, r.n == 8 and r.ch == 0 and g is True,
                       'returns (%s, %s, ProtocolHeader) under data[0:4] == '
                       'b"AMQP": %s' % (T.show(r.n), T.show(r.ch), g),
                       site=site)
            else:
                want = T.add(size_t, hf.size + 1)
                n_ok = kn.decide(T.compare('eq', r.n, want)) is True \
                    if not (T.sub(r.n, want) == 0) else True
                chk.ob('C06.N', cons, n_ok and r.ch is ch_t,
                       'consumed = %s, channel = %s' %
                       (T.show(r.n)[:80], T.show(r.ch)[:80]),
                       detail={'expected_consumed': T.show(want)[:80],
                               'expected_channel': T.show(ch_t)[:80]},
                       site=site)
                last = T.sub(r.n, 1)
                fec = st_it.global_value(cmod, 'FRAME_END_CHAR')
                e_ok = F.end_octet_guarded(kn, data, last, fe, fec) or \
                    F.end_octet_guarded(kn, data, T.add(size_t, hf.size),
                                        fe, fec)
                chk.ob('C06.E', cons, e_ok,
                       'path facts %s data[consumed-1] == %r' %
                       ('include' if e_ok else 'do NOT include', fe),
                       site=site)
                kc = st_it.global_value(cmod, KIND_CONST[kind])
                k_ok = kn.decide(T.compare('eq', ty_t, kc)) is True and \
                    kc == SPEC_KIND[kind]
                chk.ob('C06.K', cons, k_ok,
                       '%s object returned under header type == %r' %
                       (kind, kc), detail={'specified': SPEC_KIND[kind]},
                       site=site)
            # a complete valid frame is decoded whatever size its header
            # announces: no cap below what the 32-bit size field can say
            if kind in ('method', 'header', 'body') and \
                    (kind, 'size') not in size_seen:
                size_seen.add((kind, 'size'))
                hi_ = kn.lin_interval(size_t)[1]
                chk.ob('C06.N', '%s frames: accepted sizes' % kind,
                       hi_ is None or hi_ >= (1 << 32) - 1,
                       'no upper limit on the payload size below the field '
                       'width' if hi_ is None or hi_ >= (1 << 32) - 1 else
                       'frames announcing more than %d payload bytes are '
                       'never decoded (the stream stalls there)' % hi_,
                       site=site)
            # bounded views
            terms = r.reachable_terms(f.it) + [a for a in kn.atoms
                                               if isinstance(a, Sym)]
            bad = []
            nuses = 0
            for ukind, lo, hi, t in F.data_uses(terms, data):
                nuses += 1
                if ukind == 'len':
                    continue
                if ukind == 'slice':
                    if hi is None:
                        bad.append('unbounded view %s' % T.show(t)[:80])
                        continue
                    if (isinstance(hi, int) and hi < 0) or \
                            (isinstance(lo, int) and lo < 0):
                        bad.append('view %s is measured from the end of the '
                                   'buffer, not of the frame' %
                                   T.show(t)[:80])
                        continue
                    d = T.sub(r.n, hi)
                    lo_b = kn.lin_interval(d)[0] if not isinstance(d, int) \
                        else d
                    if lo_b is None or lo_b < 0:
                        bad.append('view %s may extend past the consumed '
                                   'count' % T.show(t)[:80])
                elif ukind == 'index':
                    d = T.sub(r.n, T.add(lo, 1))
                    lo_b = kn.lin_interval(d)[0] if not isinstance(d, int) \
                        else d
                    if lo_b is None or lo_b < 0:
                        bad.append('index %s may be past the consumed count'
                                   % T.show(t)[:80])
                else:
                    bad.append('whole buffer used in %s' % T.show(t)[:80])
            chk.ob('C06.V', cons, not bad,
                   '%d uses of the buffer, all bounded by the consumed '
                   'count' % nuses if not bad else '; '.join(bad[:3]),
                   site=site)
            # the frame handed on is the bytes that were sent: no view of
            # the buffer goes through a content-dependent bytes method
            edits = payload_edits(f, r, data)
            chk.ob('C06.P', cons, not edits,
                   'views of the buffer are used as they are' if not edits
                   else 'the result depends on the payload through %s: '
                   'frames whose bytes match are not returned as sent' %
                   '; '.join(sorted(set(edits))[:2]), site=site)
        first = False
    # frame k of a stream does not depend on frames 1..k-1: every mutable
    # object in a result is created by that call (a default object shared
    # between calls would carry values over from an earlier frame)
    from .c16 import check_fresh
    chk.rule('C06.F', 'the result of decoding a frame is built from objects '
             'created in that call: nothing is carried over from the frames '
             'decoded before')
    f0 = F.UnmarshalFacts(ctx, None)
    for r in f0.rets:
        if f0.kind_of(r) in ('protocol', 'header', 'body', 'heartbeat'):
            check_fresh(chk, f0, r, '%s result' % f0.kind_of(r), 'C06.F')
    missing = {'protocol', 'heartbeat', 'method', 'header', 'body'} - \
        seen_kinds
    chk.ob('C06.K', 'all five kinds', not missing,
           'successful returns exist for %s' % sorted(str(k_) for k_ in seen_kinds),
           detail={'missing': sorted(missing)})
    chk.floor('C06.N', 6, 'successful returns')
    chk.assume('C01.I shows for all 64 classes that the method object is an '
               'instance of the class mapped from the index read')
