"""C15 - timestamp handling does not depend on the host time zone or DST:
no operation whose result depends on the process time zone is reachable."""
import ast
import os

from .. import codec
from .. import interp as I
from .. import models
from .. import pairs
from .. import terms as T
from ..model import AnalysisError, Program
from ..report import VERIF
from ..terms import Sym

RULES = {
    'C15.A': 'API discipline: no call in the package is classified '
             'time-zone dependent (mktime, localtime, now/today, '
             'fromtimestamp without tz, astimezone() without argument ...)',
    'C15.T': 'awareness typestate: the receiver of .timestamp() is aware on '
             'all paths (naive values get tzinfo=utc first, the others are '
             'used as they are)',
    'C15.S': 'struct_time is converted by calendar.timegm (UTC by '
             'definition)',
    'C15.U': 'the decoder builds its result with fromtimestamp(..., '
             'tz=timezone.utc) and nothing afterwards strips or converts '
             'the zone',
}
UTC = 'datetime.timezone.utc'


def _utc_result(v):
    return isinstance(v, Sym) and v.op == 'extcall' and \
        v.args[0] == 'datetime.datetime.fromtimestamp' and \
        (is_utc(dict(v.args[2]).get('tz')) or
         (len(v.args[1]) >= 2 and is_utc(v.args[1][1])))


def decoder_utc(ctx):
    """(ok, text): every return of decode.timestamp is
    fromtimestamp(..., tz=utc) itself."""
    enc, dec = pairs.methods_tables(ctx)
    td = dec.get('timestamp')
    if td is None:
        return False, 'no timestamp decoder'
    D = pairs.dec_desc(ctx, td)
    bad = [T.show(dp.value)[:120] for dp in D.paths
           if not _utc_result(dp.value)]
    return not bad, ('built by fromtimestamp(..., tz=utc)' if not bad else
                     'returns %s: the value is built from local time (and '
                     'only labelled UTC) or converted afterwards' % bad[0])


def scan_tz_calls(prog, module_infos):
    """Classify every call expression by its statically resolved dotted
    name.  -> (ncalls, [(site, what)])"""
    hits = []
    n = 0
    for mi in module_infos:
        for node in ast.walk(mi.tree):
            if not isinstance(node, ast.Call):
                continue
            n += 1
            tgt = prog.resolve_static(mi, node.func, mi)
            path = tgt[1] if isinstance(tgt, tuple) and tgt[0] == 'ext' \
                else None
            site = '%s:%d' % (mi.relpath, node.lineno)
            if path in models.TZ_DEPENDENT_CALLS:
                hits.append((site, path))
            elif path in ('datetime.datetime.fromtimestamp',
                          'datetime.date.fromtimestamp'):
                has_tz = len(node.args) >= 2 or any(
                    k.arg in ('tz',) for k in node.keywords)
                if not has_tz:
                    hits.append((site, path + ' without tz'))
            elif isinstance(node.func, ast.Attribute):
                if node.func.attr == 'astimezone':
                    # without argument: converts to local time; with an
                    # argument: a naive receiver is taken as local time
                    hits.append((site, '.astimezone(...) (local time is '
                                 'consulted for naive receivers)'))
                elif node.func.attr in ('mktime', 'localtime', 'ctime',
                                        'utcfromtimestamp', 'utcnow',
                                        'strftime') and path is None:
                    hits.append((site, 'unresolved call .%s()' %
                                 node.func.attr))
    return n, hits


def is_utc(v):
    return isinstance(v, I.Ext) and v.path == UTC


from ..tsrules import naive_test_ok  # noqa: E402


def run(chk, ctx):
    for r, t in RULES.items():
        chk.rule(r, t)
    chk.explanation = (
        'The quantifier is over process configurations; the static argument '
        'is that no operation whose result depends on the process time zone '
        'is reachable: every call expression of the package is resolved '
        'through the import aliases and classified with a table of '
        'time-zone dependent primitives, and the receiver of every '
        '.timestamp() call is shown aware on all paths by the abstract '
        'interpreter (a conditional replace(tzinfo=utc) guarded by the '
        'naive test, joined at the merge). A positive-control file with '
        'local-time calls must be flagged on every run.')
    prog = ctx.prog
    n, hits = scan_tz_calls(prog, prog.modules.values())
    chk.ob('C15.A', 'package call sites', not hits,
           '%d call expressions, %d time-zone dependent' % (n, len(hits)),
           detail={'hits': hits[:5]})
    for site, what in hits:
        chk.ob('C15.A', 'call %s' % what, False,
               'time-zone dependent call at %s' % site, site=site)
    chk.floor('C15.A', 1, 'scans')
    # positive control
    ctl = os.path.join(VERIF, 'selftest', 'controls')
    tmp = None
    try:
        import shutil
        import tempfile
        tmp = tempfile.mkdtemp(prefix='c15ctl-')
        os.mkdir(os.path.join(tmp, 'pamqp'))
        shutil.copy(os.path.join(ctl, 'tz_local.py'),
                    os.path.join(tmp, 'pamqp', 'tz_local.py'))
        cprog = Program(tmp)
        cn, chits = scan_tz_calls(cprog, cprog.modules.values())
    except Exception as err:
        raise AnalysisError('positive control could not be analysed: %s' %
                            err)
    finally:
        if tmp is not None:
            shutil.rmtree(tmp, ignore_errors=True)
    if len(chits) < 5:
        raise AnalysisError('positive control: only %d of 5 local-time '
                            'calls were flagged' % len(chits))
    chk.extra['positive_control'] = {'file': 'selftest/controls/'
                                     'tz_local.py', 'flagged': len(chits)}
    # encoder typestate
    enc, dec = pairs.methods_tables(ctx)
    te = enc.get('timestamp')
    if te is None:
        raise AnalysisError('anchor vanished: timestamp encoder')
    E = pairs.enc_desc(ctx, te)
    site = '%s:%d' % (te.module.relpath, te.node.lineno)
    # no caching wrapper on the timestamp path: a cache keyed by == / hash
    # of a datetime ignores `fold`, so the two readings of a repeated hour
    # would share one result
    tfuncs = {te.qualname: te}
    descs = [E]
    td_ = dec.get('timestamp')
    if td_ is not None:
        tfuncs[td_.qualname] = td_
        descs.append(pairs.dec_desc(ctx, td_))
    for desc in descs:
        for short, _c, _s, _d in desc.interp.calls:
            f_ = prog.functions.get('pamqp.' + short.split(' ')[0])
            if f_ is not None:
                tfuncs[f_.qualname] = f_
    caching, unknown_deco = models.wrappers(prog, tfuncs.values())
    chk.rule('C15.W', 'no caching wrapper sits on the timestamp encode / '
             'decode path (datetime equality and hashing ignore fold)')
    chk.ob('C15.W', 'timestamp path wrappers', not caching,
           '%d functions on the timestamp path, none cached' % len(tfuncs)
           if not caching else 'cached: %s' % caching)
    if unknown_deco:
        chk.undecide('C15.W', 'decorators without a model',
                     '; '.join(unknown_deco[:3]))
    nts = 0
    for i, p in enumerate(E.paths):
        for s in p.segs:
            if s.kind != 'fld':
                continue
            arg = s.arg
            ts_calls = [t for t in T.subterms(arg)
                        if t.op == 'method' and t.args[1] == 'timestamp']
            tg_calls = [t for t in T.subterms(arg) if t.op == 'extcall']
            for t in ts_calls:
                nts += 1
                recv = t.args[0]
                okk = False
                why = 'receiver %s' % T.show(recv)[:140]
                if isinstance(recv, Sym) and recv.op == 'cond':
                    g, a, b = recv.args
                    rep_ok = isinstance(a, Sym) and a.op == 'method' and \
                        a.args[0] is E.P and a.args[1] == 'replace' and \
                        len(a.args) > 3 and dict(a.args[3]).get(
                            'tzinfo') is not None and \
                        is_utc(dict(a.args[3]).get('tzinfo'))
                    okk = rep_ok and b is E.P and naive_test_ok(g, E.P)
                    why = 'naive test %s -> replace(tzinfo=utc), else the ' \
                        'value itself' % T.show(g)[:100]
                chk.ob('C15.T', 'encode.timestamp path %d .timestamp()' %
                       (i + 1), okk, why, site=site)
            for t in tg_calls:
                okk = t.args[0] == 'calendar.timegm' and \
                    t.args[1] == (E.P,)
                chk.ob('C15.S', 'encode.timestamp path %d' % (i + 1), okk,
                       'struct_time converted by %s' % t.args[0], site=site)
            # the number written is the conversion result itself: nothing
            # else computed from the value (an offset field, a second
            # conversion) is mixed into it
            convs = ts_calls + [c for c in tg_calls
                                if c.args[0] == 'calendar.timegm']

            def leaves(x):
                while isinstance(x, Sym) and x.op in ('int', 'typed') \
                        and x.args:
                    x = x.args[0]
                if isinstance(x, Sym) and x.op == 'cond':
                    return leaves(x.args[1]) + leaves(x.args[2])
                return [x]
            if convs:
                lv = leaves(arg)
                cons_ = 'encode.timestamp path %d operand' % (i + 1)
                if all(any(x is t for t in convs) for x in lv):
                    chk.ob('C15.S', cons_, True, 'the field holds the '
                           'conversion result itself', site=site)
                else:
                    rest = tuple(x for x in lv
                                 if not any(x is t for t in convs))
                    for t in convs:
                        rest = T.subst(rest, {t: 0})
                    if T.mentions(rest, lambda x: x is E.P):
                        chk.ob('C15.S', cons_, False,
                               'the field holds %s: the conversion result '
                               'is adjusted by something else read from the '
                               'value' % T.show(arg)[:160], site=site)
                    else:
                        chk.undecide('C15.S', cons_, 'the field holds %s, '
                                     'not the conversion result itself' %
                                     T.show(arg)[:160])
    chk.floor('C15.T', 1, '.timestamp() receivers', count=nts)
    chk.floor('C15.S', 1, 'struct_time conversions')
    # any other .timestamp() call in the package must be analysed too
    others = []
    for mi in prog.modules.values():
        for node in ast.walk(mi.tree):
            if isinstance(node, ast.Call) and isinstance(
                    node.func, ast.Attribute) and \
                    node.func.attr == 'timestamp':
                others.append('%s:%d' % (mi.relpath, node.lineno))
    chk.ob('C15.T', '.timestamp() call sites', len(others) == nts,
           '%d .timestamp() call site(s) in the package, %d analysed in '
           'encode.timestamp' % (len(others), nts),
           detail={'sites': others})
    # decoder
    td = dec.get('timestamp')
    D = pairs.dec_desc(ctx, td)
    dsite = '%s:%d' % (td.module.relpath, td.node.lineno)
    for dp in D.paths:
        v = dp.value
        okk = _utc_result(v)
        chk.ob('C15.U', 'decode.timestamp result', okk,
               'returns %s' % T.show(v)[:160], site=dsite)
    # ... and the instant decoded is the instant encoded, up to 2106
    from .. import tsrules as _ts
    for cons_, okk_, why_ in _ts.timestamp_decode_rule(ctx):
        chk.ob('C15.U', cons_, okk_, why_, site=dsite)
    chk.floor('C15.U', 1, 'decoder results')
    chk.assume('calendar arithmetic inside CPython (timegm, aware '
               'timestamp()) is time-zone independent as documented')
