"""C11 - table integers use the smallest fitting type; legacy mode restricts
types.  Interval analysis of the comparison chains decides the ladder for
all of Z."""
import ast

from .. import codec
from .. import interp as I
from .. import isets
from .. import pairs
from .. import tables
from .. import terms as T
from ..isets import ISet
from ..model import AnalysisError
from ..terms import Sym

RULES = {
    'C11.P': 'the ladder partitions Z exactly like first-fit over the '
             'documented order of types (b s u I i l; legacy: b s I l), '
             'everything else is refused',
    'C11.E': 'each arm\'s encoder accepts the whole arm (explicit guard and '
             'packing format range), refusals are TypeError, and each '
             'fixed-width integer encoder\'s guard equals its format range',
    'C11.L': 'with the legacy switch on only tags b, s, I, l can be emitted, '
             'for the same accepted set [-2^63, 2^63-1]',
    'C11.W': 'integer tags are emitted only by the ladder functions and the '
             'int arm of the value dispatcher reaches them only through '
             'table_integer, so nesting cannot bypass the switch',
    'C11.S': 'the switch is one module global, read on every ladder call, '
             'written only by support_deprecated_rabbitmq with its '
             'parameter, whose default is True',
}


def first_fit(spec, order):
    tags = spec.tables['field_tags']
    out = []
    taken = ISet.empty()
    for t in order:
        ref = tags[t]
        bits = 8 * ref['size']
        rng = ISet.range(-(1 << (bits - 1)) if ref['signed'] else 0,
                         (1 << (bits - 1)) - 1 if ref['signed']
                         else (1 << bits) - 1)
        mine = rng.minus(taken)
        out.append((t, mine, rng))
        taken = taken.union(rng)
    return out, taken.complement()


def fmt_set(seg):
    return ISet.range(*pairs.fmt_range(seg))


def run(chk, ctx):
    for r, t in RULES.items():
        chk.rule(r, t)
    chk.explanation = (
        'An integer is only compared with constants before it is packed, so '
        'the ladder is piecewise constant over intervals delimited by '
        'constants in the source. The abstract interpreter yields every '
        'return path of the ladder with its guard atoms; interval-set '
        'arithmetic turns each path into the exact set of integers that '
        'take it, which is compared with the first-fit partition computed '
        'from the transcribed type ranges. Decides the property for all '
        'integers, boundaries included.')
    prog, spec = ctx.prog, ctx.spec
    emod = prog.module('encode')
    for legacy, order in ((False, spec.tables['integer_ladder']),
                          (True, spec.tables['legacy_ladder'])):
        mode = 'legacy' if legacy else 'normal'
        lad = tables.ladder_arms(ctx, legacy)
        site = 'pamqp/encode.py (%s)' % ', '.join(lad['funcs'])
        for p in lad['problems']:
            chk.undecide('C11.P', mode + ' ladder', p)
        want, want_reject = first_fit(spec, order)
        got = {}
        for s, arm in lad['arms']:
            tg = arm.tag.decode('latin-1')
            got[tg] = got.get(tg, ISet.empty()).union(s)
        for t, mine, rng in want:
            g = got.get(t, ISet.empty())
            chk.ob('C11.P', '%s ladder arm %r' % (mode, t), g == mine,
                   'integers encoded with tag %r: %r' % (t, g),
                   detail={'first_fit': repr(mine)}, site=site)
        for t in sorted(set(got) - {w[0] for w in want}):
            chk.ob('C11.L' if legacy else 'C11.P',
                   '%s ladder arm %r' % (mode, t), False,
                   'tag %r emitted for %r but is not in the documented '
                   'order %r' % (t, got[t], order), site=site)
        chk.ob('C11.P', mode + ' ladder refusal',
               lad['reject'] == want_reject and
               lad['reject_types'] <= {'TypeError'} and
               bool(lad['reject_types']),
               'refused with %s: %r' % (sorted(lad['reject_types']),
                                        lad['reject']),
               detail={'expected': repr(want_reject)}, site=site)
        # ... and with TypeError only, for every integer however large:
        # the ladder run on a value known to be an int (comparisons cannot
        # fail; what can is building the message)
        int_refusal_types(chk, ctx, mode, legacy, site)
        if legacy:
            acc = ISet.empty()
            for s in got.values():
                acc = acc.union(s)
            chk.ob('C11.L', 'legacy accepted set',
                   acc == ISet.range(-(1 << 63), (1 << 63) - 1) and
                   set(got) <= set(order),
                   'legacy mode emits tags %r for %r' % (sorted(got), acc),
                   site=site)
        # each arm's encoder takes the whole arm
        for s, arm in lad['arms']:
            tg = arm.tag.decode('latin-1')
            if not arm.callee:
                chk.undecide('C11.E', '%s arm %r' % (mode, tg),
                             'arm does not call one encoder')
                continue
            fi = prog.functions.get('pamqp.' + arm.callee)
            E = pairs.enc_desc(ctx, fi)
            sf = tables.single_field(E)
            if sf is None:
                chk.undecide('C11.E', '%s arm %r' % (mode, tg),
                             'encoder %s does not emit one packed field' %
                             arm.callee)
                continue
            accept = ISet.empty()
            desc = []
            for seg, p in sf:
                a = fmt_set(seg)
                if p.range is not None:
                    a = a.inter(ISet.range(*p.range))
                accept = accept.union(a)
                desc.append('packs %r -> %r%s' % (
                    seg.fmt, fmt_set(seg),
                    ', guard %r' % (ISet.range(*p.range),)
                    if p.range is not None else ''))
            missing = s.minus(accept)
            chk.ob('C11.E', '%s arm %r (%s)' % (mode, tg, arm.callee),
                   missing.is_empty(),
                   'arm %r; encoder %s' % (s, '; '.join(desc)),
                   detail={'missing': repr(missing)},
                   site='%s:%d' % (fi.module.relpath, fi.node.lineno))
        chk.ob('C11.S', mode + ' switch read',
               lad['flag_reads'] >= 1,
               'table_integer reads the legacy switch %d time(s) per call' %
               lad['flag_reads'], site=site)
    # fixed-width encoders: guard == format range, refusals are TypeError
    n_fixed = 0
    for name in ('short_int', 'short_uint', 'long_int', 'long_uint',
                 'long_long_int'):
        fi = emod.functions.get(name)
        if fi is None:
            chk.ob('C11.E', 'encode.' + name, False, 'encoder missing')
            continue
        n_fixed += 1
        E = pairs.enc_desc(ctx, fi)
        sf = tables.single_field(E)
        site = '%s:%d' % (fi.module.relpath, fi.node.lineno)
        if sf is None or len(sf) != 1:
            chk.undecide('C11.E', fi.short, 'does not emit one packed field '
                         'on one path')
            continue
        seg, p = sf[0]
        guard = ISet.range(*p.range) if p.range is not None else ISet.all()
        # exact guard from the path atoms (handles non-convex spellings)
        try:
            guard = isets.path_set(p.kn.atoms, E.P)
        except isets.NotInterval:
            pass
        explicit = [o for o in E.raises if not o.exc.primitive]
        rej = ISet.empty()
        rtypes = set()
        typeguard = False
        for o in explicit:
            rtypes.add(o.exc.type_name)
            try:
                r = isets.path_set(o.state.kn.atoms, E.P)
            except isets.NotInterval:
                r = ISet.empty()
            # the type-guard refusal covers every integer value of a
            # non-int; it is not a range refusal
            if any(isinstance(a, Sym) and a.op == 'not' and
                   isinstance(a.args[0], Sym) and
                   a.args[0].op == 'isinstance'
                   for a in o.state.kn.atoms):
                typeguard = True
                continue
            rej = rej.union(r)
        # anything else that can be raised while an out-of-range integer is
        # being refused (e.g. while the message is built) is a refusal too
        for o in E.raises:
            if not o.exc.primitive:
                continue
            try:
                r = isets.path_set(o.state.kn.atoms, E.P)
            except isets.NotInterval:
                continue
            if not r.is_empty() and r.inter(guard).is_empty() and \
                    not r == ISet.all():
                rtypes.add(o.exc.type_name)
        okk = guard == fmt_set(seg) and rej == fmt_set(seg).complement() \
            and rtypes <= {'TypeError'} and typeguard and \
            p.guard_types is not None and p.guard_types <= {'int'}
        chk.ob('C11.E', fi.short, okk,
               'accepts %r, packs %r with range %r, refuses %r with %s' %
               (guard, seg.fmt, fmt_set(seg), rej, sorted(rtypes)),
               site=site)
    # integers inside arrays reach the ladder one by one: every item of a
    # list is encoded by encode_table_value(item) (a per-call memo keyed by
    # the item would hand 1 the bytes of True: they are equal and hash alike)
    chk.ob('C11.P', 'array items reach the ladder',
           tables.array_items_encoded(ctx),
           'field_array appends encode_table_value(item) for each item',
           site='pamqp/encode.py::field_array')
    chk.floor('C11.E', 5 + 10, 'encoder facts')
    chk.floor('C11.P', 6 + 4 + 2, 'partition facts')

    # who emits integer tags
    int_tags = {t.encode('latin-1') for t, r in
                spec.tables['field_tags'].items() if r['kind'] == 'int'}
    ladder_funcs = set()
    for legacy in (False, True):
        ladder_funcs |= set(tables.ladder_arms(ctx, legacy)['funcs'])
    emitters = {}
    for fi in emod.functions.values():
        for n in ast.walk(fi.node):
            if isinstance(n, ast.Constant) and isinstance(n.value, bytes) \
                    and n.value in int_tags:
                emitters.setdefault(fi.short, set()).add(n.value)
    stray = {k: sorted(v) for k, v in emitters.items()
             if k not in ladder_funcs}
    arm_tags = set()
    for legacy in (False, True):
        arm_tags |= {a.tag for _s, a in tables.ladder_arms(ctx,
                                                           legacy)['arms']}
    # (vacuity guard: the tags are found either as literals in the ladder
    # functions or as tags of the analysed ladder arms, e.g. when they live
    # in a module-level table)
    chk.ob('C11.W', 'integer tag literals', not stray and
           (bool(emitters) or bool(arm_tags & int_tags)),
           'integer tag literals appear in %r' % (sorted(emitters),),
           detail={'outside_ladder': stray}, site='pamqp/encode.py')
    _fi, P, arms, _rej, _it = tables.value_arms(ctx)
    int_arm = tables.first_accepting(arms, P, 'int')
    chk.ob('C11.W', 'int arm of encode_table_value',
           int_arm is not None and int_arm.tag == b'' and
           int_arm.callee == 'encode.table_integer' and
           int_arm.operand is P,
           'int values are passed unchanged to %s' %
           (int_arm.callee if int_arm else None), site='pamqp/encode.py')
    # containers re-enter encode_table_value (so the switch applies at
    # every nesting level)
    for cname in ('field_array', 'field_table'):
        fi = emod.functions.get(cname)
        pol = tables.ArmPolicy(prog, {fi.qualname})
        it, outs = codec.run(prog, fi, None, pol)
        callees = {c[0].split(' ')[0] for c in it.calls}
        chk.ob('C11.W', 'encode.%s elements' % cname,
               'encode.encode_table_value' in callees and not
               (callees & (ladder_funcs - {'encode.table_integer'}) or
                {'encode.octet', 'encode.short_int', 'encode.long_int',
                 'encode.long_long_int', 'encode.short_uint',
                 'encode.long_uint'} & callees),
               'elements are encoded through encode_table_value (calls: %r)'
               % (sorted(c for c in callees if c.startswith('encode.')),),
               site='pamqp/encode.py')

    # switch semantics
    flag_globals = [k for k in ctx.static().dynamic_globals
                    if k[0].endswith('.encode')]
    writers = {}
    for k in flag_globals:
        for w in ctx.static().dynamic_globals[k]:
            writers.setdefault(k[1], set()).add(w.short)
    chk.ob('C11.S', 'switch writers', len(flag_globals) == 1 and
           all(len(v) == 1 for v in writers.values()),
           'run-time globals of pamqp.encode: %r' % (writers,),
           site='pamqp/encode.py')
    for name, ws in writers.items():
        for w in ws:
            fi = prog.functions['pamqp.' + w]
            it = ctx.interp()
            st = ctx.new_state()
            outs = it.run_function(fi, [], {}, st)
            vals = [e.detail for e in it.effects if e.kind == 'global-write']
            dflt = fi.node.args.defaults
            dv = ctx.static().eval_default(fi, dflt[0]) if dflt else None
            a = fi.node.args
            pname = a.args[0].arg if a.args else None
            it2 = ctx.interp()
            st2 = ctx.new_state()
            it2.run_function(fi, [Sym('param', pname)], {}, st2)
            vals2 = [e.detail for e in it2.effects
                     if e.kind == 'global-write']
            chk.ob('C11.S', 'toggle %s' % w,
                   vals == ['True'] and dv is True and
                   vals2 == ['param:%s' % pname],
                   'argument-less call stores %r; call with an argument '
                   'stores %r' % (vals, vals2),
                   site='%s:%d' % (fi.module.relpath, fi.node.lineno))
    # the switch is read by name in the body (not captured in a default)
    ti = emod.functions.get('table_integer')
    reads_in_body = any(isinstance(n, ast.Name) and
                        (ti.module.name, n.id) in
                        ctx.static().dynamic_globals
                        for st_ in ti.node.body for n in ast.walk(st_))
    in_defaults = any(isinstance(n, ast.Name) and
                      (ti.module.name, n.id) in
                      ctx.static().dynamic_globals
                      for d in ti.node.args.defaults + ti.node.args.
                      kw_defaults if d is not None for n in ast.walk(d))
    chk.ob('C11.S', 'switch read site', reads_in_body and not in_defaults,
           'table_integer reads the global by name in its body',
           site='pamqp/encode.py')
    from .. import models as _models
    lf = [prog.functions.get('pamqp.' + short) for short in sorted(
        ladder_funcs | {'encode.encode_table_value', 'encode.field_table',
                        'encode.field_array'})]
    deco, unknown_deco = _models.wrappers(prog, [f for f in lf
                                                 if f is not None])
    if unknown_deco:
        chk.undecide('C11.S', 'decorators without a model',
                     '; '.join(unknown_deco[:3]))
    chk.ob('C11.S', 'ladder functions undecorated', not deco,
           'the switch is consulted on every call: no wrapper (cache, '
           'memo) sits in front of the ladder' if not deco else
           'decorated: %s (a cached result ignores a later toggle)' % deco,
           site='pamqp/encode.py')
    chk.units['ladder_functions'] = sorted(ladder_funcs)


def int_refusal_types(chk, ctx, mode, legacy, site):
    from .. import codec
    prog = ctx.prog
    fi = prog.function('encode.table_integer')
    # everything inlined (the delegate ladder and the fixed-width encoders
    # with their own messages), the switch fixed
    pol = tables.ArmPolicy(
        prog, {f.qualname for f in prog.module('encode').functions.values()},
        flag=bool(legacy))
    P = Sym('typed', Sym('param', 'value'), ('int',), None)
    it, outs = codec.run(prog, fi, [P], pol)
    kinds = {}
    for o in outs:
        if o.kind == 'raise':
            kinds.setdefault(o.exc.type_name, o.exc)
    bad = {k: v for k, v in kinds.items() if k != 'TypeError'}
    chk.ob('C11.P', mode + ' ladder refusal type', bool(kinds) and not bad,
           'an int is refused with %s only' % sorted(kinds) if not bad else
           'an int can also be refused with %s' % ', '.join(
               '%s at %s (%s)' % (k, v.site, v.why[:70])
               for k, v in sorted(bad.items())), site=site)
