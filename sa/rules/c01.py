"""C01 - every method frame survives encode-then-decode unchanged.

Per class: frame.marshal and frame.unmarshal are specialised by the abstract
interpreter to the class's literal tables (arbitrary argument values stay
symbolic); the residual write layout and read sequence must agree
(DESIGN.md C01.L/E/I/D); the primitive encoder/decoder pairs are judged by
Pair (C01.P)."""
from .. import codec
from .. import interp as I
from .. import layout as L
from .. import pairs
from .. import terms as T
from ..model import AnalysisError
from ..spec import WIRE_TYPES
from ..terms import Sym

RULES = {
    'C01.L': 'per class: the decoder reads every argument with the decoder of '
             'its wire type at the offset where the encoder wrote it; bits '
             'are read at the position they were written; the shared octet '
             'is skipped exactly once',
    'C01.E': 'envelope: type/channel/size header, payload, end octet are '
             'written and read with the same layout; consumed = encoded '
             'length',
    'C01.I': 'method index: written and read compatibly at payload offset 0; '
             'the decoded object is an instance of the class mapped from it',
    'C01.D': 'every method class is default-constructible without a '
             'reachable raise (otherwise it could never be decoded)',
    'C01.P': 'Pair(E, D) for every wire type used by a method argument',
    'C01.R': 'composed round trip by rewriting: substituting the encoder\'s '
             'residual output for the decoder\'s buffer turns every decoded '
             'argument into the original one, consumed into the encoded '
             'length, the channel into the channel argument, and every path '
             'condition of the successful return into True',
    'C01.T': 'table-valued arguments: for every tag the value encoder emits, '
             'the element encoder and the decoder registered for that tag '
             'agree (Pair) - the part of C03 a method round trip rests on',
    'C01.C': 'constructor pass-through: every argument is stored unchanged '
             'in the attribute of the same name for every value of its wire '
             'type (None / empty may become the empty value of that type)',
}


def table_value_pairs(chk, ctx):
    """Pair(E, D) for every (tag, element encoder) the table-value
    encoder emits, against the decoder TABLE_MAPPING has for that tag."""
    from .. import tables, isets
    from ..model import FuncInfo
    prog = ctx.prog
    decs, _dups = tables.tag_decoders(ctx)
    _fi, _P, arms, _rej, _it = tables.value_arms(ctx)
    todo = []
    for arm in arms:
        if arm.callee and arm.callee != 'encode.table_integer':
            todo.append((arm.tag, arm.callee, None))
    for legacy in (False, True):
        for s_, arm in tables.ladder_arms(ctx, legacy)['arms']:
            if arm.callee:
                todo.append((arm.tag, arm.callee, s_))
    seen = set()
    n = 0
    for tag, callee, arm_set in todo:
        if (tag, callee, arm_set) in seen:
            continue
        seen.add((tag, callee, arm_set))
        d = decs.get(tag)
        e = prog.functions.get('pamqp.' + callee)
        if not isinstance(d, FuncInfo) or e is None:
            continue  # C03.T reports missing decoders
        E, D = pairs.enc_desc(ctx, e), pairs.dec_desc(ctx, d)
        reach = None
        if arm_set is not None and arm_set.ivs:
            lo, hi = arm_set.ivs[0][0], arm_set.ivs[-1][1]
            reach = (None if lo == isets.NEG else int(lo),
                     None if hi == isets.POS else int(hi))
        container = tag in (b'A', b'F')
        for clause, okk, text in pairs.pair(E, D, reach=reach):
            if container and clause in ('read', 'consumed', 'view',
                                        'layout'):
                continue  # container framing is C03.C's
            n += 1
            if okk is False:
                chk.ob('C01.T', 'tag %r Pair(%s, %s) %s' % (
                    tag, e.short, d.short, clause), False, text,
                       site='%s:%d / %s:%d' % (
                           e.module.relpath, e.node.lineno,
                           d.module.relpath, d.node.lineno))
    chk.ob('C01.T', 'table value pairs', n >= 20,
           '%d Pair clauses over the emitted tags examined' % n)


def bit_acceptance(chk, ctx):
    """Both flag values are encodable: the bit encoder has a return path
    for False and for True (all 2^k flag combinations of a method are then
    accepted, the packing loop being unconditional)."""
    from .. import codec, isets
    bfi = ctx.prog.module('encode').functions.get('bit')
    if bfi is None:
        return
    P = Sym('typed', Sym('param', 'value'), ('bool',), None)
    args = [P, Sym('typed', Sym('param', 'byte'), ('int',), (0, 255)),
            Sym('typed', Sym('param', 'position'), ('int',), (0, 7))]
    _it, outs = codec.run(ctx.prog, bfi, args)
    acc = L.accepted_values(outs, P)
    missing = isets.ISet.range(0, 1).inter(acc.complement())
    chk.ob('C01.P', 'encode.bit accepted values', missing.is_empty(),
           'False and True both have a return path' if missing.is_empty()
           else 'flag value(s) %s are refused by the bit encoder\'s own '
           'guard (admitted: %s)' % (missing, acc),
           site='%s:%d' % (bfi.module.relpath, bfi.node.lineno))


def constructor_passthrough(chk, ctx, ci):
    from .. import ctors
    st_it = ctx.static()
    site = '%s:%d' % (ci.module.relpath, ci.node.lineno)
    slots = ctx.slots_of(ci)
    ptypes = {}
    for s in slots:
        t = st_it.class_attr(ci, '_' + s)
        ptypes[s] = ctors.PY_OF_WIRE.get(t, ('object',))[0]
    r = ctors.passthrough(ctx, ci, ptypes)
    if r is None:
        chk.ob('C01.C', ci.short + '()', not slots,
               'no constructor of its own and %d arguments' % len(slots),
               site=site)
        return
    res, nparams, _raises = r
    names = [nm for nm, _, _ in res]
    chk.ob('C01.C', ci.short + ' parameters', names == list(slots),
           'constructor parameters %r' % (names,),
           detail={'expected': list(slots)}, site=site)
    for nm, ok, text in res:
        chk.ob('C01.C', '%s(%s)' % (ci.short, nm), ok,
               'stores %s' % text, site=site)


def analyse_class(chk, ctx, ci, axioms=None):
    prog = ctx.prog
    q = ci.short
    site = '%s:%d' % (ci.module.relpath, ci.node.lineno)
    st_it = ctx.static()
    idx = st_it.class_attr(ci, 'index')
    slots = ctx.slots_of(ci)
    types = {s: st_it.class_attr(ci, '_' + s) for s in slots}
    pol = L.KeyPolicy(prog, 'commands.INDEX_MAPPING', idx)

    # ---- encode side
    e = L.method_encode(ctx, pol, ci)
    if e['term'] is None:
        chk.ob('C01.L', q, False, 'frame.marshal never returns for this '
               'class', site=site)
        return
    oty = T.typeof(e['term'])
    if oty is not None and oty != {'bytes'}:
        # the decode side is analysed for bytes input (its dispatch tables
        # are keyed by slices of the buffer, which must be hashable)
        chk.ob('C01.E', q + ' marshal result type', False,
               'frame.marshal returns %s, not bytes: feeding it to '
               'frame.unmarshal is outside what the decoder handles (slices '
               'of the buffer are used as dictionary keys)' % sorted(oty),
               site=site)
        return
    env = L.parse_envelope(e['term'])
    if env is None:
        chk.undecide('C01.E', q, 'frame.marshal output is not header ++ '
                     'payload ++ end: ' + T.show(e['term'])[:200])
        return
    hf = T.fmt(env['fmt'])
    hdr_ok = hf.norm() == ('big', ((1, False, 'int'), (2, False, 'int'),
                                   (4, False, 'int')))
    fm = st_it.global_value(prog.module('constants'), 'FRAME_METHOD')
    fe = st_it.global_value(prog.module('constants'), 'FRAME_END_CHAR')
    plen = L.payload_length(env['payload'])
    chk.ob('C01.E', q + ' marshal header',
           hdr_ok and env['type'] == fm and
           env['channel'] is Sym('param', 'channel_id') and
           T.sub(env['size'], plen) == 0 and env['end'] == fe and
           isinstance(fe, bytes) and len(fe) == 1,
           'header %r (type=%s, channel=%s, size=%s), end=%r' %
           (env['fmt'], T.show(env['type']), T.show(env['channel']),
            T.show(env['size'])[:100], env['end']),
           detail={'payload_length': T.show(plen)[:200]}, site=site)
    okc, whyc = L.channel_acceptance(e['outs'])
    if not okc:
        chk.ob('C01.E', q + ' channels', False, whyc, site=site)
    caps = L.size_cap_refusals(e['outs'])
    if caps:
        chk.ob('C01.E', q + ' size', False, 'a frame is refused for its '
               'encoded size: %s' % '; '.join(caps[:2]), site=site)
    payload = env['payload']
    # index prefix
    idx_part = payload[0] if payload else None
    idx_fmt = None
    enc_index_ok = False
    if isinstance(idx_part, bytes) and len(idx_part) >= 4:
        # pack of the constant index was folded to bytes
        enc_index_ok = int.from_bytes(idx_part[:4], 'big') == idx
        rest = idx_part[4:]
        body_parts = ([rest] if rest else []) + payload[1:]
        idx_fmt = 'u32be(const)'
    elif isinstance(idx_part, Sym) and idx_part.op == 'pack':
        body_parts = payload[1:]
        idx_fmt = idx_part.args[0]
    else:
        body_parts = payload[1:]
    els = L.parse_encode_elements(body_parts, pol)

    # ---- decode side
    from .. import framepaths as F
    f = F.UnmarshalFacts(ctx, idx, assume_type=fm if isinstance(fm, int)
                         else None)
    it, outs, data = f.it, f.outs, f.data
    rets = []
    for r in f.rets:
        if r.ok_shape and r.cls is ci:
            rets.append((r.o, r.obj))
    if len(rets) != 1:
        chk.ob('C01.I', q + ' unmarshal', False,
               'frame.unmarshal has %d return(s) producing a %s for method '
               'index 0x%08X' % (len(rets), q, idx), site=site)
        return
    o, ob = rets[0]
    n, ch, _ = o.value
    kn = o.state.kn
    hv = f.header
    d_ok = False
    if hv is not None:
        size_t, ch_t, ty_t = f.hfield(2), f.hfield(1), f.hfield(0)
        end_t = T.add(size_t, hf.size)
        d_ok = hv.norm_ok() and \
            T.sub(n, T.add(size_t, hf.size + 1)) == 0 and ch is ch_t and \
            kn.decide(T.compare('eq', ty_t, fm)) is True and \
            F.end_octet_guarded(kn, data, end_t,
                                fe[0] if isinstance(fe, bytes) and fe
                                else -1, fe)
    chk.ob('C01.E', q + ' unmarshal header', d_ok,
           'consumed=%s channel=%s' % (T.show(n)[:80], T.show(ch)[:80]),
           detail={'header_read': hv.describe() if hv is not None
                   else None}, site=site)
    if hv is None:
        return
    # the decoder accepts every payload size the encoder can emit
    acc = kn.lin_interval(size_t)
    a_lo = acc[0] if acc[0] is not None else 0
    a_hi = acc[1] if acc[1] is not None else (1 << 32) - 1
    chk.ob('C01.E', q + ' payload sizes', a_lo <= 4 and
           a_hi >= (1 << 32) - 1,
           'decoder accepts method payload sizes [%d, %d]; the encoder can '
           'emit any size from 4 up to the u32 limit' % (a_lo, a_hi),
           site=site)
    base0 = hf.size
    # index read
    idx_reads = [a for a in kn.atoms if isinstance(a, Sym) and a.op == 'eq'
                 and a.args[1] == idx and isinstance(a.args[0], Sym)]
    iread = None
    for a in idx_reads:
        r = L.parse_unpack_read(a.args[0], data)
        if r is not None:
            iread = r
    i_ok = False
    detail = {}
    if iread is not None:
        rfmt, ri, lo, hi = iread
        rf = T.fmt(rfmt)
        rng = rf.value_range(0)
        i_ok = ri == 0 and T.sub(lo, base0) == 0 and rf.size == 4 and \
            rf.order == 'big' and rng is not None and \
            rng[0] <= idx <= rng[1] and enc_index_ok
        detail = {'read_format': rfmt, 'read_range': rng,
                  'written': idx_fmt, 'index': idx}
    chk.ob('C01.I', q + ' index', i_ok,
           'index 0x%08X written at payload offset 0 as %s, read with %r; '
           'object constructed from INDEX_MAPPING[index]' %
           (idx, idx_fmt, iread[0] if iread else None), detail=detail,
           site=site)
    # ---- layout comparison
    dec_attrs = {a: L.parse_decoded_attr(v, data, pol)
                 for a, v in ob.attrs.items()}
    base = base0 + 4
    res, seen, off = L.compare_method_layouts(prog, pol, els, dec_attrs,
                                              data, base, end_t, types)
    for okk, attr, fact, det in res:
        if okk is None:
            chk.undecide('C01.L', '%s.%s' % (q, attr), fact)
        else:
            chk.ob('C01.L', '%s.%s' % (q, attr), okk, fact, detail=det,
                   site=site)
    missing = [s for s in slots if s not in seen]
    extra = [s for s in seen if s not in slots]
    if off is not None:
        chk.ob('C01.L', q + ' coverage', not missing and not extra,
               'all %d arguments written once and read once' % len(slots)
               if not missing and not extra else
               'not written: %r, unknown: %r' % (missing, extra), site=site)
    # ---- composed round trip (C01.R)
    try:
        composed_round_trip(chk, ctx, ci, q, site, e, f, o, ob, slots,
                            types, axioms)
    except AnalysisError as err:
        chk.undecide('C01.R', q, str(err))
    # arguments the decoder sets that are not slots
    setnames = [e_.detail[0] for e_ in it.effects
                if e_.kind == 'setattr' and e_.target == o.value[2]]
    stray = sorted(set(setnames) - set(slots))
    chk.ob('C01.L', q + ' decoder assigns only arguments', not stray,
           'attributes assigned while decoding: %d (stray: %r)' %
           (len(setnames), stray), site=site, nontrivial=bool(slots))


def composed_round_trip(chk, ctx, ci, q, site, e, f, o, ob, slots, types,
                        axioms):
    from .. import wire
    import copy
    ax = copy.copy(axioms)
    ax.bit_fields = set()
    rets = e.get('returns') or []
    ekn = rets[0].state.kn if len(rets) == 1 else None
    for sl in slots:
        if types.get(sl) == 'bit' and ekn is not None:
            fs = Sym('field', sl)
            b = ekn.bounds.get(fs)
            if b is not None and b[0] is not None and b[1] is not None \
                    and b[0] >= 0 and b[1] <= 1 and \
                    ekn.types.get(fs, set()) <= {'int', 'bool'} and \
                    fs in ekn.types:
                ax.bit_fields.add(sl)
    kn = T.Knowledge()
    rw = wire.Rewriter(f.data, e['term'], ax, kn)
    n, ch, _ = o.value
    total = rw.length(e['term'], frozenset())
    n2 = rw.rw(n)
    ch2 = rw.rw(ch)
    chk.ob('C01.R', q + ' consumed/channel',
           T.sub(n2, total) == 0 and ch2 is Sym('param', 'channel_id'),
           'decode(encode(x, ch)) consumes %s of %s bytes on channel %s' %
           (T.show(n2)[:60], T.show(total)[:60], T.show(ch2)[:40]),
           site=site)
    bad = []
    for a in o.state.kn.atoms:
        if not isinstance(a, Sym):
            continue
        v = rw.rw(a)
        if v is not True:
            bad.append('%s -> %s' % (T.show(a)[:70], T.show(v)[:70]))
    chk.ob('C01.R', q + ' acceptance', not bad,
           'all %d path conditions of the successful decode hold on the '
           'encoder\'s own output' % len(o.state.kn.atoms) if not bad else
           'not established: %s' % '; '.join(bad[:2]), site=site)
    wrong = []
    for sl in slots:
        got = rw.rw(ob.attrs.get(sl))
        fs = Sym('field', sl)
        if types.get(sl) == 'bit':
            tf = Sym('typed', fs, ('int',), (0, 1))
            okb = isinstance(got, Sym) and got.op == 'ne' and \
                got.args[1] == 0 and (got.args[0] is tf or (
                    isinstance(got.args[0], Sym) and
                    got.args[0].op == 'shl' and got.args[0].args[0] is tf))
            if not okb:
                wrong.append('%s -> %s' % (sl, T.show(got)[:80]))
        elif got is not fs:
            wrong.append('%s -> %s' % (sl, T.show(got)[:80]))
    chk.ob('C01.R', q + ' values', not wrong,
           'every one of the %d decoded arguments rewrites to the original '
           'argument (bits to its truth value)' % len(slots) if not wrong
           else 'does not come back: %s' % '; '.join(wrong[:3]), site=site)


def default_construction(chk, ctx, ci):
    q = ci.short
    site = '%s:%d' % (ci.module.relpath, ci.node.lineno)
    it = ctx.interp()
    st = ctx.new_state()
    it.pending, it.stack, it.cur_module = [], [], ci.module
    try:
        it.instantiate(ci, [], {}, st, ci.node)
        problems = ['%s at %s (%s)' % (o.exc.type_name, o.exc.site,
                                       o.exc.why[:60])
                    for o in it.flush_pending()]
    except I._NoReturn:
        problems = ['constructor cannot complete'] + \
            ['%s at %s' % (o.exc.type_name, o.exc.site)
             for o in it.flush_pending()]
    chk.ob('C01.D', q + '()', not problems,
           'no raise reachable with default arguments' if not problems else
           'may raise: %r' % (problems,), site=site)


def run(chk, ctx):
    for r, t in RULES.items():
        chk.rule(r, t)
    chk.explanation = (
        'Abstract interpretation (partial evaluation with symbolic argument '
        'values) of frame.marshal and frame.unmarshal specialised to each of '
        'the 64 method classes: the residual byte layout written and the '
        'residual read sequence (offsets as linear sums of consumed counts) '
        'are compared element by element; primitive encoder/decoder pairs '
        'are compared by struct-format algebra (Pair). Covers all argument '
        'values at once because control flow of the codec loops depends '
        'only on class literals. Decides the structural part of the '
        'round-trip (layout, order, width, signedness, offsets), not the '
        'behaviour of struct/UTF-8 themselves.')
    chk.trust('library models in sa/models.py (struct pack/unpack layout and '
              'failure conditions, bytes slicing, UTF-8 codec inverse)')
    mapping = ctx.index_mapping()
    classes = [v for _, v in mapping if hasattr(v, 'qualname')]
    from .. import wire
    axioms = wire.build_axioms(ctx)
    seen = set()
    keys_of = {}
    for k_, v_ in mapping:
        if hasattr(v_, 'qualname'):
            keys_of.setdefault(v_.qualname, []).append(k_)
    st0 = ctx.static()
    for ci in classes:
        if ci.qualname in seen:
            continue
        seen.add(ci.qualname)
        default_construction(chk, ctx, ci)
        constructor_passthrough(chk, ctx, ci)
        # the index a class writes is the key it is registered under (the
        # decoder builds the object from INDEX_MAPPING[index read])
        own = st0.class_attr(ci, 'index')
        if own not in keys_of.get(ci.qualname, []):
            tgt = dict((k_, v_) for k_, v_ in mapping).get(own)
            chk.ob('C01.I', ci.short + ' index', False,
                   'the class writes index %s but is registered under %s: '
                   'its own encoding is decoded as %s' % (
                       '0x%08X' % own if isinstance(own, int) else own,
                       ', '.join('0x%08X' % k_ for k_ in
                                 keys_of.get(ci.qualname, [])),
                       tgt.short if hasattr(tgt, 'short') else
                       'an unknown method (UnmarshalingException)'),
                   site='%s:%d' % (ci.module.relpath, ci.node.lineno))
            continue
        analyse_class(chk, ctx, ci, axioms)
    # classes deriving from Frame that are not reachable through the mapping
    for ci in ctx.method_classes():
        if ci.qualname not in seen:
            chk.ob('C01.I', ci.short, False,
                   'method class is not reachable through INDEX_MAPPING')
    bit_acceptance(chk, ctx)
    table_value_pairs(chk, ctx)
    chk.floor('C01.L', 64, 'classes', count=len(seen))
    chk.floor('C01.D', 64, 'constructors')
    chk.floor('C01.C', 120, 'constructor arguments')
    used = set()
    st_it = ctx.static()
    for ci in classes:
        for s in ctx.slots_of(ci):
            t = st_it.class_attr(ci, '_' + s)
            used.add(t)
    pairs.check_method_types(chk, ctx, 'C01.P', sorted(
        t for t in used if isinstance(t, str)))
    chk.units['classes'] = len(seen)
    chk.assume('table-valued arguments round-trip as decided by C03')
