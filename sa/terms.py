"""Symbolic term domain of the abstract interpreter (DESIGN.md 3.5/3.6).

Compile-time constants are plain Python values (int, str, bytes, bool, None,
float, tuples).  Everything that is only known at run time is a ``Sym``: an
immutable, structurally hashed term.  Smart constructors keep a few normal
forms (linear sums, flattened concatenations and or-sets, composed slices) so
that rules compare meaning, not spelling.  ``Knowledge`` holds the facts of the
current path (branch atoms, success facts of size-checked reads) and decides
conditions by constant folding, atom lookup and interval / linear reasoning.
No solver is involved.
"""
import struct as _struct

INF = None


_INTERN = {}
_UID = [0]


class Sym:
    """Interned (hash-consed) term: structural equality is identity."""
    __slots__ = ('op', 'args', 'uid', '__weakref__')

    def __new__(cls, op, *args):
        k = (op, args)
        try:
            s = _INTERN.get(k)
        except TypeError:
            raise TypeError('unhashable term argument in %s%r' % (op, args))
        if s is None:
            s = object.__new__(cls)
            s.op = op
            s.args = args
            _UID[0] += 1
            s.uid = _UID[0]
            _INTERN[k] = s
        return s

    def __eq__(self, other):
        return self is other

    def __ne__(self, other):
        return self is not other

    def __hash__(self):
        return self.uid

    def __repr__(self):
        return show(self)

    def __bool__(self):
        raise TypeError('truth value of a symbolic term: ' + show(self))

    def __deepcopy__(self, memo):
        return self

    def __reduce__(self):
        return (Sym, (self.op,) + self.args)


class Ref:
    """Reference to a heap object of the abstract store."""
    __slots__ = ('id', 'kind')

    def __init__(self, id_, kind):
        self.id = id_
        self.kind = kind

    def __eq__(self, other):
        return isinstance(other, Ref) and other.id == self.id

    def __hash__(self):
        return hash(('ref', self.id))

    def __repr__(self):
        return '&%s%d' % (self.kind, self.id)


def is_sym(x):
    return isinstance(x, Sym)


def is_const(x):
    """A fully known immutable Python value."""
    if isinstance(x, (int, str, bytes, float, type(None))):
        return True
    if isinstance(x, tuple):
        return all(is_const(e) for e in x)
    if isinstance(x, frozenset):
        return True
    return False


def show(x, depth=0, budget=None):
    if budget is None:
        budget = [4000]
    if budget[0] <= 0:
        return '…'
    if isinstance(x, Sym):
        budget[0] -= len(x.op) + 2
        if depth > 10:
            return x.op + '(…)'
        if x.op == 'lin':
            c, terms = x.args
            parts = []
            for t, k in terms:
                sx = show(t, depth + 1, budget)
                parts.append(sx if k == 1 else '%d*%s' % (k, sx))
            if c or not parts:
                parts.append(str(c))
            return '(' + ' + '.join(parts) + ')'
        if x.op in ('param', 'field', 'var'):
            return '%s:%s' % (x.op, x.args[0])
        return '%s(%s)' % (x.op, ', '.join(show(a, depth + 1, budget)
                                           for a in x.args))
    if isinstance(x, tuple):
        return '(' + ', '.join(show(a, depth + 1, budget) for a in x) + ')'
    if hasattr(x, 'qualname'):
        r = '<' + x.qualname + '>'
    else:
        r = repr(x)
    budget[0] -= len(r)
    return r


def key(x):
    """Deterministic sort key for terms (creation order of interned terms)."""
    if isinstance(x, Sym):
        return (1, x.uid)
    return (0, repr(x))


# ---------------------------------------------------------------------------
# struct format algebra (DESIGN 3.6)

_CODES = {
    # code: (size, signed, kind)
    'x': (1, None, 'pad'), 'c': (1, None, 'char'),
    'b': (1, True, 'int'), 'B': (1, False, 'int'), '?': (1, False, 'bool'),
    'h': (2, True, 'int'), 'H': (2, False, 'int'),
    'i': (4, True, 'int'), 'I': (4, False, 'int'),
    'l': (4, True, 'int'), 'L': (4, False, 'int'),
    'q': (8, True, 'int'), 'Q': (8, False, 'int'),
    'e': (2, None, 'float'), 'f': (4, None, 'float'), 'd': (8, None, 'float'),
}


class FmtError(Exception):
    pass


class Fmt:
    """Normal form of a struct format: byte order and field list."""

    def __init__(self, text):
        if isinstance(text, bytes):
            text = text.decode('ascii')
        self.text = text
        order = '@'
        body = text
        if text[:1] in '@=<>!':
            order, body = text[0], text[1:]
        self.order_char = order
        native = order == '@'
        self.order = {'@': 'native', '=': 'native-std', '<': 'little',
                      '>': 'big', '!': 'big'}[order]
        fields = []
        count = ''
        for ch in body:
            if ch.isdigit():
                count += ch
                continue
            if ch.isspace():
                continue
            n = int(count) if count else 1
            count = ''
            if ch in ('s', 'p'):
                fields.append((ch, n, None, 'bytes'))
                continue
            if ch not in _CODES:
                raise FmtError('unsupported struct code %r in %r' %
                               (ch, text))
            size, signed, kind = _CODES[ch]
            if native and ch in 'lL':
                size = _struct.calcsize(ch)  # platform dependent!
            for _ in range(n):
                fields.append((ch, size, signed, kind))
        self.fields = fields
        self.values = [f for f in fields if f[3] != 'pad']
        try:
            self.size = _struct.calcsize(text)
        except _struct.error as err:
            raise FmtError(str(err))
        # byte order is immaterial when every field is one byte wide
        self.order_matters = any(f[1] > 1 for f in fields)
        self.platform_dependent = native and any(
            f[0] in 'lLqQP' or f[1] > 1 for f in fields)

    def norm(self):
        """Normal form used for equivalence: ('big', [(size, signed, kind)])
        with padding kept as ('pad')."""
        order = self.order if self.order_matters else 'any'
        if order in ('native', 'native-std'):
            order = 'native'
        return (order, tuple((f[1], f[2], f[3]) for f in self.fields))

    def value_range(self, i):
        ch, size, signed, kind = self.values[i]
        if kind != 'int':
            return None
        if signed:
            return (-(1 << (8 * size - 1)), (1 << (8 * size - 1)) - 1)
        return (0, (1 << (8 * size)) - 1)

    def offsets(self):
        out, off = [], 0
        for f in self.fields:
            out.append((off, f))
            off += f[1]
        return out

    def __repr__(self):
        return 'Fmt(%r)' % self.text


_FMT_CACHE = {}


def fmt(text) -> Fmt:
    f = _FMT_CACHE.get(text)
    if f is None:
        f = _FMT_CACHE[text] = Fmt(text)
    return f


# ---------------------------------------------------------------------------
# linear sums


def _lin_parts(x):
    """-> (const, {term: coef}) or None when x is not integer-like."""
    if isinstance(x, bool):
        return int(x), {}
    if isinstance(x, int):
        return x, {}
    if isinstance(x, Sym):
        if x.op == 'lin':
            return x.args[0], dict(x.args[1])
        return 0, {x: 1}
    return None


def _mk_lin(c, terms):
    terms = {t: k for t, k in terms.items() if k != 0}
    if not terms:
        return c
    if c == 0 and len(terms) == 1:
        (t, k), = terms.items()
        if k == 1:
            return t
    return Sym('lin', c, tuple(sorted(terms.items(),
                                      key=lambda tk: key(tk[0]))))


def add(a, b):
    if is_const(a) and is_const(b) and not isinstance(a, (Sym,)):
        try:
            return a + b
        except TypeError:
            return Sym('badop', '+', a, b)
    ta, tb = typeof(a), typeof(b)
    if ta == {'bytes'} or tb == {'bytes'} or isinstance(a, bytes) or \
            isinstance(b, bytes):
        return concat(a, b)
    if isinstance(a, (str, float, tuple)) or isinstance(b, (str, float,
                                                            tuple)):
        return Sym('add', a, b)
    if ta and not ta <= {'int', 'bool'} or tb and not tb <= {'int', 'bool'}:
        return Sym('add', a, b)
    pa, pb = _lin_parts(a), _lin_parts(b)
    if pa is None or pb is None:
        return Sym('add', a, b)
    c = pa[0] + pb[0]
    terms = dict(pa[1])
    for t, k in pb[1].items():
        terms[t] = terms.get(t, 0) + k
    return _mk_lin(c, terms)


def neg(a):
    if isinstance(a, (int, float)) and not isinstance(a, Sym):
        return -a
    pa = _lin_parts(a)
    if pa is None:
        return Sym('neg', a)
    return _mk_lin(-pa[0], {t: -k for t, k in pa[1].items()})


def sub(a, b):
    if is_const(a) and is_const(b):
        try:
            return a - b
        except TypeError:
            return Sym('badop', '-', a, b)
    ta, tb = typeof(a), typeof(b)
    if (ta and not ta <= {'int', 'bool'}) or (tb and
                                              not tb <= {'int', 'bool'}):
        return Sym('sub', a, b)
    if isinstance(a, float) or isinstance(b, float):
        return Sym('sub', a, b)
    return add(a, neg(b))


def mul(a, b):
    if is_const(a) and is_const(b):
        try:
            return a * b
        except TypeError:
            return Sym('badop', '*', a, b)
    if isinstance(b, int) and not isinstance(b, bool):
        a, b = b, a
    if isinstance(a, int) and not isinstance(a, bool):
        tb = typeof(b)
        if tb and tb <= {'int', 'bool'} or (isinstance(b, Sym) and
                                            b.op == 'lin'):
            pb = _lin_parts(b)
            return _mk_lin(a * pb[0], {t: a * k for t, k in pb[1].items()})
    return Sym('mul', a, b)


# ---------------------------------------------------------------------------
# byte strings


def concat(*parts):
    flat = []
    for p in parts:
        if isinstance(p, Sym) and p.op == 'concat':
            flat.extend(p.args)
        elif isinstance(p, (bytes, bytearray)) and len(p) == 0:
            continue
        else:
            flat.append(p)
    merged = []
    for p in flat:
        if merged and isinstance(p, bytes) and isinstance(merged[-1], bytes):
            merged[-1] = merged[-1] + p
        else:
            merged.append(p)
    if not merged:
        return b''
    if len(merged) == 1:
        return merged[0]
    return Sym('concat', *merged)


def length(x):
    if isinstance(x, (bytes, str, tuple)):
        return len(x)
    if isinstance(x, Sym):
        if x.op == 'concat':
            tot = 0
            for p in x.args:
                tot = add(tot, length(p))
            return tot
        if x.op == 'pack':
            return fmt(x.args[0]).size
        if x.op == 'cond':
            return cond(x.args[0], length(x.args[1]), length(x.args[2]))
    return Sym('len', x)


def nonneg(x, kn=None):
    iv = interval(x, kn)
    return iv[0] is not None and iv[0] >= 0


def slice_(base, lo, hi, kn=None):
    """base[lo:hi]; lo/hi are linear terms, ints or None."""
    if lo is None:
        lo = 0
    if isinstance(base, (bytes, str, tuple)) and \
            isinstance(lo, int) and (hi is None or isinstance(hi, int)):
        return base[lo:hi]
    if isinstance(base, Sym) and base.op == 'slice':
        b0, l0, h0 = base.args
        if nonneg(l0, kn) and nonneg(lo, kn) and (hi is None or
                                                  nonneg(hi, kn)):
            if h0 is None:
                nh = None if hi is None else add(l0, hi)
                return _mk_slice(b0, add(l0, lo), nh)
            if nonneg(h0, kn):
                if hi is None:
                    return _mk_slice(b0, add(l0, lo), h0)
                cand = add(l0, hi)
                d = sub(cand, h0)
                iv = kn.lin_interval(d) if kn is not None else interval(d)
                if iv[1] is not None and iv[1] <= 0:
                    return _mk_slice(b0, add(l0, lo), cand)
                if iv[0] is not None and iv[0] >= 0:
                    return _mk_slice(b0, add(l0, lo), h0)
    if lo == 0 and hi is None:
        return base
    return _mk_slice(base, lo, hi)


def _mk_slice(base, lo, hi):
    return Sym('slice', base, lo, hi)


# ---------------------------------------------------------------------------
# booleans


BOOL_OPS = {'eq', 'ne', 'lt', 'le', 'gt', 'ge', 'is', 'isnot', 'in', 'notin',
            'not', 'and', 'or', 'isinstance', 'truthy', 'ok', 'regex',
            'callable', 'issubclass'}
_NEG = {'eq': 'ne', 'ne': 'eq', 'is': 'isnot', 'isnot': 'is', 'in': 'notin',
        'notin': 'in', 'lt': 'ge', 'ge': 'lt', 'gt': 'le', 'le': 'gt'}


def typeof(x):
    """Set of possible Python type names, or None when unknown."""
    if isinstance(x, bool):
        return {'bool'}
    if isinstance(x, int):
        return {'int'}
    if isinstance(x, bytes):
        return {'bytes'}
    if isinstance(x, str):
        return {'str'}
    if isinstance(x, float):
        return {'float'}
    if x is None:
        return {'NoneType'}
    if isinstance(x, tuple):
        return {'tuple'}
    if isinstance(x, Ref):
        return {x.kind}
    if not isinstance(x, Sym):
        return None
    op = x.op
    if op in BOOL_OPS:
        return {'bool'}
    if op in ('len', 'lin', 'consumed', 'int', 'ord'):
        return {'int'}
    if op == 'concat' and x.args and typeof(x.args[0]) == {'bytearray'}:
        # bytes-like concatenation has the type of its left operand
        return {'bytearray'}
    if op in ('concat', 'pack', 'utf8', 'enc', 'bytes'):
        return {'bytes'}
    if op == 'bytearray':
        return {'bytearray'}
    if op in ('str', 'decode_utf8', 'format'):
        return {'str'}
    if op == 'slice':
        return typeof(x.args[0])
    if op == 'cond':
        a, b = typeof(x.args[1]), typeof(x.args[2])
        if a is None or b is None:
            return None
        return a | b
    if op == 'typed':
        return set(x.args[1])
    if op in ('shl', 'shr', 'bitor', 'bitand', 'bitxor'):
        ts = [typeof(a) for a in x.args]
        if all(t is not None and t <= {'int', 'bool'} for t in ts):
            return {'int'}
        return None
    if op == 'index':
        b = x.args[0]
        if isinstance(b, Sym) and b.op == 'unpack' and \
                isinstance(x.args[1], int):
            f = fmt(b.args[0])
            try:
                kind = f.values[x.args[1]][3]
            except IndexError:
                return None
            return {{'int': 'int', 'float': 'float', 'bool': 'bool',
                     'bytes': 'bytes', 'char': 'bytes'}[kind]}
        tb = typeof(b)
        if tb == {'bytes'}:
            return {'int'}
        return None
    if op == 'float':
        return {'float'}
    if op == 'dynsel':
        ts = set()
        for _k, alt in x.args[2]:
            t = typeof(alt)
            if t is None:
                return None
            ts |= t
        return ts
    if op == 'decval':
        return set(x.args[2]) if len(x.args) > 2 and x.args[2] else None
    return None


def not_(x):
    if isinstance(x, Sym):
        if x.op == 'not':
            return truthy(x.args[0])
        if x.op in ('eq', 'ne', 'is', 'isnot', 'in', 'notin'):
            return Sym(_NEG[x.op], *x.args)
        if x.op in ('lt', 'le', 'gt', 'ge') and _intlike(x.args[0]) and \
                _intlike(x.args[1]):
            return Sym(_NEG[x.op], *x.args)
        if x.op == 'and':
            return or_(*[not_(a) for a in x.args])
        if x.op == 'or':
            return and_(*[not_(a) for a in x.args])
        if x.op == 'cond':
            return cond(x.args[0], not_(x.args[1]), not_(x.args[2]))
        if x.op in BOOL_OPS:
            return Sym('not', x)
        return Sym('not', truthy(x))
    if isinstance(x, Ref):
        return Sym('not', truthy(x))
    return not x


def _intlike(x):
    t = typeof(x)
    return t is not None and t <= {'int', 'bool'}


def truthy(x):
    if isinstance(x, Sym):
        if x.op in BOOL_OPS:
            return x
        if x.op == 'cond':
            return cond(x.args[0], truthy(x.args[1]), truthy(x.args[2]))
        t = typeof(x)
        if t is not None and t <= {'int', 'bool'}:
            return Sym('ne', x, 0)
        if x.op == 'concat':
            return or_(*[truthy(p) for p in x.args])
        if x.op == 'pack':
            return fmt(x.args[0]).size > 0
        return Sym('truthy', x)
    if isinstance(x, Ref):
        return Sym('truthy', x)
    if hasattr(x, 'qualname'):
        return True
    return bool(x)


def and_(*xs):
    out = []
    for x in xs:
        if isinstance(x, Sym) and x.op == 'and':
            parts = x.args
        else:
            parts = (x,)
        for p in parts:
            if isinstance(p, Sym):
                if p not in out:
                    out.append(p)
            elif not p:
                return False
    for p in out:
        if not_(p) in out:
            return False
    if not out:
        return True
    if len(out) == 1:
        return out[0]
    return Sym('and', *out)


def or_(*xs):
    out = []
    for x in xs:
        if isinstance(x, Sym) and x.op == 'or':
            parts = x.args
        else:
            parts = (x,)
        for p in parts:
            if isinstance(p, Sym):
                if p not in out:
                    out.append(p)
            elif p:
                return True
    for p in out:
        if not_(p) in out:
            return True
    if not out:
        return False
    # isinstance(x, A) or isinstance(x, B)  ==  isinstance(x, A + B)
    merged = []
    for p in out:
        if p.op == 'isinstance' and isinstance(p.args[1], tuple) and \
                all(isinstance(n, str) for n in p.args[1]):
            hit = None
            for i, q in enumerate(merged):
                if q.op == 'isinstance' and q.args[0] is p.args[0] and \
                        isinstance(q.args[1], tuple) and \
                        all(isinstance(n, str) for n in q.args[1]):
                    hit = i
                    break
            if hit is not None:
                q = merged[hit]
                merged[hit] = Sym('isinstance', q.args[0], tuple(sorted(
                    set(q.args[1]) | set(p.args[1]))))
                continue
        merged.append(p)
    out = merged
    if len(out) == 1:
        return out[0]
    return Sym('or', *out)


def cond(g, a, b):
    if not isinstance(g, Sym):
        return a if g else b
    if _same(a, b):
        return a
    # cond(g, g, b) = g or b ; cond(g, a, g) = g and a  (boolean terms)
    if g.op in BOOL_OPS:
        if a is g and typeof(b) == {'bool'}:
            return or_(g, b)
        if b is g and typeof(a) == {'bool'}:
            return and_(g, a)
    # nested conditionals sharing a branch collapse to one guard
    if isinstance(b, Sym) and b.op == 'cond' and _same(b.args[2], a):
        # cond(g, X, cond(h, Y, X)) = cond(not g and h, Y, X)
        return cond(and_(not_(g), b.args[0]), b.args[1], a)
    if isinstance(b, Sym) and b.op == 'cond' and _same(b.args[1], a):
        # cond(g, X, cond(h, X, Y)) = cond(g or h, X, Y)
        return cond(or_(g, b.args[0]), a, b.args[2])
    if isinstance(a, Sym) and a.op == 'cond' and _same(a.args[2], b):
        # cond(g, cond(h, Y, X), X) = cond(g and h, Y, X)
        return cond(and_(g, a.args[0]), a.args[1], b)
    if isinstance(a, Sym) and a.op == 'cond' and _same(a.args[1], b):
        # cond(g, cond(h, X, Y), X) = cond(g and not h, Y, X)
        return cond(and_(g, not_(a.args[0])), a.args[2], b)
    if a is True and b is False:
        return g
    if a is False and b is True:
        return not_(g)
    if isinstance(a, bool) or isinstance(b, bool):
        ta, tb = typeof(a), typeof(b)
        if ta == {'bool'} and tb == {'bool'}:
            if a is True:
                return or_(g, b)
            if a is False:
                return and_(not_(g), b)
            if b is True:
                return or_(not_(g), a)
            if b is False:
                return and_(g, a)
    if isinstance(a, tuple) and isinstance(b, tuple) and len(a) == len(b):
        return tuple(cond(g, x, y) for x, y in zip(a, b))
    # cond(g, X + d, X) over linear sums -> X + cond(g, d, 0)
    pa, pb = _lin_parts(a) if _intlike(a) else None, \
        _lin_parts(b) if _intlike(b) else None
    if pa is not None and pb is not None and (pa[1] or pb[1]):
        common = {t: k for t, k in pa[1].items() if pb[1].get(t) == k}
        cc = pa[0] if pa[0] == pb[0] else 0
        if common or cc:
            ra = _mk_lin(pa[0] - cc, {t: k for t, k in pa[1].items()
                                      if t not in common})
            rb = _mk_lin(pb[0] - cc, {t: k for t, k in pb[1].items()
                                      if t not in common})
            return add(_mk_lin(cc, common), cond(g, ra, rb))
    # cond(g, X | k, X) over or-sets -> X | cond(g, k, 0)
    if (isinstance(a, Sym) and a.op == 'bitor') or \
            (isinstance(b, Sym) and b.op == 'bitor'):
        if _intlike(a) and _intlike(b):
            pa_ = list(a.args) if isinstance(a, Sym) and a.op == 'bitor' \
                else ([] if a == 0 else [a])
            pb_ = list(b.args) if isinstance(b, Sym) and b.op == 'bitor' \
                else ([] if b == 0 else [b])
            common = [x for x in pa_ if any(_same(x, y) for y in pb_)]
            if common:
                ra = [x for x in pa_ if not any(_same(x, y)
                                                for y in common)]
                rb = [x for x in pb_ if not any(_same(x, y)
                                                for y in common)]

                def orall(xs):
                    r = 0
                    for x in xs:
                        r = bitop('bitor', r, x)
                    return r
                return bitop('bitor', orall(common),
                             cond(g, orall(ra), orall(rb)))
    return _raw_cond(g, a, b)


def _raw_cond(g, a, b):
    if _same(a, b):
        return a
    if isinstance(g, Sym) and g.op == 'ne' and _same(g.args[0], a) and \
            _same(g.args[1], b):
        return a
    if isinstance(g, Sym) and g.op == 'eq' and _same(g.args[0], b) and \
            _same(g.args[1], a):
        return b
    if isinstance(a, Sym) and isinstance(b, Sym) and a.op == 'slice' and \
            b.op == 'slice' and _same(a.args[0], b.args[0]) and \
            _same(a.args[2], b.args[2]):
        return _mk_slice(a.args[0], cond(g, a.args[1], b.args[1]),
                         a.args[2])
    if isinstance(a, Sym) and a.op == 'slice' and a.args[2] is None and \
            _same(a.args[0], b):
        return _mk_slice(b, cond(g, a.args[1], 0), None)
    if isinstance(b, Sym) and b.op == 'slice' and b.args[2] is None and \
            _same(b.args[0], a):
        return _mk_slice(a, cond(g, 0, b.args[1]), None)
    if isinstance(g, Sym) and g.op == 'not':
        return Sym('cond', g.args[0], b, a)
    if isinstance(g, Sym) and g.op == 'eq' and \
            isinstance(g.args[1], int) and g.args[1] == 0 and \
            not isinstance(g.args[1], bool):
        # canonical polarity for zero tests: cond(x != 0, ., .)
        return Sym('cond', Sym('ne', g.args[0], 0), b, a)
    return Sym('cond', g, a, b)


def _same(a, b):
    if isinstance(a, Sym) or isinstance(b, Sym):
        return a is b
    if type(a) is not type(b):
        return False
    return a == b


def compare(op, a, b):
    """op in eq ne lt le gt ge is isnot in notin"""
    if is_const(a) and is_const(b):
        try:
            return {
                'eq': lambda: a == b, 'ne': lambda: a != b,
                'lt': lambda: a < b, 'le': lambda: a <= b,
                'gt': lambda: a > b, 'ge': lambda: a >= b,
                'is': lambda: _const_is(a, b),
                'isnot': lambda: not _const_is(a, b),
                'in': lambda: a in b, 'notin': lambda: a not in b,
            }[op]()
        except TypeError:
            return Sym('badop', op, a, b)
    if op in ('in', 'notin') and isinstance(b, Sym) and b.op == 'range' \
            and all(isinstance(x, int) and not isinstance(x, bool)
                    for x in b.args) and 1 <= len(b.args) <= 3 and \
            (len(b.args) < 3 or b.args[2] == 1):
        ta = typeof(a)
        if ta is not None and ta <= {'int', 'bool'}:
            lo, hi = (0, b.args[0]) if len(b.args) == 1 else b.args[:2]
            inside = and_(compare('ge', a, lo), compare('lt', a, hi))
            return inside if op == 'in' else not_(inside)
    if op in ('is', 'isnot'):
        if isinstance(a, Sym) and a is b and a.op == 'newobject':
            return op == 'is'
        for x, y in ((a, b), (b, a)):
            if isinstance(y, Sym) and y.op == 'newobject':
                # a sentinel made by object(): identical only to itself
                if isinstance(x, Sym) and x.op == 'cond':
                    return cond(x.args[0], compare(op, x.args[1], y),
                                compare(op, x.args[2], y))
                if not isinstance(x, Sym) or (x.op == 'newobject' and
                                              x is not y):
                    return op == 'isnot'
                tx = typeof(x)
                if tx is not None:
                    return op == 'isnot'  # a value of a data type
        for x, y in ((a, b), (b, a)):
            if y is None and isinstance(x, Sym) and x.op == 'cond':
                # distribute over a conditional value
                return cond(x.args[0], compare(op, x.args[1], None),
                            compare(op, x.args[2], None))
            if y is None and x is not None and not isinstance(x, Sym):
                return op == 'isnot'  # a concrete object is not None
        # identity against None / True / False of something with a known,
        # different type
        for x, y in ((a, b), (b, a)):
            if y is None or isinstance(y, bool):
                t = typeof(x)
                want = 'NoneType' if y is None else 'bool'
                if t is not None and want not in t:
                    return op == 'isnot'
        if isinstance(a, Ref) and isinstance(b, Ref):
            return (a.id == b.id) == (op == 'is')
    if op in ('eq', 'ne'):
        if isinstance(a, Sym) and a.op == 'cond' and is_const(b):
            return cond(a.args[0], compare(op, a.args[1], b),
                        compare(op, a.args[2], b))
        if isinstance(b, Sym) and b.op == 'cond' and is_const(a):
            return cond(b.args[0], compare(op, a, b.args[1]),
                        compare(op, a, b.args[2]))
        ta, tb = typeof(a), typeof(b)
        if ta and tb and not (ta & tb) and not (
                (ta | tb) <= {'int', 'bool', 'float'}) and \
                not ({'bytes', 'bytearray'} >= (ta | tb)):
            return op == 'ne'
        if _same(a, b) and typeof(a) and 'float' not in typeof(a):
            return op == 'eq'
    if op in ('is', 'isnot') and isinstance(a, Sym) and a.op == 'cond' and \
            (b is None or isinstance(b, bool)):
        return cond(a.args[0], compare(op, a.args[1], b),
                    compare(op, a.args[2], b))
    if op in ('lt', 'le', 'gt', 'ge') and isinstance(a, Sym) and \
            a.op == 'cond' and is_const(b):
        return cond(a.args[0], compare(op, a.args[1], b),
                    compare(op, a.args[2], b))
    return Sym(op, a, b)


def _const_is(a, b):
    if a is None or b is None or isinstance(a, bool) or isinstance(b, bool):
        return a is b
    return type(a) is type(b) and a == b


# ---------------------------------------------------------------------------
# bit operations


def bitop(op, a, b):
    if is_const(a) and is_const(b):
        try:
            return {'shl': lambda: a << b, 'shr': lambda: a >> b,
                    'bitor': lambda: a | b, 'bitand': lambda: a & b,
                    'bitxor': lambda: a ^ b}[op]()
        except (TypeError, ValueError):
            return Sym('badop', op, a, b)
    if op == 'bitor':
        parts = []
        const = 0
        for x in (a, b):
            if isinstance(x, Sym) and x.op == 'bitor':
                xs = x.args
            else:
                xs = (x,)
            for p in xs:
                if isinstance(p, bool):
                    p = int(p)
                if isinstance(p, int):
                    const |= p
                elif p not in parts:
                    parts.append(p)
        if const:
            parts.append(const)
        if len(parts) == 1:
            return parts[0]
        return Sym('bitor', *parts)
    if op == 'bitand':
        if isinstance(a, int) and not isinstance(b, int):
            a, b = b, a
        if isinstance(b, int):
            m = maybits(a)
            if m is not None:
                if m & b == 0:
                    return 0
                if m & ~b == 0:
                    return a
            if isinstance(a, Sym) and a.op == 'bitor':
                # distribute a constant mask over an or-set when every member
                # is either fully inside or fully outside the mask
                keep = []
                okd = True
                for p in a.args:
                    mp = p if isinstance(p, int) else maybits(p)
                    if mp is None:
                        okd = False
                        break
                    if mp & b == 0:
                        continue
                    if mp & ~b == 0:
                        keep.append(p)
                    else:
                        okd = False
                        break
                if okd:
                    if not keep:
                        return 0
                    r = keep[0]
                    for p in keep[1:]:
                        r = bitop('bitor', r, p)
                    return r
            if isinstance(a, Sym) and a.op == 'cond':
                return cond(a.args[0], bitop('bitand', a.args[1], b),
                            bitop('bitand', a.args[2], b))
    if op == 'shr' and isinstance(b, int):
        m = maybits(a)
        if m is not None and b >= 0 and (m >> b) == 0:
            return 0
    if op == 'shl':
        if isinstance(b, int) and b == 0 and _intlike(a):
            return a if typeof(a) == {'int'} else Sym('shl', a, 0)
        if isinstance(a, int) and a == 0:
            return 0
    return Sym(op, a, b)


def maybits(x, kn=None):
    """Mask of bits that may be set in a non-negative integer term; None when
    unknown or possibly negative."""
    if isinstance(x, bool):
        return int(x)
    if isinstance(x, int):
        return x if x >= 0 else None
    if not isinstance(x, Sym):
        return None
    if x.op == 'bitor':
        m = 0
        for p in x.args:
            mp = maybits(p, kn)
            if mp is None:
                return None
            m |= mp
        return m
    if x.op == 'bitand':
        ms = [maybits(p, kn) for p in x.args]
        known = [m for m in ms if m is not None]
        if not known:
            return None
        m = known[0]
        for k in known[1:]:
            m &= k
        return m
    if x.op == 'cond':
        a, b = maybits(x.args[1], kn), maybits(x.args[2], kn)
        if a is None or b is None:
            return None
        return a | b
    if x.op == 'shl':
        a = maybits(x.args[0], kn)
        if a is not None and isinstance(x.args[1], int) and x.args[1] >= 0:
            return a << x.args[1]
        return None
    if x.op == 'shr':
        a = maybits(x.args[0], kn)
        if a is not None and isinstance(x.args[1], int) and x.args[1] >= 0:
            return a >> x.args[1]
        return None
    iv = interval(x, kn)
    if iv[0] is not None and iv[0] >= 0 and iv[1] is not None:
        return (1 << iv[1].bit_length()) - 1
    return None


# ---------------------------------------------------------------------------
# intervals


def _iv_add(a, b):
    return (None if a[0] is None or b[0] is None else a[0] + b[0],
            None if a[1] is None or b[1] is None else a[1] + b[1])


def _iv_scale(a, k):
    if k >= 0:
        return (None if a[0] is None else a[0] * k,
                None if a[1] is None else a[1] * k)
    return (None if a[1] is None else a[1] * k,
            None if a[0] is None else a[0] * k)


def _iv_union(a, b):
    return (None if a[0] is None or b[0] is None else min(a[0], b[0]),
            None if a[1] is None or b[1] is None else max(a[1], b[1]))


def _iv_meet(a, b):
    lo = a[0] if b[0] is None else (b[0] if a[0] is None else max(a[0],
                                                                   b[0]))
    hi = a[1] if b[1] is None else (b[1] if a[1] is None else min(a[1],
                                                                   b[1]))
    return (lo, hi)


def interval(x, kn=None):
    """Integer interval (lo, hi); None = unbounded on that side."""
    if isinstance(x, bool):
        return (int(x), int(x))
    if isinstance(x, int):
        return (x, x)
    if not isinstance(x, Sym):
        return (None, None)
    base = _interval_struct(x, kn)
    if kn is not None:
        b = kn.bounds.get(x)
        if b is not None:
            base = _iv_meet(base, b)
    return base


def _interval_struct(x, kn):
    op = x.op
    if op == 'lin':
        c, terms = x.args
        iv = (c, c)
        for t, k in terms:
            iv = _iv_add(iv, _iv_scale(interval(t, kn), k))
        return iv
    if op == 'len':
        return (0, None)
    if op == 'consumed':
        return x.args[2] if len(x.args) > 2 and x.args[2] else (None, None)
    if op == 'typed':
        return x.args[2] if len(x.args) > 2 and x.args[2] else (None, None)
    if op == 'cond':
        return _iv_union(interval(x.args[1], kn), interval(x.args[2], kn))
    if op == 'index':
        b = x.args[0]
        if isinstance(b, Sym) and b.op == 'unpack' and \
                isinstance(x.args[1], int):
            try:
                r = fmt(b.args[0]).value_range(x.args[1])
            except IndexError:
                r = None
            if r:
                return r
        if typeof(b) == {'bytes'}:
            return (0, 255)
        return (None, None)
    if op in BOOL_OPS:
        return (0, 1)
    if op == 'bitand':
        m = maybits(x, kn)
        if m is not None:
            return (0, m)
        return (None, None)
    if op in ('bitor', 'shl', 'shr'):
        m = maybits(x, kn)
        if m is not None:
            return (0, m)
        return (None, None)
    if op == 'ord':
        return (0, 0x10FFFF)
    if op == 'dynsel':
        iv = None
        for _k, alt in x.args[2]:
            a = interval(alt, kn)
            iv = a if iv is None else _iv_union(iv, a)
        return iv or (None, None)
    return (None, None)


# ---------------------------------------------------------------------------
# knowledge of the current path


class Knowledge:
    """Facts that hold on the current path."""

    def __init__(self, other=None):
        if other is None:
            self.atoms = []  # ordered branch atoms (the path condition)
            self.known = set()  # derived atoms known true
            self.bounds = {}  # term -> (lo, hi)
            self.ineqs = []  # linear terms L with L <= 0 known
            self.implied = []  # (guard atom, fact atom): guard => fact
            self.ors = []  # disjunctions not yet resolved
            self.types = {}  # term -> set of type names (isinstance facts)
        else:
            self.atoms = list(other.atoms)
            self.known = set(other.known)
            self.bounds = dict(other.bounds)
            self.ineqs = list(other.ineqs)
            self.implied = list(other.implied)
            self.ors = list(other.ors)
            self.types = dict(other.types)
        self._isets = None

    def copy(self):
        return Knowledge(self)

    # -- assuming --------------------------------------------------------
    def assume(self, atom, record=True):
        """Add a branch atom (a boolean term or constant).  Returns False when
        the atom is decided false (infeasible path)."""
        d = self.decide(atom)
        if d is False:
            return False
        if record and isinstance(atom, Sym):
            self.atoms.append(atom)
        self._derive(atom)
        self._fire_implied()
        self._revisit_ors()
        return True

    def _revisit_ors(self):
        if not self.ors:
            return
        for _ in range(4):
            progress = False
            rest = []
            for atom in self.ors:
                live = [a for a in atom.args if self.decide(a) is not False]
                if len(live) == 1:
                    if live[0] not in self.known:
                        self._derive(live[0])
                        progress = True
                elif len(live) > 1:
                    rest.append(atom)
            self.ors = rest
            if not progress:
                break

    def _fire_implied(self):
        if not self.implied:
            return
        changed = True
        while changed:
            changed = False
            rest = []
            for g, fact in self.implied:
                d = self.decide_fast(g)
                if d is True:
                    if fact not in self.known:
                        self._derive(fact)
                        changed = True
                elif d is None:
                    rest.append((g, fact))
            self.implied = rest

    def _derive(self, atom):
        if not isinstance(atom, Sym):
            return
        if atom in self.known:
            return
        self.known.add(atom)
        op = atom.op
        if op == 'and':
            for a in atom.args:
                self._derive(a)
            return
        if op == 'not':
            inner = atom.args[0]
            if isinstance(inner, Sym) and inner.op == 'or':
                for a in inner.args:
                    self._derive(not_(a))
            return
        if op == 'or':
            # keep only; but drop disjuncts already refuted
            live = [a for a in atom.args if self.decide(a) is not False]
            if len(live) == 1:
                self._derive(live[0])
            elif live:
                if atom not in self.ors:
                    self.ors.append(atom)
                # facts common to every live disjunct hold
                def conj(x):
                    return set(x.args) if isinstance(x, Sym) and \
                        x.op == 'and' else {x}
                common = conj(live[0])
                for a in live[1:]:
                    common &= conj(a)
                for c in common:
                    self._derive(c)
                # isinstance(x, A) or isinstance(x, B): x is one of A | B
                if all(isinstance(a, Sym) and a.op == 'isinstance' and
                       a.args[0] is live[0].args[0] and
                       all(isinstance(n, str) for n in a.args[1])
                       for a in live):
                    x = live[0].args[0]
                    if isinstance(x, Sym):
                        new = set()
                        for a in live:
                            new |= set(a.args[1])
                        cur = self.types.get(x)
                        self.types[x] = new if cur is None else (cur & new)
            return
        if op == 'ok':
            self._derive_ok(atom)
            return
        if op == 'isinstance':
            x, names = atom.args
            if isinstance(x, Sym) and all(isinstance(n, str)
                                          for n in names):
                cur = self.types.get(x)
                new = set(names)
                self.types[x] = new if cur is None else (cur & new)
            return
        if op in ('lt', 'le', 'gt', 'ge', 'eq', 'ne'):
            a, b = atom.args
            if _intlike(a) and _intlike(b) or \
                    (isinstance(a, Sym) and isinstance(b, int)
                     and not isinstance(b, bool) and typeof(a) is None) or \
                    (isinstance(b, Sym) and isinstance(a, int)
                     and not isinstance(a, bool) and typeof(b) is None):
                self._derive_cmp(op, a, b)
            if op == 'eq' and isinstance(a, Sym) and is_const(b):
                pass
            return

    def _derive_ok(self, atom):
        # ok('unpack', fmt, buf): the size-checked read succeeded, hence
        # len(buf) == size;  ok('unpack_from', fmt, buf, off): len >= off+size
        kind = atom.args[0]
        if kind == 'unpack':
            f, buf = atom.args[1], atom.args[2]
            size = fmt(f).size
            self._derive(Sym('eq', length(buf), size)
                         if not isinstance(length(buf), int) else True)
            if isinstance(buf, Sym) and buf.op == 'slice':
                base, lo, hi = buf.args
                if hi is not None and nonneg(lo, self):
                    d = sub(hi, lo)
                    if isinstance(d, int) and d == size:
                        self._derive_cmp('ge', length(base), hi)
                    elif isinstance(d, int) and d > size:
                        # slice longer than needed: success means the base is
                        # exactly lo+size long
                        self._derive_cmp('eq', length(base), add(lo, size))
                elif hi is None and nonneg(lo, self):
                    self._derive_cmp('eq', length(base), add(lo, size))
            else:
                self._derive_cmp('eq', length(buf), size)
        elif kind == 'unpack_from':
            f, buf, off = atom.args[1], atom.args[2], atom.args[3]
            size = fmt(f).size
            need = add(off, size)
            if isinstance(buf, Sym) and buf.op == 'slice':
                base, lo, hi = buf.args
                if nonneg(lo, self):
                    self._derive_cmp('ge', length(base), add(lo, need))
            self._derive_cmp('ge', length(buf), need)

    def _derive_cmp(self, op, a, b):
        d = sub(a, b)  # a - b
        if isinstance(d, Sym) and d.op == 'sub':
            return
        if op == 'le':
            self._add_ineq(d)
        elif op == 'lt':
            self._add_ineq(add(d, 1))
        elif op == 'ge':
            self._add_ineq(neg(d))
        elif op == 'gt':
            self._add_ineq(add(neg(d), 1))
        elif op == 'eq':
            self._add_ineq(d)
            self._add_ineq(neg(d))
        elif op == 'ne':
            # x != c tightens a bound only at an endpoint
            if isinstance(b, int) and isinstance(a, Sym):
                iv = interval(a, self)
                if iv[0] is not None and iv[0] == b:
                    self._bound(a, (b + 1, None))
                if iv[1] is not None and iv[1] == b:
                    self._bound(a, (None, b - 1))

    def _add_ineq(self, lin):
        """lin <= 0"""
        if isinstance(lin, int):
            return
        parts = _lin_parts(lin)
        if parts is None:
            return
        c, terms = parts
        if len(terms) == 1:
            (t, k), = terms.items()
            # k*t + c <= 0
            if k > 0:
                self._bound(t, (None, (-c) // k))
            else:
                self._bound(t, (_ceil_div(c, -k), None))
        if lin not in self.ineqs:
            self.ineqs.append(lin)

    def _bound(self, t, iv):
        old = self.bounds.get(t, (None, None))
        self.bounds[t] = _iv_meet(old, iv)

    # -- deciding --------------------------------------------------------
    def decide(self, atom):
        """True / False / None (unknown)."""
        if not isinstance(atom, Sym):
            if isinstance(atom, Ref):
                return None
            return bool(atom)
        if atom in self.known:
            return True
        n = not_(atom)
        if isinstance(n, Sym) and n in self.known:
            return False
        op = atom.op
        if op == 'and':
            res = True
            for a in atom.args:
                d = self.decide(a)
                if d is False:
                    return False
                if d is None:
                    res = None
            return res
        if op == 'or':
            res = False
            for a in atom.args:
                d = self.decide(a)
                if d is True:
                    return True
                if d is None:
                    res = None
            return res
        if op == 'not':
            d = self.decide(atom.args[0])
            return None if d is None else not d
        if op == 'cond':
            g = self.decide(atom.args[0])
            if g is True:
                return self.decide(atom.args[1])
            if g is False:
                return self.decide(atom.args[2])
            a, b = self.decide(atom.args[1]), self.decide(atom.args[2])
            if a is not None and a == b:
                return a
            return None
        if op in ('lt', 'le', 'gt', 'ge', 'eq', 'ne'):
            return self._decide_cmp(op, atom.args[0], atom.args[1])
        if op == 'truthy':
            x = atom.args[0]
            if isinstance(x, Sym) and x.op == 'slice' and \
                    typeof(x.args[0]) is not None and \
                    typeof(x.args[0]) <= {'bytes', 'bytearray', 'str'} and \
                    nonneg(x.args[1], self):
                # b[lo:] is non-empty iff len(b) > lo
                d1 = self._decide_cmp('gt', length(x.args[0]), x.args[1])
                if x.args[2] is None:
                    return d1
                d2 = self._decide_cmp('gt', x.args[2], x.args[1])
                if d1 is False or d2 is False:
                    return False
                if d1 is True and d2 is True:
                    return True
                return None
            t = typeof(x)
            if t is not None and t <= {'bytes', 'str', 'bytearray', 'tuple',
                                       'list', 'dict'} and \
                    not isinstance(x, Ref):
                return self._decide_cmp('gt', length(x), 0)
            return None
        return None

    def decide_fast(self, atom):
        """Atom lookup and constant structure only (no linear reasoning)."""
        if not isinstance(atom, Sym):
            return None
        if atom in self.known:
            return True
        n = not_(atom)
        if isinstance(n, Sym) and n in self.known:
            return False
        if atom.op == 'and':
            res = True
            for a in atom.args:
                d = self.decide_fast(a)
                if d is False:
                    return False
                if d is None:
                    res = None
            return res
        if atom.op == 'or':
            res = False
            for a in atom.args:
                d = self.decide_fast(a)
                if d is True:
                    return True
                if d is None:
                    res = None
            return res
        return None

    def _decide_cmp(self, op, a, b):
        if not ((_intlike(a) or isinstance(a, Sym) and a in self.bounds) and
                (_intlike(b) or isinstance(b, Sym) and b in self.bounds)):
            if not (isinstance(a, Sym) and isinstance(b, int) or
                    isinstance(b, Sym) and isinstance(a, int)):
                return None
        d = sub(a, b)
        if isinstance(d, Sym) and d.op == 'sub':
            return None
        lo, hi = self.lin_interval(d)
        if op == 'lt':
            if hi is not None and hi < 0:
                return True
            if lo is not None and lo >= 0:
                return False
        elif op == 'le':
            if hi is not None and hi <= 0:
                return True
            if lo is not None and lo > 0:
                return False
        elif op == 'gt':
            if lo is not None and lo > 0:
                return True
            if hi is not None and hi <= 0:
                return False
        elif op == 'ge':
            if lo is not None and lo >= 0:
                return True
            if hi is not None and hi < 0:
                return False
        elif op == 'eq':
            if lo is not None and hi is not None and lo == hi == 0:
                return True
            if (lo is not None and lo > 0) or (hi is not None and hi < 0):
                return False
        elif op == 'ne':
            if lo is not None and hi is not None and lo == hi == 0:
                return False
            if (lo is not None and lo > 0) or (hi is not None and hi < 0):
                return True
        return None

    def lin_interval(self, d):
        """Interval of a linear term using bounds and, to depth two, the
        known linear inequalities (d = F + R with F <= 0 known).  Only
        inequalities sharing a term with d are tried."""
        iv = interval(d, self)
        best_lo, best_hi = iv
        if isinstance(d, int) or not self.ineqs:
            return iv
        def tset(x):
            p = _lin_parts(x)
            return set(p[1]) if p else set()

        isets = getattr(self, '_isets', None)
        if isets is None or len(isets) != len(self.ineqs):
            isets = self._isets = [tset(f) for f in self.ineqs]
        dts = tset(d)
        nd = neg(d)
        for sign, target in ((1, d), (-1, nd)):
            best = None
            for i, f in enumerate(self.ineqs):
                if not (isets[i] & dts):
                    continue
                r = sub(target, f)
                hi = interval(r, self)[1]
                if hi is not None:
                    if best is None or hi < best:
                        best = hi
                    continue
                rts = tset(r)
                for j, f2 in enumerate(self.ineqs):
                    if j == i or not (isets[j] & rts):
                        continue
                    hi2 = interval(sub(r, f2), self)[1]
                    if hi2 is not None and (best is None or hi2 < best):
                        best = hi2
            if best is not None:
                if sign == 1:
                    best_hi = best if best_hi is None else min(best_hi, best)
                else:
                    best_lo = -best if best_lo is None else max(best_lo,
                                                                 -best)
        return (best_lo, best_hi)

    def type_of(self, x):
        """typeof refined by isinstance facts of the path."""
        t = typeof(x)
        if t is not None:
            return t
        if isinstance(x, Sym):
            return self.types.get(x)
        return None

    def lower_bound(self, term):
        return self.lin_interval(term)[0]


def _ceil_div(a, b):
    return -((-a) // b)


# ---------------------------------------------------------------------------
# substitution / simplification under knowledge


def rebuild(op, args):
    """Re-run the smart constructor for op."""
    if op == 'lin':
        c, terms = args
        r = c
        for t, k in terms:
            r = add(r, mul(k, t))
        return r
    if op == 'concat':
        return concat(*args)
    if op == 'add':
        return add(*args)
    if op == 'sub':
        return sub(*args)
    if op == 'mul':
        return mul(*args)
    if op == 'neg':
        return neg(args[0])
    if op == 'cond':
        return cond(*args)
    if op == 'and':
        return and_(*args)
    if op == 'or':
        return or_(*args)
    if op == 'not':
        return not_(args[0])
    if op == 'truthy':
        return truthy(args[0])
    if op in ('eq', 'ne', 'lt', 'le', 'gt', 'ge', 'is', 'isnot', 'in',
              'notin'):
        return compare(op, *args)
    if op in ('shl', 'shr', 'bitand', 'bitxor'):
        return bitop(op, *args)
    if op == 'bitor':
        r = args[0]
        for a in args[1:]:
            r = bitop('bitor', r, a)
        return r
    if op == 'slice':
        return slice_(*args)
    if op == 'len':
        return length(args[0])
    if op == 'index':
        return index(args[0], args[1])
    return Sym(op, *args)


def index(base, i):
    if isinstance(base, (tuple, bytes, str)) and isinstance(i, int):
        try:
            return base[i]
        except IndexError:
            return Sym('badop', 'index', base, i)
    if isinstance(base, Sym) and base.op == 'cond':
        return cond(base.args[0], index(base.args[1], i),
                    index(base.args[2], i))
    if isinstance(base, Sym) and base.op == 'method' and \
            base.args[1] == 'as_tuple' and i in (0, 1, 2, -1, -2, -3):
        # decimal.DecimalTuple(sign, digits, exponent): positions and field
        # names denote the same components
        return Sym('attr', base, ('sign', 'digits', 'exponent')[i])
    return Sym('index', base, i)


def subst(x, mapping, memo=None):
    """Replace sub-terms (keys of mapping) bottom-up and re-simplify."""
    if memo is None:
        memo = {}
    if isinstance(x, Sym):
        if x in mapping:
            return mapping[x]
        if x in memo:
            return memo[x]
        if x.op == 'lin':
            c, terms = x.args
            r = c
            changed = False
            for t, k in terms:
                nt = subst(t, mapping, memo)
                if nt is not t:
                    changed = True
                r = add(r, mul(k, nt))
            res = r if changed else x
        else:
            new = tuple(subst(a, mapping, memo) for a in x.args)
            if all(n is o for n, o in zip(new, x.args)):
                res = x
            else:
                res = rebuild(x.op, new)
        memo[x] = res
        return res
    if isinstance(x, tuple):
        new = tuple(subst(a, mapping, memo) for a in x)
        if all(n is o for n, o in zip(new, x)):
            return x
        return new
    return x


def simplify(x, kn, memo=None):
    """Resolve conds / boolean sub-terms that the knowledge decides."""
    if memo is None:
        memo = {}
    if isinstance(x, Sym):
        if x in memo:
            return memo[x]
        res = None
        if not has_choice(x):
            memo[x] = x
            return x
        if x.op == 'cond':
            d = kn.decide_fast(x.args[0])
            if d is True:
                res = simplify(x.args[1], kn, memo)
            elif d is False:
                res = simplify(x.args[2], kn, memo)
        if res is None and x.op in BOOL_OPS and x.op not in ('ok',):
            d = kn.decide_fast(x)
            if d is not None:
                res = d
        if res is None:
            if x.op == 'lin':
                c, terms = x.args
                r = c
                changed = False
                for t, k in terms:
                    nt = simplify(t, kn, memo)
                    if nt is not t:
                        changed = True
                    r = add(r, mul(k, nt))
                res = r if changed else x
            elif x.op in ('consumed', 'decval', 'typed', 'param', 'field',
                          'loopvar', 'global'):
                res = x
            else:
                new = tuple(simplify(a, kn, memo) for a in x.args)
                if all(n is o for n, o in zip(new, x.args)):
                    res = x
                else:
                    res = rebuild(x.op, new)
        memo[x] = res
        return res
    if isinstance(x, tuple):
        new = tuple(simplify(a, kn, memo) for a in x)
        if all(n is o for n, o in zip(new, x)):
            return x
        return new
    return x


_CHOICE = {}


def has_choice(x):
    """Does the term contain a cond or a boolean sub-term (anything simplify
    could resolve)?  Cached per interned term."""
    if not isinstance(x, Sym):
        if isinstance(x, tuple):
            return any(has_choice(a) for a in x)
        return False
    r = _CHOICE.get(x.uid)
    if r is None:
        if x.op == 'cond' or x.op in BOOL_OPS:
            r = True
        elif x.op == 'lin':
            r = any(has_choice(t) for t, _ in x.args[1])
        else:
            r = any(has_choice(a) for a in x.args)
        _CHOICE[x.uid] = r
    return r


def subterms(x):
    seen = set()
    stack = [x]
    while stack:
        t = stack.pop()
        if isinstance(t, Sym):
            if t in seen:
                continue
            seen.add(t)
            yield t
            if t.op == 'lin':
                stack.extend(tt for tt, _ in t.args[1])
            else:
                stack.extend(t.args)
        elif isinstance(t, tuple):
            stack.extend(t)


def mentions(x, pred):
    return any(pred(t) for t in subterms(x))
