"""Positive controls for rules whose expected match count on the real tree
is zero: a small file that must match on every run (DESIGN.md section 7)."""
import os
import shutil
import tempfile

from .model import AnalysisError, Program

VERIF = os.path.dirname(os.path.dirname(os.path.abspath(__file__)))
CTL = os.path.join(VERIF, 'selftest', 'controls')


def with_control_package(files, fn):
    """Build a scratch package `pamqp` from the control files (paths
    relative to selftest/controls; the module name is the base name), load
    it as a Program (parsed, never imported) and return fn(program).  The
    scratch directory is removed before returning."""
    tmp = tempfile.mkdtemp(prefix='sa-control-')
    try:
        os.mkdir(os.path.join(tmp, 'pamqp'))
        for f in files:
            shutil.copy(os.path.join(CTL, f),
                        os.path.join(tmp, 'pamqp', os.path.basename(f)))
        return fn(Program(tmp))
    except AnalysisError:
        raise
    except Exception as err:
        raise AnalysisError('positive control %s could not be analysed: %s'
                            % (files, err))
    finally:
        shutil.rmtree(tmp, ignore_errors=True)


def caching_wrappers_control(chk):
    """models.wrappers recognises the memoising decorators."""
    from . import models

    def run(cprog):
        caching, _unk = models.wrappers(cprog, cprog.functions.values())
        return len(caching)
    n = with_control_package(['wrappers.py'], run)
    if n < 5:
        raise AnalysisError('positive control: only %d of 5 memoised '
                            'functions were recognised' % n)
    chk.extra['positive_control_wrappers'] = {
        'file': 'selftest/controls/wrappers.py', 'flagged': n}
