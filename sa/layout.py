"""Frame-level layouts: what frame.marshal writes and what frame.unmarshal
reads for one class, as residual terms of the abstract interpreter, parsed
into comparable layout elements (DESIGN.md C01.L / appendix A)."""
from . import codec
from . import interp as I
from . import terms as T
from .model import AnalysisError, ClassInfo
from .terms import Sym


class KeyPolicy(codec.FramePolicy):
    """FramePolicy + specialisation of one dispatch-table lookup to a chosen
    key (used to analyse frame.unmarshal for one method class at a time)."""

    def __init__(self, prog, table_name=None, key=None, assume_type=None):
        super().__init__(prog)
        self.table_name = table_name
        self.key = key
        self.key_terms = []
        self.assume_type = assume_type  # analyse only this frame kind
        self.data = None

    def decide_hook(self, interp, atom, state):
        if self.assume_type is None or self.data is None:
            return None
        if isinstance(atom, Sym) and atom.op in ('eq', 'ne') and \
                isinstance(atom.args[1], int) and \
                not isinstance(atom.args[1], bool):
            r = parse_unpack_read(atom.args[0], self.data)
            if r is not None and r[1] == 0 and r[2] == 0 and \
                    len(T.fmt(r[0]).values) == 3:
                return (atom.args[1] == self.assume_type) == \
                    (atom.op == 'eq')
        return None

    def choose_key(self, interp, table_ref, obj, keyterm, state):
        if self.key is None:
            return None
        if interp.static_names.get(table_ref.id) == self.table_name:
            self.key_terms.append(keyterm)
            return self.key
        return None


def joined_return(it, outs):
    rets = [o for o in outs if o.kind == 'return']
    if not rets:
        return None
    return it.join_outcomes(rets, 0) if len(rets) > 1 else rets[0]


def accepted_values(outs, var):
    """Superset of the integer values of ``var`` for which some return
    outcome exists (union over the return paths of the intersection of what
    their path atoms admit)."""
    from . import isets
    acc = isets.ISet.empty()
    for o in outs:
        if o.kind != 'return':
            continue
        s_ = isets.ISet.all()
        for a in o.state.kn.atoms:
            if isinstance(a, Sym) and not isets.is_type_atom(a):
                s_ = s_.inter(isets.superset(a, var))
        acc = acc.union(s_)
    return acc


def channel_acceptance(outs, var=None):
    """-> (ok, text): every channel 0..65535 has a return path."""
    from . import isets
    var = Sym('param', 'channel_id') if var is None else var
    acc = accepted_values(outs, var)
    missing = isets.ISet.range(0, 65535).inter(acc.complement())
    return missing.is_empty(), (
        'no guard excludes a channel in 0..65535' if missing.is_empty()
        else 'channels %s are refused by an explicit guard (admitted: %s)'
        % (missing, acc))


def size_cap_refusals(outs):
    """Explicit refusals of an encode run whose condition measures the
    encoded output (len of encoder results): a cap on the size of what can
    be sent.  -> ['<exception> at <site> when <condition>']"""
    out = []
    seen = set()
    for o in outs:
        if o.kind != 'raise' or o.exc.primitive:
            continue
        for a in o.state.kn.atoms:
            if not isinstance(a, Sym) or a.op in ('isinstance',):
                continue
            if a.op not in ('gt', 'ge', 'lt', 'le', 'not'):
                continue
            if T.mentions(a, lambda t: t.op == 'len' and
                          isinstance(t.args[0], Sym) and
                          t.args[0].op in ('enc', 'concat', 'pack', 'more',
                                           'join', 'utf8', 'opt')):
                k = (o.exc.site, a)
                if k not in seen:
                    seen.add(k)
                    out.append('%s at %s when %s' % (
                        o.exc.type_name, o.exc.site, T.show(a)[:100]))
    return out


def parts_of(term):
    if isinstance(term, Sym) and term.op == 'concat':
        return list(term.args)
    if term == b'':
        return []
    return [term]


def parse_bits(term):
    """bitor(shl(field:a, 0), shl(field:b, 1)...) -> [(pos, attr)] or None"""
    items = term.args if isinstance(term, Sym) and term.op == 'bitor' \
        else (term,)
    out = []
    for p in items:
        if isinstance(p, int) and p == 0:
            continue
        if isinstance(p, Sym) and p.op == 'shl' and \
                isinstance(p.args[0], Sym) and p.args[0].op == 'field' and \
                isinstance(p.args[1], int):
            out.append((p.args[1], p.args[0].args[0]))
        elif isinstance(p, Sym) and p.op == 'field':
            out.append((0, p.args[0]))
        else:
            return None
    return out


def bits_with_foreign_guard(term):
    """An octet built from per-argument contributions cond(g, 1 << k, 0)
    in which some g is not the truth value of its argument.
    -> [(k, argument name, guard text)] for those, or None when the term is
    not of that shape at all."""
    items = term.args if isinstance(term, Sym) and term.op == 'bitor' \
        else (term,)
    bad = []
    for p in items:
        if isinstance(p, int) and p == 0:
            continue
        if isinstance(p, Sym) and p.op == 'shl' and \
                isinstance(p.args[0], Sym) and p.args[0].op == 'field':
            continue
        if isinstance(p, Sym) and p.op == 'field':
            continue
        if isinstance(p, Sym) and p.op == 'cond' and p.args[2] == 0 and \
                isinstance(p.args[1], int) and p.args[1] > 0 and \
                p.args[1] & (p.args[1] - 1) == 0:
            g = p.args[0]
            flds = {t.args[0] for t in T.subterms(g) if t.op == 'field'}
            if len(flds) != 1:
                return None
            name = next(iter(flds))
            f = Sym('field', name)
            truth = isinstance(g, Sym) and (
                (g.op == 'truthy' and g.args[0] is f) or
                (g.op == 'ne' and g.args[0] is f and g.args[1] in (0,
                                                                    False))
                or (g.op == 'eq' and g.args[0] is f and g.args[1] in (1,
                                                                      True)))
            if not truth:
                bad.append((p.args[1].bit_length() - 1, name,
                            T.show(g)[:60]))
            continue
        return None
    return bad


def parse_encode_elements(parts, pol):
    """[enc terms] -> layout elements."""
    els = []
    for p in parts:
        if isinstance(p, Sym) and p.op == 'enc':
            short, operand = p.args
            if isinstance(operand, Sym) and operand.op == 'field':
                els.append(('field', operand.args[0], short))
                continue
            q = 'pamqp.' + short
            if 'octet' in pol.enc_funcs.get(q, ()):
                bits = parse_bits(operand)
                if bits is not None:
                    els.append(('bits', tuple(sorted(bits)), short))
                    continue
                fg = bits_with_foreign_guard(operand)
                if fg:
                    els.append(('bits-guard', tuple(fg), short))
                    continue
            els.append(('other', p))
        else:
            els.append(('other', p))
    return els


def method_encode(ctx, pol, ci):
    """frame.marshal(<instance of ci>, channel_id) -> dict with the parsed
    envelope and payload elements."""
    prog = ctx.prog
    it = ctx.interp(pol)
    st = ctx.new_state()
    ref = ctx.symbolic_instance(it, st, ci)
    ch = Sym('param', 'channel_id')
    fm = prog.function('frame.marshal')
    outs = it.run_function(fm, [ref, ch], {}, st)
    j = joined_return(it, outs)
    res = {'interp': it, 'outs': outs, 'ref': ref, 'term': None,
           'raises': [o for o in outs if o.kind == 'raise']}
    if j is None:
        return res
    res['term'] = j.value
    res['state'] = j.state
    res['returns'] = [o for o in outs if o.kind == 'return']
    return res


def flat(term):
    """Field-level view of an output term, independent of how the fields
    are grouped into struct formats and of whether a constant is spelled as
    bytes, as a constant argument, as padding or as an 'Ns' field:
      ('const', bytes) | ('fld', size, signed, order, kind, arg)
      | ('term', t)
    Adjacent constants are merged."""
    out = []

    def const(b):
        if not b:
            return
        if out and out[-1][0] == 'const':
            out[-1] = ('const', out[-1][1] + b)
        else:
            out.append(('const', b))

    for p in parts_of(term):
        if isinstance(p, bytes):
            const(p)
        elif isinstance(p, Sym) and p.op == 'pack':
            try:
                f = T.fmt(p.args[0])
            except Exception:
                out.append(('term', p))
                continue
            multi = any(k_ not in ('bytes', 'pad') and sz_ > 1
                        for _c, sz_, _s, k_ in f.fields)
            if f.order in ('native', 'native-std') and multi:
                out.append(('term', p))
                continue
            vi = 0
            for ch, size, signed, kind in f.fields:
                if kind == 'pad':
                    const(b'\x00' * size)
                    continue
                arg = p.args[1][vi]
                vi += 1
                if kind == 'bytes':
                    if ch == 's' and isinstance(arg, bytes) and \
                            len(arg) == size:
                        const(arg)
                    else:
                        out.append(('fld', size, None, 'any', 'bytes:' + ch,
                                    arg))
                    continue
                order = f.order if size > 1 else 'any'
                if kind == 'int' and isinstance(arg, (int, bool)) and \
                        not isinstance(arg, Sym):
                    lo, hi = (-(1 << (8 * size - 1)),
                              (1 << (8 * size - 1)) - 1) if signed else \
                        (0, (1 << (8 * size)) - 1)
                    if lo <= int(arg) <= hi:
                        const(int(arg).to_bytes(
                            size, 'little' if order == 'little' else 'big',
                            signed=bool(signed)))
                        continue
                out.append(('fld', size, signed, order, kind, arg))
        else:
            out.append(('term', p))
    return out


def unflat(items):
    """Back to a list of output terms (one pack per field)."""
    res = []
    for it in items:
        if it[0] == 'const':
            res.append(it[1])
        elif it[0] == 'term':
            res.append(it[1])
        else:
            _, size, signed, order, kind, arg = it
            res.append(Sym('pack', _fmt_of(size, signed, order, kind),
                           (arg,)))
    return res


def canon(term):
    """Canonical spelling of an output term: constants folded into bytes,
    maximal runs of struct fields grouped into one big-endian pack."""
    res = []
    run = []

    def flush():
        if run:
            fm = '>' + ''.join(_fmt_of(sz, sg, od, kd)[1:]
                               for _, sz, sg, od, kd, _a in run)
            res.append(Sym('pack', fm, tuple(a for *_x, a in run)))
            del run[:]

    for it in flat(term):
        if it[0] == 'fld' and it[3] != 'little' and \
                not it[4].startswith('bytes:'):
            run.append(it)
            continue
        flush()
        if it[0] == 'const':
            res.append(it[1])
        elif it[0] == 'term':
            res.append(it[1])
        else:
            res.extend(unflat([it]))
    flush()
    return T.concat(*res) if res else b''


_INT_CODES = {(1, False): 'B', (1, True): 'b', (2, False): 'H',
              (2, True): 'h', (4, False): 'I', (4, True): 'i',
              (8, False): 'Q', (8, True): 'q'}


def _fmt_of(size, signed, order, kind):
    pre = '<' if order == 'little' else '>'
    if kind == 'int':
        return pre + _INT_CODES[(size, bool(signed))]
    if kind == 'float':
        return pre + {4: 'f', 8: 'd'}[size]
    if kind == 'bool':
        return pre + '?'
    if kind.startswith('bytes:'):
        return '%d%s' % (size, kind[-1])
    return pre + 'c'


def take_fields(items, widths):
    """Split integer fields of the given widths off the front of a flat
    item list (a leading constant is cut as needed).
    -> ([('const', bytes) | fld item], rest items) or None"""
    got = []
    rest = list(items)
    for w in widths:
        if not rest:
            return None
        head = rest[0]
        if head[0] == 'const':
            b = head[1]
            if len(b) < w:
                return None
            got.append(('const', b[:w]))
            rest[0] = ('const', b[w:])
            if not rest[0][1]:
                rest.pop(0)
        elif head[0] == 'fld' and head[1] == w and head[4] == 'int':
            got.append(head)
            rest.pop(0)
        else:
            return None
    return got, rest


def fixed_fields(parts, widths):
    """take_fields over a list of output terms.
    -> ([int constant (big-endian unsigned reading) | (signed, order, arg)],
        rest terms) or None"""
    items = []
    for p in parts:
        items.extend(flat(p))
    # re-merge constants across parts
    merged = []
    for it in items:
        if it[0] == 'const' and merged and merged[-1][0] == 'const':
            merged[-1] = ('const', merged[-1][1] + it[1])
        else:
            merged.append(it)
    tk = take_fields(merged, widths)
    if tk is None:
        return None
    got, rest = tk
    vals = []
    for g in got:
        if g[0] == 'const':
            vals.append(int.from_bytes(g[1], 'big'))
        else:
            vals.append((bool(g[2]), g[3], g[5]))
    return vals, unflat(rest)


def parse_envelope(term):
    """header(type, channel, size) ++ payload... ++ end ->
    dict(fmt, type, channel, size, payload (list of terms), end) or None.
    Works on the field-level view, so the header may be spelled as one pack,
    as several, or with constant fields folded into bytes."""
    items = flat(term)
    if not items:
        return None
    # take the first three fields, splitting a leading constant as needed
    widths = [1, 2, 4]
    tk = take_fields(items, widths)
    if tk is None:
        return None
    got, rest = tk
    codes = ''
    vals = []
    for w, g in zip(widths, got):
        if g[0] == 'const':
            codes += _INT_CODES[(w, False)]
            vals.append(int.from_bytes(g[1], 'big'))
        else:
            if g[3] == 'little':
                return None
            codes += _INT_CODES[(w, bool(g[2]))]
            vals.append(g[5])
    if not rest:
        return None
    last = rest[-1]
    if last[0] == 'const':
        end = last[1][-1:]
        body = rest[:-1] + ([('const', last[1][:-1])] if last[1][:-1]
                            else [])
    elif last[0] == 'fld' and last[1] == 1:
        end = Sym('pack', 'B', (last[5],))
        body = rest[:-1]
    else:
        end = last[1] if last[0] == 'term' else None
        body = rest[:-1]
    return {'fmt': '>' + codes, 'type': vals[0], 'channel': vals[1],
            'size': vals[2], 'payload': unflat(body), 'end': end}


def payload_length(parts):
    tot = 0
    for p in parts:
        tot = T.add(tot, T.length(p))
    return tot


def run_unmarshal(ctx, pol, data=None):
    prog = ctx.prog
    it = ctx.interp(pol)
    st = ctx.new_state()
    if data is None:
        data = codec.buf('data_in')
    fu = prog.function('frame.unmarshal')
    outs = it.run_function(fu, [data], {}, st)
    return it, outs, data


def parse_bit_read(term, data):
    """ne(bitand(index(unpack(fmt, slice(data, a, b)), 0), mask), 0) ->
    (offset, pos, fmt, width) or None"""
    if not (isinstance(term, Sym) and term.op == 'ne' and term.args[1] == 0):
        return None
    ba = term.args[0]
    if not (isinstance(ba, Sym) and ba.op == 'bitand' and len(ba.args) == 2):
        return None
    x, mask = ba.args
    if isinstance(x, int):
        x, mask = mask, x
    if not (isinstance(mask, int) and mask > 0 and mask & (mask - 1) == 0):
        return None
    rd = parse_unpack_read(x, data)
    if rd is None:
        return None
    fmt, idx, lo, hi = rd
    if idx != 0:
        return None
    return lo, mask.bit_length() - 1, fmt, hi


def parse_unpack_read(term, data):
    """index(unpack(fmt, slice(data, lo, hi)), i) -> (fmt, i, lo, hi)"""
    if not (isinstance(term, Sym) and term.op == 'index' and
            isinstance(term.args[1], int)):
        return None
    u = term.args[0]
    if not (isinstance(u, Sym) and u.op == 'unpack'):
        return None
    sl = slice_of(u.args[1], data)
    if sl is None:
        return None
    return u.args[0], term.args[1], sl[0], sl[1]


def abs_range(b, data):
    """-> (lo, [upper bounds]) when b is a (possibly nested) slice of data
    with non-negative bounds: b == data[lo : min(upper bounds)]."""
    if b is data:
        return 0, []
    if isinstance(b, Sym) and b.op == 'slice':
        inner = abs_range(b.args[0], data)
        if inner is None:
            return None
        lo0, his = inner
        lo, hi = b.args[1], b.args[2]
        if not T.nonneg(lo) or (hi is not None and not T.nonneg(hi)):
            return None
        his = list(his)
        if hi is not None:
            his.append(T.add(lo0, hi))
        return T.add(lo0, lo), his
    return None


def slice_of(b, data):
    """-> (lo, hi) when b is data[lo:hi] (hi None = open; for nested slices
    hi is the single upper bound, or a ('min', ...) tuple), else None"""
    r = abs_range(b, data)
    if r is None:
        return None
    lo, his = r
    uniq = []
    for h in his:
        if not any(h is u or (isinstance(h, int) and h == u) for u in uniq):
            uniq.append(h)
    # drop bounds that are provably not the minimum
    if len(uniq) > 1:
        keep = []
        for h in uniq:
            dominated = False
            for o in uniq:
                if o is h:
                    continue
                d = T.sub(o, h)
                iv = T.interval(d)
                if iv[1] is not None and iv[1] < 0:
                    dominated = True
            if not dominated:
                keep.append(h)
        uniq = keep
    if not uniq:
        return lo, None
    if len(uniq) == 1:
        return lo, uniq[0]
    return lo, ('min',) + tuple(uniq)


def parse_decoded_attr(term, data, pol):
    """-> ('field', dec_short, lo, hi) | ('bit', lo, pos, fmt, hi) |
    ('other', term)"""
    if isinstance(term, Sym) and term.op == 'decval':
        sl = slice_of(term.args[1], data)
        if sl is not None:
            return ('field', term.args[0], sl[0], sl[1])
    br = parse_bit_read(term, data)
    if br is not None:
        return ('bit', br[0], br[1], br[2], br[3])
    return ('other', term)


def consumed_sym(pol, prog, dec_short, data, lo, hi):
    fi = prog.functions.get('pamqp.' + dec_short)
    if fi is None:
        raise AnalysisError('unknown decoder ' + dec_short)
    _r, iv = pol.primitive_raises(fi)
    b = T.slice_(data, lo, hi)
    return Sym('consumed', dec_short, b, iv)


def compare_method_layouts(prog, pol, enc_els, dec_attrs, data, base, end,
                           types):
    """Walk the encoder's element list and require the decoder to read each
    element where the encoder put it.  ``dec_attrs``: attr -> parsed decoded
    term; ``base``: offset of the first argument in ``data``; ``end``: upper
    bound of the payload view (or None); ``types``: attr -> wire type
    literal.  Returns list of (ok, attr, fact, detail)."""
    res = []
    off = base
    seen = set()
    for el in enc_els:
        if el[0] == 'field':
            _, attr, eshort = el
            seen.add(attr)
            d = dec_attrs.get(attr)
            wt = types.get(attr)
            e_ok = wt in pol.enc_funcs.get('pamqp.' + eshort, ())
            if d is None or d[0] != 'field':
                res.append((False, attr, 'written as a %s field by %s but '
                            'not read back as a field' % (wt, eshort),
                            {'decoded': show_parsed(d)}))
                # cannot advance reliably
                off = None
                break
            _, dshort, lo, hi = d
            d_ok = wt in pol.dec_funcs.get('pamqp.' + dshort, ())
            same_off = off is not None and T.sub(lo, off) == 0
            hi_ok = hi is None or (end is not None and T.sub(hi, end) == 0)
            res.append((e_ok and d_ok and same_off and hi_ok, attr,
                        '%s: written by %s, read by %s at offset %s' %
                        (wt, eshort, dshort, T.show(lo)[:120]),
                        {'expected_offset': T.show(off)[:200],
                         'encoder_is_type_encoder': e_ok,
                         'decoder_is_type_decoder': d_ok,
                         'view_end': T.show(hi)}))
            off = T.add(off, consumed_sym(pol, prog, dshort, data, lo, hi))
        elif el[0] == 'bits':
            _, bits, eshort = el
            for pos, attr in bits:
                seen.add(attr)
                d = dec_attrs.get(attr)
                if d is None or d[0] != 'bit':
                    res.append((False, attr, 'written as bit %d of a shared '
                                'octet but not read back as a bit' % pos,
                                {'decoded': show_parsed(d)}))
                    continue
                _, lo, dpos, fmt, hi = d
                fm = T.fmt(fmt)
                u8 = len(fm.values) == 1 and fm.values[0][1] == 1 and \
                    fm.values[0][2] is False
                same_off = T.sub(lo, off) == 0
                res.append((same_off and dpos == pos and u8 and
                            types.get(attr) == 'bit', attr,
                            'bit: written at position %d, read at position '
                            '%d of the octet at offset %s (format %r)' %
                            (pos, dpos, T.show(lo)[:120], fmt),
                            {'expected_offset': T.show(off)[:200]}))
            if len({p for p, _ in bits}) != len(bits):
                res.append((False, 'bits', 'two arguments share one bit '
                            'position: %r' % (bits,), None))
            if any(p > 7 or p < 0 for p, _ in bits):
                res.append((False, 'bits', 'bit position outside the octet: '
                            '%r' % (bits,), None))
            off = T.add(off, 1)
        else:
            res.append((None, 'layout', 'unrecognised element in the '
                        'encoder output: %s' % T.show(el[1])[:160], None))
            off = None
            break
    return res, seen, off


def show_parsed(d):
    if d is None:
        return 'nothing'
    return tuple(T.show(x)[:120] if isinstance(x, (Sym, tuple)) else x
                 for x in d)
